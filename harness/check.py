"""Entry point: python -m harness.check <Cxx> [--tier quick|thorough] [--replay f] | --setup"""
from __future__ import annotations

import argparse
import os
import sys
import traceback

from harness import core


def main() -> int:
    ap = argparse.ArgumentParser()
    ap.add_argument("prop", nargs="?")
    ap.add_argument("--tier", default=os.environ.get("VERIF_TIER", "quick"), choices=["quick", "thorough"])
    ap.add_argument("--replay")
    ap.add_argument("--setup", action="store_true")
    a = ap.parse_args()
    try:
        if a.setup:
            return core.setup()
        if not a.prop:
            ap.error("property id required")
        seed = int(os.environ.get("VERIF_SEED", "0") or 0)
        return core.run_check(a.prop.upper(), a.tier, seed, a.replay)
    except core.Infra as e:
        print("infrastructure error:", e, file=sys.stderr)
        return 2
    except Exception:
        traceback.print_exc()
        return 2


if __name__ == "__main__":
    sys.exit(main())
