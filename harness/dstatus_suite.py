"""The stage-status rule in isolation: `StageExecution.determine_status()` of a stage without synthetic children, the real
method against the model's `determineStatus` (driver form `engine dstatus ...`) on EVERY task-status list up to a length and
random longer ones, plus implementation-side oracles that restate the theorems of Props/C05 (`stage_succeeded_means_every_task_ok`,
`stage_complete_means_no_open_task_or_a_halted_one`, `taskless_stage_status`) and Props/C18 (`waiting_task_keeps_stage_waiting`)
about the code, so that a change of the rule is reported with the task list on which the property fails.

Wired into C05 and C18 (run_for / is_replay / replay)."""
from __future__ import annotations

import itertools

STATUSES = ["NOT_STARTED", "RUNNING", "PAUSED", "SUSPENDED", "SUCCEEDED", "FAILED_CONTINUE", "TERMINAL", "CANCELED", "REDIRECT",
            "STOPPED", "SKIPPED", "BUFFERED"]
OPEN = {"NOT_STARTED", "RUNNING", "PAUSED", "BUFFERED", "SUSPENDED"}
HALT = {"TERMINAL", "STOPPED", "CANCELED"}
COMPLETE = {"SUCCEEDED", "FAILED_CONTINUE", "TERMINAL", "CANCELED", "STOPPED", "SKIPPED"}
WAITING = {"SUSPENDED", "PAUSED", "BUFFERED"}
CURS = ["RUNNING", "NOT_STARTED", "SUSPENDED", "SUCCEEDED"]


def impl(cont: int, failp: int, cur: str, ts: list[str]) -> str:
    from stabilize.models.stage import StageExecution
    from stabilize.models.status import WorkflowStatus
    from stabilize.models.task import TaskExecution

    ctx: dict = {}
    if cont:
        ctx["continuePipelineOnFailure"] = True
    if not failp:
        ctx["failPipeline"] = False
    tasks = []
    for k, t in enumerate(ts):
        task = TaskExecution.create(name=f"t{k}", implementing_class="x", stage_start=(k == 0), stage_end=(k == len(ts) - 1))
        task.status = WorkflowStatus[t]
        tasks.append(task)
    st = StageExecution(ref_id="s0", type="scripted", name="s0", context=ctx, tasks=tasks)
    st.status = WorkflowStatus[cur]
    try:
        return st.determine_status().name
    except Exception as e:   # the rule is total in the model
        return f"raised:{type(e).__name__}"


def line(cont, failp, cur, ts) -> str:
    return f"engine dstatus {cont} {failp} {cur} {','.join(ts) if ts else '-'}"


def oracle(ctx, prop: str, cont, failp, cur, ts, out) -> None:
    rep = {"kind_dstatus": True, "cont": cont, "failp": failp, "cur": cur, "tasks": list(ts)}
    if prop == "C05":
        if not ts:
            want = "SUCCEEDED" if cur == "RUNNING" else "NOT_STARTED"
            if out != want:
                ctx.violation(f"determine_status() of a stage without tasks in status {cur} = {out}, expected {want}", "dstatus:taskless-stage", rep)
            return
        if out == "SUCCEEDED" and any(t not in ("SUCCEEDED", "SKIPPED") for t in ts):
            ctx.violation(f"determine_status() = SUCCEEDED with task statuses {ts}", "dstatus:succeeded-with-unfinished-or-failed-task", rep)
        if out in COMPLETE and any(t in OPEN for t in ts) and not any(t in HALT for t in ts):
            ctx.violation(f"determine_status() = {out} (completed) although a task has work outstanding and none halted: {ts}",
                          "dstatus:completed-with-open-task", rep)
    if prop == "C18":
        if ts and any(t in WAITING for t in ts) and not any(t in HALT for t in ts) and out not in WAITING:
            ctx.violation(f"determine_status() = {out} although a task is waiting ({ts}) and none halted: the stage does not stay suspended",
                          "dstatus:waiting-task-not-kept-waiting", rep)


def cases(ctx):
    ex = 3 if not ctx.thorough else 4
    for n in range(0, ex + 1):
        for ts in itertools.product(STATUSES, repeat=n):
            for cont, failp in ((0, 1), (1, 1), (0, 0), (1, 0)):
                for cur in (CURS if n == 0 else CURS[:2]):
                    yield cont, failp, cur, list(ts), f"exhaustive-len{n}"
    rng = ctx.rng
    for _ in range(ctx.n(4000, 60000)):
        n = rng.choice([4, 5, 6, 8, 12])
        # mostly-finished lists with a few interesting entries: the branch that decides is far down the rule
        base = rng.choice([["SUCCEEDED"], ["SUCCEEDED", "SKIPPED"], ["SUCCEEDED", "FAILED_CONTINUE"], STATUSES])
        ts = [rng.choice(base) for _ in range(n)]
        for _ in range(rng.choice([0, 1, 1, 2])):
            ts[rng.randrange(n)] = rng.choice(STATUSES)
        yield rng.choice([0, 1]), rng.choice([0, 1]), rng.choice(CURS), ts, "random-long"


def run_for(ctx, prop: str) -> None:
    inputs, lines, outs = [], [], []
    for cont, failp, cur, ts, fam in cases(ctx):
        out = impl(cont, failp, cur, ts)
        oracle(ctx, prop, cont, failp, cur, ts, out)
        l = line(cont, failp, cur, ts)
        inputs.append({"kind_dstatus": True, "cont": cont, "failp": failp, "cur": cur, "tasks": ts})
        lines.append(l)
        outs.append(out)
        ctx.count(l, len(ts) >= 2)
        ctx.tag(f"dstatus:{fam}", f"dstatus:out:{out}")
    ctx.correspond("dstatus", inputs, lines, outs)
    ctx.extra["dstatus_exhaustive"] = ("every task-status list of length <= %d over the 12 statuses x continuePipelineOnFailure x failPipeline x "
                                       "current status RUNNING | NOT_STARTED (task-less: also SUSPENDED, SUCCEEDED)") % (4 if ctx.thorough else 3)


def is_replay(body: dict) -> bool:
    b = body.get("replay", body)
    return isinstance(b, dict) and (b.get("kind_dstatus") or (isinstance(b.get("input"), dict) and b["input"].get("kind_dstatus")))


def replay(ctx, body: dict, prop: str) -> int:
    b = body.get("replay", body)
    if isinstance(b.get("input"), dict):
        b = b["input"]
    cont, failp, cur, ts = b["cont"], b["failp"], b["cur"], b["tasks"]
    out = impl(cont, failp, cur, ts)
    model = ctx.lean([line(cont, failp, cur, ts)])
    print(f"stage: continuePipelineOnFailure={bool(cont)} failPipeline={bool(failp)} status={cur} task statuses={ts}")
    print(f"StageExecution.determine_status() = {out}; model determineStatus = {model[0] if model else 'n/a'}")
    oracle(ctx, prop, cont, failp, cur, ts, out)
    bad = bool(ctx.monitor_hits) or (model is not None and model[0] != out)
    for h in ctx.monitor_hits:
        print("PROPERTY FAILS:", h["what"])
    if model is not None and model[0] != out:
        print("MODEL AND CODE DISAGREE on this input")
    return 1 if bad else 0
