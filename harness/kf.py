"""known_findings.json helper (edited by hand / by this tool at development time only; checks never write it).

  python -m harness.kf add --property C14 --kind known --signature SIG --what "text" [--replay replays/C14/x.json] [--commit abc]
"""
from __future__ import annotations

import argparse
import fcntl
import json
from pathlib import Path

F = Path(__file__).resolve().parent.parent / "known_findings.json"


def main() -> None:
    ap = argparse.ArgumentParser()
    sub = ap.add_subparsers(dest="cmd", required=True)
    a = sub.add_parser("add")
    a.add_argument("--property", required=True)
    a.add_argument("--kind", required=True, choices=["known", "fixed"])
    a.add_argument("--signature", required=True)
    a.add_argument("--what", required=True)
    a.add_argument("--replay")
    a.add_argument("--commit")
    args = ap.parse_args()
    with open(str(F) + ".lock", "w") as lk:
        fcntl.flock(lk, fcntl.LOCK_EX)
        data = json.loads(F.read_text()) if F.exists() else {"findings": []}
        data["findings"] = [x for x in data["findings"] if not (x["property"] == args.property and x["signature"] == args.signature)]
        e = {"property": args.property, "kind": args.kind, "signature": args.signature, "what": args.what}
        if args.replay:
            e["replay"] = args.replay
        if args.commit:
            e["commit"] = args.commit
        data["findings"].append(e)
        data["findings"].sort(key=lambda x: (x["property"], x["signature"]))
        F.write_text(json.dumps(data, indent=1) + "\n")
    print("ok", len(data["findings"]))


if __name__ == "__main__":
    main()
