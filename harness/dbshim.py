"""Shared SQLite instrumentation for the queue / optimistic-locking checks (C07, C08).

* `install()` shims `stabilize.persistence.connection.sqlite3` so that every connection the
  engine opens is an `IConn` (a `sqlite3.Connection` subclass):
    - `commit()` counts the commits that really end a transaction and raises `Crash`
      (a BaseException, so none of the engine's `except Exception` paths run) at the armed one;
    - `execute()` calls a per-thread gate before a statement matching the armed predicate, which
      lets the harness park a worker between two statements of one engine call;
    - every new connection is passed to the `CTL.on_connect` hooks (e.g. to register SQL functions that the
      harness's triggers call, on connections the engine opens on its own threads);
    - `commit()` calls the per-thread `CTL.commit_gates` entry (if any) before a commit that really ends a
      transaction, so a worker can also be parked while it holds the write lock, before its COMMIT.
* `Worker` is a dedicated thread with a mailbox: `worker.call(fn)` runs `fn` on that thread (the
  engine's SQLite connections are thread-local, so one Worker = one connection = one logical
  client) and returns/raises in the caller.  `worker.start_call(fn)` + `wait_parked_or_done()` +
  `resume()` drive a call that parks at a gate.  The harness is the only scheduler: at any time at
  most one worker runs.
"""
from __future__ import annotations

import queue as _q
import sqlite3
import threading
from typing import Any, Callable


class Crash(BaseException):
    """The process 'dies' here."""


class Ctl:
    def __init__(self) -> None:
        self.crash_at: int | None = None   # crash at the commit with this index (0-based, counted from arming)
        self.commits = 0
        self.dead = False
        self.total_commits = 0
        self.gates: dict[int, Callable[[str, Any], bool]] = {}   # thread ident -> predicate(sql, params)
        self.commit_gates: dict[int, Callable[[], Any]] = {}     # thread ident -> called before a commit that really ends a transaction
        self.parked: dict[int, dict] = {}
        self.on_connect: list[Callable[[sqlite3.Connection, tuple], Any]] = []   # called with every connection the engine opens

    def arm_crash(self, k: int | None) -> None:
        self.crash_at = k
        self.commits = 0
        self.dead = False


CTL = Ctl()


class IConn(sqlite3.Connection):
    def commit(self):  # type: ignore[override]
        if self.in_transaction:
            cg = CTL.commit_gates.get(threading.get_ident())
            if cg is not None:
                cg()
            if CTL.dead:
                raise Crash("commit after death")
            if CTL.crash_at is not None:
                if CTL.commits == CTL.crash_at:
                    CTL.dead = True
                    raise Crash(f"killed at commit {CTL.commits}")
                CTL.commits += 1
            CTL.total_commits += 1
        return super().commit()

    def execute(self, sql, params=(), /):  # type: ignore[override]
        g = CTL.gates.get(threading.get_ident())
        if g is not None:
            g(sql, params)
        return super().execute(sql, params)


class _Shim:
    """Stands in for the `sqlite3` module inside stabilize.persistence.connection."""

    def __getattr__(self, n):
        return getattr(sqlite3, n)

    def connect(self, *a, **k):
        k.setdefault("factory", IConn)
        conn = sqlite3.connect(*a, **k)
        for hook in CTL.on_connect:
            hook(conn, a)
        return conn


def install() -> None:
    import stabilize.persistence.connection as pc

    if not isinstance(pc.sqlite3, _Shim):
        pc.sqlite3 = _Shim()


def uninstall() -> None:
    import stabilize.persistence.connection as pc

    pc.sqlite3 = sqlite3


class Worker:
    """A logical client: a thread that executes what the harness hands it, one call at a time."""

    def __init__(self, name: str) -> None:
        self.name = name
        self.inbox: _q.Queue = _q.Queue()
        self.outbox: _q.Queue = _q.Queue()     # ("ok", v) | ("err", e) | ("parked", info)
        self.resume_evt = threading.Event()    # set by the harness to let a parked call continue
        self.abort = False
        self.busy = False
        self.t = threading.Thread(target=self._loop, name=f"verif-{name}", daemon=True)
        self.t.start()
        self.ident = self.call(threading.get_ident)

    def _loop(self) -> None:
        while True:
            fn = self.inbox.get()
            if fn is None:
                return
            try:
                r = ("ok", fn())
            except BaseException as e:  # noqa: BLE001 - Crash must travel too
                r = ("err", e)
            self.outbox.put(r)

    # ---- plain call ----
    def call(self, fn: Callable[[], Any], timeout: float = 120.0) -> Any:
        assert not self.busy, f"worker {self.name} is parked"
        self.inbox.put(fn)
        kind, val = self.outbox.get(timeout=timeout)
        if kind == "err":
            raise val
        if kind == "parked":
            raise RuntimeError(f"worker {self.name} parked inside a plain call")
        return val

    # ---- gated call ----
    def park_here(self, info: dict) -> None:
        """Called ON the worker thread (from a gate): block until the harness resumes."""
        self.resume_evt.clear()
        self.outbox.put(("parked", info))
        self.resume_evt.wait()
        if self.abort:
            raise Crash("aborted while parked")

    def start_call(self, fn: Callable[[], Any]) -> None:
        assert not self.busy
        self.busy = True
        self.abort = False
        self.inbox.put(fn)

    def wait_parked_or_done(self, timeout: float = 120.0):
        """-> ("parked", info) | ("done", value) | raises"""
        kind, val = self.outbox.get(timeout=timeout)
        if kind == "parked":
            return ("parked", val)
        self.busy = False
        if kind == "err":
            raise val
        return ("done", val)

    def resume(self, abort: bool = False):
        self.abort = abort
        self.resume_evt.set()

    def stop(self) -> None:
        if self.busy:
            self.resume(abort=True)
            try:
                self.wait_parked_or_done(5)
            except BaseException:  # noqa: BLE001
                pass
        self.inbox.put(None)
