"""Engine-level suites shared by the properties that quantify over schedules / crash points / histories.

One trace = (workflow spec, op list).  The real engine is driven op by op (harness/engine.py), its canonical
state line after every op is compared with the Lean `engine` model's (Mode-A trace differential), and the
same trace is fed to implementation-side monitors that state the PROPERTY (not the model).
"""
from __future__ import annotations

import copy
import hashlib
import json
import os
import random
import re
import shutil
import sqlite3
import traceback
from collections import Counter
from concurrent.futures import ProcessPoolExecutor
from dataclasses import dataclass, field
from pathlib import Path
from typing import Any, Callable

from harness import core
from harness.engine import Engine, Spec, StageSpec, WAIT_MAX

CONTINUABLE = {"SUCCEEDED", "FAILED_CONTINUE", "SKIPPED", "REDIRECT"}
HALT = {"TERMINAL", "CANCELED", "STOPPED"}
COMPLETE = {"SUCCEEDED", "FAILED_CONTINUE", "SKIPPED", "TERMINAL", "CANCELED", "STOPPED"}
RECORDED = set("STFPCKDX") | {"J"}     # outcomes that record a result (no re-execution afterwards)


# --------------------------------------------------------------------------------------
# generators
# --------------------------------------------------------------------------------------

def gen_spec(rng: random.Random, family: str) -> Spec:
    """family: w0 (static AND DAG, plain outcomes) | w1 (+ all joins) | w3 (+ jumps) | w4 (+ suspend) | any"""
    n = rng.randint(1, 5) if family != "w0" else rng.randint(2, 5)
    stages: list[StageSpec] = []
    joins = ["AND"] * 4 + (["OR", "MULTI_MERGE", "DISCRIMINATOR", "N_OF_M"] if family != "w0" else [])
    exotic = family.endswith("x")           # + STOPPED / CANCELED / SKIPPED / REDIRECT-without-target results, failPipeline=False
    family = family.rstrip("x")
    outcomes = ["S"] * 8 + ["T", "F", "R", "E", "X"] + (["P", "C", "K", "D"] if exotic else [])
    jumpers = 0
    if family in ("w3", "any"):
        outcomes += ["J", "J"]
    if family in ("w4", "any"):
        outcomes += ["U", "U"]
    for i in range(n):
        k = 0 if i == 0 else rng.choice([0, 1, 1, 1, 2, 2, 3])
        reqs = sorted(rng.sample(range(i), min(k, i)))
        join = rng.choice(joins) if len(reqs) > 1 else "AND"
        th = rng.choice([0, 1, 2]) if join == "N_OF_M" else 0
        nt = rng.choice([0, 1, 1, 1, 2, 3]) if family != "w0" else rng.choice([1, 1, 2, 3])
        tasks = []
        for _ in range(nt):
            o = rng.choice(outcomes)
            if o == "J" and jumpers >= 1 and not exotic:
                o = "S"          # main family: one jumping task per workflow (one loop); several concurrent jumpers are 'exotic'
            if o == "J":
                jumpers += 1
                script = [f"J{rng.randrange(n)}"] * rng.randint(1, 3) + ["S"]
            elif o in "STFPCKDX":
                script = [o]
            else:
                script = [o] * rng.randint(1, 2) + ["S"]
            tasks.append(script)
        stages.append(StageSpec(reqs=reqs, join=join, threshold=th, tasks=tasks, cont=rng.random() < 0.15,
                                failp=(rng.random() > 0.1) if exotic else True, enabled=rng.choice([None] * 8 + [False, True]),
                                maxj=rng.choice([None] * 5 + [0, 1, 2]) if family in ("w3", "any") else None))
    if family != "w0":
        # OR-split (WCP-6): a stage with several downstream stages gets constant split conditions per downstream
        for i in range(n):
            down = [d for d in range(n) if i in stages[d].reqs]
            if len(down) >= 2 and rng.random() < 0.4:
                stages[i].split = {d: rng.random() < 0.6 for d in down if rng.random() < 0.85}
                if not stages[i].split:
                    stages[i].split = {down[0]: False}
    return Spec(stages, wf_maxj=rng.choice([None] * 4 + [1, 2, 3]) if family in ("w3", "any") else None)


def gen_orsplit_spec(rng: random.Random) -> Spec:
    """directed family: an OR-split whose branches have different lengths, paired with an OR-join (possibly with an extra
    upstream outside the split): the join must wait for the END of every activated branch"""
    slow = rng.choice([["S"], ["R", "S"], ["R", "R", "S"], ["E", "S"]])
    a_len, b_len = rng.randint(1, 2), rng.randint(1, 3)
    stages = [StageSpec(reqs=[], tasks=[["S"]])]                      # 0: the split
    a = []
    for k in range(a_len):
        stages.append(StageSpec(reqs=[0] if k == 0 else [len(stages) - 1], tasks=[["S"]]))
        a.append(len(stages) - 1)
    b = []
    for k in range(b_len):
        stages.append(StageSpec(reqs=[0] if k == 0 else [len(stages) - 1], tasks=[list(slow)] if k == b_len - 1 else [["S"]]))
        b.append(len(stages) - 1)
    extra = []
    if rng.random() < 0.3:
        stages.append(StageSpec(reqs=[], tasks=[list(rng.choice([["S"], ["R", "S"]]))]))
        extra.append(len(stages) - 1)
    join_reqs = sorted([a[-1], b[-1]] + extra)
    stages.append(StageSpec(reqs=join_reqs, join=rng.choice(["OR", "OR", "AND"]), tasks=[["S"]]))
    stages[0].split = {a[0]: rng.random() < 0.8, b[0]: rng.random() < 0.8}
    return Spec(stages)


# --------------------------------------------------------------------------------------
# running one trace
# --------------------------------------------------------------------------------------

@dataclass
class Trace:
    spec: Spec
    ops: list[str] = field(default_factory=list)
    lines: list[str] = field(default_factory=list)           # lines[0] = after start; lines[k] = after ops[k-1]
    op_msg: list[str | None] = field(default_factory=list)   # message code delivered by ops[k] (None for injections)
    op_inner: list[list[str]] = field(default_factory=list)  # nested ops: codes delivered by the second worker meanwhile
    audit_len: list[int] = field(default_factory=list)       # len(audit) after each line
    ledger_len: list[int] = field(default_factory=list)
    audit: list[tuple[str, str, str]] = field(default_factory=list)
    ledger: list[tuple] = field(default_factory=list)
    commits: list[int] = field(default_factory=list)
    quiesced: bool = False
    outcomes: list[str] = field(default_factory=list)
    tag: str = ""
    respecting: bool = True   # no delayed message was delivered while an immediate one was pending
    meta: dict = field(default_factory=dict)   # reference outcome etc. for differential monitors

    def request(self) -> str:
        return f"engine {self.spec.line()} {','.join(self.ops) or '-'}"

    def expected(self) -> str:
        a = ",".join(f"{e}:{o}>{n}" for e, o, n in self.audit) or "-"
        l = ",".join(f"{s}.{t}.{n}[{'+'.join(f'{k}:{v}' for k, v in seen)}]" for s, t, n, seen in self.ledger) or "-"
        return "|".join(self.lines + [f"A={a}", f"L={l}"])

    def key(self) -> list:
        return [self.spec.line(), self.ops]

    def final(self) -> dict:
        return parse_line(self.lines[-1])

    def to_json(self) -> dict:
        return {"spec": self.spec.to_json(), "spec_line": self.spec.line(), "ops": self.ops, "tag": self.tag,
                "last_line": self.lines[-1] if self.lines else "", "meta": self.meta}


def parse_line(line: str) -> dict:
    d: dict[str, Any] = {"stages": []}
    for part in line.split(";"):
        k, _, v = part.partition("=")
        if k == "W":
            st, c = v.split(",")
            d["wf"] = st
            d["canceled"] = c == "1"
        elif k == "Q":
            d["queue"] = [] if v == "-" else [x for x in v.split(",")]
        elif k == "P":
            d["processed"] = [] if v == "-" else [int(x) for x in v.split(",")]
        elif k.startswith("S"):
            f = v.split(",")
            # status, v<version>, st<0/1>, tasks, flags, cb.., jc.., bs.., d.., o..
            tasks = [] if f[3] == "-" else [t.rstrip("*") for t in f[3].split(".")]
            rest = ",".join(f[4:])
            d["stages"].append({"status": f[0], "version": int(f[1][1:]), "start": f[2] == "st1", "tasks": tasks,
                                "jf": "jf1" in f[4], "jb": "jb1" in f[4], "raw": rest})
    return d


class Runner:
    """Drives one Engine through ops chosen by a policy, recording everything the monitors need."""

    def __init__(self, spec: Spec, workdir: Path, name: str = "e"):
        self.e = Engine(spec, workdir, name)
        self.e.start()
        self.t = Trace(spec)
        self._record(None)

    def _record(self, msg: str | None) -> None:
        t = self.t
        t.lines.append(self.e.state_line())
        t.audit_len.append(self.e.ro.execute("SELECT COUNT(*) FROM _audit").fetchone()[0])
        t.ledger_len.append(len(self.e.world.ledger))

    def pending(self) -> list[tuple[int, str, int]]:
        return self.e.pending()

    def eligible(self, respecting: bool) -> list[tuple[int, str, int]]:
        """Budget-respecting schedules deliver a delayed message (wait re-poll, polling/transient RunTask) only
        when no immediately deliverable message is pending: delays are 15 s / backoff in reality, so a re-poll
        chain is not exhausted (240 x 15 s) while ordinary messages are still waiting."""
        p = self.e.pending()
        if not respecting or not p:
            return p
        dl = self.e.delayed_ids()
        now = [x for x in p if x[0] not in dl]
        if now:
            return now
        # among delayed messages, task polls / transient retries (backoff ~1-60 s) come before wait re-polls
        # (15 s x 240): a wait budget is only consumed when nothing else can make progress
        polls = [x for x in p if x[1].startswith("RT.")]
        return polls or p

    def apply(self, op: tuple) -> None:
        e, t = self.e, self.t
        kind = op[0]
        msg = None
        inner_codes: list[str] = []
        if kind in ("d", "x", "k"):
            code = {i: c for i, c, _ in e.pending()}.get(op[1])
            msg = code
        if kind == "d":
            before = core_count()
            r = e.deliver(op[1])
            t.ops.append(f"d{op[1]}")
            t.outcomes.append(r)
        elif kind == "x":
            r = e.deliver(op[1], ack=False)
            t.ops.append(f"x{op[1]}")
            t.outcomes.append(r)
        elif kind == "k":
            r, n = e.crash(op[1], op[2])
            if r == "killed":
                t.ops.append(f"k{op[1]}.{op[2]}")
            else:
                t.ops.append(f"d{op[1]}")
            t.outcomes.append(r)
            t.commits.append(n)
        elif kind == "i":
            # deliver row op[1]; ANOTHER worker's recovery sweep runs right after the op[2]-th commit of that delivery
            # (implementation-only op: the model's sweeps sit between whole deliveries, see Trace.model_free)
            code = {i_: c for i_, c, _ in e.pending()}.get(op[1])
            msg = code
            r, n = e.interpose(op[1], op[2])
            t.ops.append(f"i{op[1]}.{op[2]}" if not r.endswith(":no-sweep") else f"d{op[1]}")
            t.outcomes.append(r.replace(":no-sweep", ""))
        elif kind == "c":
            e.cancel()
            t.ops.append("c")
            t.outcomes.append("ok")
        elif kind == "g":
            e.signal(op[1], op[2])
            t.ops.append(f"g{op[1]}.{int(op[2])}")
            t.outcomes.append("ok")
        elif kind == "w":
            e.sweep()
            t.ops.append("w")
            t.outcomes.append("ok")
        elif kind == "n":
            # deliver RunTask row op[1]; while its task executes, a second worker fully delivers rows op[2]
            codes = {i: c for i, c, _ in e.pending()}
            code = codes.get(op[1])
            msg = code
            inner = list(op[2])
            inner_codes = [codes.get(j, "?") for j in inner]
            fired = []

            def hook(s_, t_, n_):  # runs in the bulkhead thread, inside Task.execute
                e.world.hook = None
                for j in inner:
                    fired.append(e.deliver(j))

            e.world.hook = hook
            try:
                r = e.deliver(op[1])
            finally:
                e.world.hook = None
            t.ops.append("n" + ".".join(str(x) for x in [op[1]] + inner))
            t.outcomes.append(r)
        elif kind == "restart":
            e.restart()
            return
        else:
            raise AssertionError(op)
        t.op_msg.append(msg)
        t.op_inner.append(inner_codes)
        self._record(msg)

    def drain(self, rng: random.Random | None, mode: str = "fifo", max_steps: int = 250, redeliver_p: float = 0.0) -> None:
        for _ in range(max_steps):
            p = self.eligible(True)
            if not p:
                break
            rid = p[0][0] if mode == "fifo" or rng is None else rng.choice(p)[0]
            if rng is not None and redeliver_p and rng.random() < redeliver_p:
                self.apply(("x", rid))
            else:
                self.apply(("d", rid))
        self.t.quiesced = not self.pending()

    def finish(self) -> Trace:
        t = self.t
        t.audit = self.e.audit()
        t.ledger = list(self.e.world.ledger)
        t.quiesced = not self.pending()
        self.e.close()
        return t


def core_count() -> int:
    return 0


# --------------------------------------------------------------------------------------
# monitors: the property as stated, on implementation traces only
# --------------------------------------------------------------------------------------

def can_transition(old: str, new: str) -> bool:
    from stabilize.models.status import WorkflowStatus, can_transition as ct

    return ct(WorkflowStatus[old], WorkflowStatus[new])


def op_codes(t: Trace, k: int) -> list[str]:
    """message codes handled by ops[k]: the delivered one plus those a second worker delivered meanwhile (nested op)"""
    out = [t.op_msg[k]] if t.op_msg[k] else []
    if k < len(t.op_inner):
        out += t.op_inner[k]
    return out


def audit_by_op(t: Trace):
    """yield (op index (0-based; -1 = start), op string, delivered msg code, audit row)"""
    for k in range(1, len(t.lines)):
        for row in t.audit[t.audit_len[k - 1]:t.audit_len[k]]:
            yield k - 1, t.ops[k - 1], t.op_msg[k - 1], row


def mon_c06(t: Trace) -> list[tuple[str, str]]:
    """every durable status change legal; completed final except jump re-arm"""
    hits = []
    for k, op, msg, (ent, old, new) in audit_by_op(t):
        rearm = new == "NOT_STARTED" and any(c.startswith("JS.") for c in op_codes(t, k))
        if rearm:
            continue
        if not can_transition(old, new):
            kind = "completed-left" if old in COMPLETE else "illegal"
            hits.append((f"{kind}:{ent[0]}:{old}>{new}:by:{(msg or op).split('.')[0]}",
                         f"durable status change {ent} {old}->{new} by {msg or op} is not in the transition table"))
    return hits


def join_ok(spec: Spec, pre: dict, i: int) -> bool:
    """Independent oracle for 'the join condition over the upstream stages is met' (property C03 text)."""
    sp = spec.stages[i]
    ups = [pre["stages"][u]["status"] for u in sp.reqs]
    if not ups:
        return True
    cont = [u in CONTINUABLE for u in ups]
    if sp.join == "N_OF_M" and sp.threshold > 0:
        return sum(cont) >= sp.threshold
    if sp.join in ("DISCRIMINATOR", "MULTI_MERGE"):
        return any(cont)
    return all(cont)   # AND, OR without activation info, N_OF_M threshold <= 0


def mon_c03(t: Trace) -> list[tuple[str, str]]:
    hits = []
    cur_k, cur = None, None
    for k, op, msg, (ent, old, new) in audit_by_op(t):
        if k != cur_k:
            cur_k, cur = k, parse_line(t.lines[k])
        pre = cur
        if ent[0] == "S" and ent[1:].isdigit():
            # statuses as they were when THIS row was written: a nested op (second worker delivering messages while the
            # first one's task executes) and multi-write handlers change upstream rows earlier within the same op
            cur = dict(cur, stages=[dict(x) for x in cur["stages"]])
            cur["stages"][int(ent[1:])]["status"] = new
        if ent[0] == "S" and old == "NOT_STARTED" and new == "RUNNING":
            i = int(ent[1:])
            if pre["stages"][i]["jb"]:
                continue  # explicit jump target
            if not join_ok(t.spec, pre, i):
                ups = [pre["stages"][u]["status"] for u in t.spec.stages[i].reqs]
                hits.append((f"claimed-unready:{t.spec.stages[i].join}:{'+'.join(sorted(set(ups)))}",
                             f"stage {i} ({t.spec.stages[i].join}) started by {msg} while upstreams were {ups}"))
    return hits


def iterations(t: Trace):
    """per (s,t): list of ledger entries split at task re-arms (audit T s.t *->NOT_STARTED)"""
    # order ledger entries and re-arm rows by op index
    events = []
    for k in range(1, len(t.lines)):
        for row in t.audit[t.audit_len[k - 1]:t.audit_len[k]]:
            ent, old, new = row
            if ent[0] == "T" and new == "NOT_STARTED":
                s, tt = ent[1:].split(".")
                events.append((k, 0, "rearm", (int(s), int(tt))))
        for le in t.ledger[t.ledger_len[k - 1]:t.ledger_len[k]]:
            events.append((k, 1, "exec", le))
    return sorted(events, key=lambda x: (x[0], x[1]))


def mon_c02_reexec(t: Trace, crashes: int = 0) -> list[tuple[str, str]]:
    """a task whose result has been recorded is never executed again (within one loop iteration)"""
    hits = []
    recorded: dict[tuple[int, int], str] = {}
    last_rearm: dict[tuple[int, int], int] = {}
    rows_since: dict[tuple[int, int], list[int]] = {}      # RunTask rows that executed the task since its last re-arm
    for k, _, kind, payload in iterations(t):
        if kind == "rearm":
            recorded.pop(payload, None)
            last_rearm[payload] = k
            rows_since[payload] = []
        else:
            s, tt, n, _seen = payload
            m_ = re.match(r"[dxn](\d+)", t.ops[k - 1])
            if m_:
                rows_since.setdefault((s, tt), []).append(int(m_.group(1)))
            if (s, tt) in recorded and crashes == 0:
                # F4 family: one of the RunTasks that executed the task in this iteration (the earlier or the later one) was
                # already queued BEFORE the jump re-armed the task - a message of the previous loop iteration (no iteration
                # tag) and the new iteration's own RunTask both run the task body
                stale = ""
                if (s, tt) in last_rearm:
                    before = {int(q.split(":")[0]) for q in parse_line(t.lines[last_rearm[(s, tt)] - 1])["queue"]}
                    if any(rid_ in before for rid_ in rows_since.get((s, tt), [])):
                        stale = ":stale-runtask-from-before-rearm"
                sig_ = (f"reexecuted:stale-runtask-from-before-rearm:after-{recorded[(s, tt)]}" if stale
                        else f"reexecuted-after:{recorded[(s, tt)]}")
                hits.append((sig_,
                             f"task {s}.{tt} executed again (execution #{n}) after its result {recorded[(s, tt)]} was recorded, op {t.ops[k - 1]}"))
            oc = t.spec.stages[s].tasks[tt][min(n - 1, len(t.spec.stages[s].tasks[tt]) - 1)]
            if oc[0] in RECORDED:
                recorded[(s, tt)] = oc[0]
    return hits


def split_skip_targets(spec: Spec) -> set[int]:
    """stages an OR-split decides to SKIP (constant conditions; 'no branch activated -> the first one') that also have
    another upstream: whether such a stage is skipped or run depends on whether the split's SkipStage or the other
    upstream's StartStage is handled first (F42)"""
    out: set[int] = set()
    n = len(spec.stages)
    for u, st in enumerate(spec.stages):
        if not st.split:
            continue
        down = [d for d in range(n) if u in spec.stages[d].reqs]
        act = [d for d in down if st.split.get(d, st.split.get(str(d), True)) in (True, None)]
        if not act and down:
            act = [down[0]]
        for d in down:
            if d not in act and len(spec.stages[d].reqs) > 1:
                out.add(d)
    return out


def parallel_jump(spec: Spec) -> bool:
    """some task jumps to a stage that is neither its own stage, an ancestor nor a descendant of it: the jump lands in a
    PARALLEL branch, and what it finds there (not started yet / running / done) depends on how far that branch got - the
    program itself races, under any engine; such workflows have no schedule-independent outcome to compare"""
    n = len(spec.stages)
    anc: list[set[int]] = []
    for i in range(n):
        a: set[int] = set()
        for u in spec.stages[i].reqs:
            a |= {u} | anc[u]
        anc.append(a)
    for i, st in enumerate(spec.stages):
        for script in st.tasks:
            for o in script:
                if o[0] == "J":
                    tgt = int(o[1:])
                    if tgt < n and tgt != i and tgt not in anc[i] and i not in anc[tgt]:
                        return True
    return False


def mon_c02_outcome(t: Trace) -> list[tuple[str, str]]:
    """same outcome as in-order exactly-once delivery: final workflow / stage statuses and per-task execution counts of a
    reordered / redelivered run equal the FIFO run's, for workflows whose outcome does not depend on a failing branch
    racing its siblings (no halting task result)"""
    ref = t.meta.get("fifo_ref")
    if not ref or not ref.get("healthy") or not t.quiesced:
        return []
    if parallel_jump(t.spec):
        return []
    if any(x in ("TERMINAL", "STOPPED", "CANCELED") for x in ref["stages"]):
        return []      # the in-order run itself halted (e.g. a jump refused by its limit ends its stage TERMINAL): a halting
                       # result racing the sibling branches, the same exclusion as for T / X task results
    got = outcome_of(t)
    hits = []
    if any(i < len(got["stages"]) and got["stages"][i] != ref["stages"][i] for i in split_skip_targets(t.spec)):
        i = [i for i in sorted(split_skip_targets(t.spec)) if got["stages"][i] != ref["stages"][i]][0]
        hits.append(("outcome-differs-from-fifo:orsplit-skip-overtaken-by-other-upstream",
                     f"schedule {t.tag}: stage {i} is {got['stages'][i]} here and {ref['stages'][i]} in order: an OR-split upstream decided to skip it, "
                     f"another upstream's StartStage was handled before the SkipStage; final {got['wf']} {got['stages']} vs {ref['wf']} {ref['stages']}"))
    elif got["wf"] != ref["wf"] or got["stages"] != ref["stages"]:
        fin = t.final()
        cause = wedge_cause(t, fin) if fin["wf"] not in COMPLETE else (("wait-budget:" + wedge_cause(t, parse_line(t.lines[exhausted(t)]))) if exhausted(t) is not None else "final-statuses")
        hits.append((f"outcome-differs-from-fifo:{cause}", f"schedule {t.tag}: final {got['wf']} {got['stages']} vs in-order run {ref['wf']} {ref['stages']}"))
    elif got["execs"] != ref["execs"]:
        jumped = any(c.startswith("JS.") for k in range(len(t.ops)) for c in op_codes(t, k))
        rearmed = any(ent[0] == "S" and new == "NOT_STARTED" for ent, old, new in t.audit)
        hits.append(("executions-differ-from-fifo" + ((":jump" if rearmed else ":jump-forward") if jumped else ""), f"schedule {t.tag}: task executions {got['execs']} vs in-order run {ref['execs']}"))
    elif got["tasks"] != ref["tasks"]:
        pairs = sorted({f"{a}-vs-{b}" for x, y in zip(got["tasks"], ref["tasks"]) for a, b in zip(x, y) if a != b})
        hits.append(("task-statuses-differ-from-fifo:" + "+".join(pairs), f"schedule {t.tag}: same workflow / stage statuses and executions, but task statuses {got['tasks']} vs in-order run {ref['tasks']}"))
    return hits


def waiting_explicitly(fin: dict) -> bool:
    return any(s["status"] in ("SUSPENDED", "PAUSED") for s in fin["stages"])


def exhausted(t: Trace) -> int | None:
    """index k (into lines) of the first delivery of a wait re-poll whose budget is spent (retry == WAIT_MAX)"""
    for k, m in enumerate(t.op_msg):
        if m and ((m.startswith("CW.") and m.split(".")[1] == str(WAIT_MAX)) or
                  (m.startswith("SS.") and m.split(".")[2] == str(WAIT_MAX))):
            return k
    return None


def wedge_cause(t: Trace, fin: dict) -> str:
    """Name the cause of a quiescent-but-unfinished workflow (stable signature per defect, not per shape)."""
    has_d = any("D" in script for st in t.spec.stages for script in st.tasks)
    seen_js: set[str] = set()
    for k in range(len(t.ops)):
        m = t.op_msg[k]
        if m and m.startswith("JS.") and t.ops[k][0] in "dx" and t.ops[k][1:] not in seen_js:
            seen_js.add(t.ops[k][1:])
            src = int(m.split(".")[1])
            pre = parse_line(t.lines[k])
            if int(t.ops[k][1:]) in pre.get("processed", []):
                continue        # a redelivery of a jump that was already performed (crash after its commit): dedup drops it, rightly
            if pre["stages"][src]["status"] == "RUNNING" and t.audit_len[k + 1] == t.audit_len[k]:
                return "jump-request-ignored-although-source-running"
    jumped = any(c.startswith("JS.") for k in range(len(t.ops)) for c in op_codes(t, k))
    in_order = t.tag.endswith("/fifo") or all(o[0] == "d" for o in t.ops) and t.ops == sorted(t.ops, key=lambda o: int(o[1:]))
    for s in fin["stages"]:
        if s["status"] == "RUNNING" and "REDIRECT" in s["tasks"] and has_d:
            return "redirect-result-without-jump"        # task returned REDIRECT with no target: nobody drives the stage
    rearmed = {int(ent[1:]) for ent, old, new in t.audit if ent[0] == "S" and new == "NOT_STARTED"}
    fwd_src = set()
    for k in range(len(t.ops)):
        for m in op_codes(t, k):
            if m.startswith("JS."):
                fwd_src.add(int(m.split(".")[1]))
    for i, s in enumerate(fin["stages"]):
        reqs = t.spec.stages[i].reqs
        ups = [fin["stages"][u]["status"] for u in reqs]
        if s["status"] == "NOT_STARTED" and reqs and all(u in CONTINUABLE for u in ups) and any(u in fwd_src for u in reqs) and i not in rearmed:
            return "downstream-of-jump-source-never-triggered"   # F29: jump completed its source without start_next
    for k in range(len(t.ops)):
        for m in op_codes(t, k):
            if m.startswith("JS."):
                src = int(m.split(".")[1])
                pre, post = parse_line(t.lines[k]), parse_line(t.lines[k + 1])
                for i, (a, b) in enumerate(zip(pre["stages"], post["stages"])):
                    if i != src and a["status"] == "RUNNING" and b["status"] == "NOT_STARTED":
                        # F4 family: the jump re-arms a stage OTHER than its source while that stage is mid-flight (a parallel
                        # branch); the messages of the interrupted iteration are still queued and act on the new one
                        return "jump-rearmed-running-stage"
    for i, s in enumerate(fin["stages"]):
        ups = [fin["stages"][u]["status"] for u in t.spec.stages[i].reqs]
        if s["status"] == "NOT_STARTED" and i in rearmed and all(u in COMPLETE for u in ups) and in_order:
            return "rearmed-stage-not-retriggered"       # F28: jump re-armed it, but its upstreams were not re-run
    if jumped and not in_order:
        # F4 family: a message of an earlier loop iteration (CompleteTask(REDIRECT), StartTask, RunTask, StartStage,
        # CompleteStage) overtaken by the re-arm acts on the new iteration; messages carry no iteration tag
        return "jump-loop-stale-message"
    shape = "+".join(sorted({s["status"] for s in fin["stages"]}))
    # a jump that re-armed some stage (a loop: F4 family, no iteration tag on messages) vs. a purely forward jump
    return (("jump:" if rearmed else "jump-forward:") if jumped else "") + shape


def mon_c05(t: Trace) -> list[tuple[str, str]]:
    hits = []
    if not t.quiesced:
        return hits
    fin = t.final()
    sts = [s["status"] for s in fin["stages"]]
    if fin["wf"] not in COMPLETE and not waiting_explicitly(fin):
        hits.append((f"wedged:{wedge_cause(t, fin)}", f"queue empty, workflow {fin['wf']}, stages {sts}: neither final nor explicitly waiting"))
    ex = exhausted(t)
    if ex is not None and t.respecting:
        pre = parse_line(t.lines[ex])
        if pre["wf"] not in COMPLETE and waiting_explicitly(pre):
            hits.append(("waiting-workflow-failed-by-wait-budget",
                         f"a stage was explicitly waiting (SUSPENDED/PAUSED) but {t.op_msg[ex]} exhausted its re-poll budget and failed the workflow"))
        if pre["wf"] not in COMPLETE and not waiting_explicitly(pre):
            hits.append((f"stuck-until-wait-budget:{wedge_cause(t, pre)}",
                         f"only wait re-polls were pending ({t.op_msg[ex]} exhausted its budget): workflow {pre['wf']} was silently stuck with stages {[x['status'] for x in pre['stages']]}"))
    if fin["wf"] == "SUCCEEDED" and not all(s in CONTINUABLE for s in sts):
        bad = {s for s in sts if s not in CONTINUABLE}
        cause = "+".join(sorted(bad))
        if "STOPPED" in bad:
            # F5 (failPipeline=False / TaskResult.stopped()): by design the workflow is SUCCEEDED with the STOPPED stage and
            # its never-started descendants; any OTHER unfinished stage (outside the stopped branch) is a different failure
            n = len(t.spec.stages)
            desc: set[int] = set()
            for i in range(n):
                if sts[i] == "STOPPED" or any(u in desc or sts[u] == "STOPPED" for u in t.spec.stages[i].reqs):
                    desc.add(i)
            outside = sorted({sts[i] for i in range(n) if sts[i] not in CONTINUABLE and i not in desc})
            cause = "stopped-stage" if not outside else "stopped-stage+unfinished-outside-its-branch:" + "+".join(outside)
        hits.append((f"succeeded-with:{cause}", f"workflow SUCCEEDED with stages {sts}"))
    if "TERMINAL" in sts and fin["wf"] in COMPLETE and fin["wf"] not in ("TERMINAL", "CANCELED"):
        hits.append((f"terminal-stage-but:{fin['wf']}", f"a stage is TERMINAL but the workflow is {fin['wf']}"))
    if fin["wf"] in COMPLETE and "RUNNING" in sts:
        hits.append((f"finished-with-running-stage:{fin['wf']}", f"workflow {fin['wf']} finished but stages are {sts}"))
    return hits


def in_effect_finished(stage: dict, idx: int, queue: list[str]) -> bool:
    """A stage whose every task already has a recorded result (it only awaits CompleteTask/CompleteStage
    bookkeeping) 'had in effect already finished' when the cancel was accepted."""
    if stage["status"] in COMPLETE:
        return True
    if stage["status"] == "RUNNING" and not stage["tasks"]:
        return True    # claimed task-less stage: only its CompleteStage is outstanding
    if stage["status"] != "RUNNING" or not stage["tasks"]:
        return False
    if any(ts in ("TERMINAL", "STOPPED", "CANCELED") for ts in stage["tasks"]):
        return True    # its outcome (failure) was already decided by a recorded task result
    pending_ct = {int(q.split(":")[1].split(".")[2].split("/")[0]) for q in queue if q.split(":")[1].startswith(f"CT.{idx}.")}
    if any(q.split(":")[1].startswith(f"CT.{idx}.") and q.split(":")[1].split("/")[0].split(".")[-1] in ("TERMINAL", "STOPPED", "CANCELED")
           for q in queue):
        return True    # the failing result is already reported (its CompleteTask is queued): same decided outcome
    for ti, ts in enumerate(stage["tasks"]):
        if ts in COMPLETE:
            continue
        if ts == "RUNNING" and ti in pending_ct and ti == len(stage["tasks"]) - 1:
            continue
        return False
    return True


def mon_c17(t: Trace) -> list[tuple[str, str]]:
    """Interpretation (DESIGN.md C17): 'had not already finished' / 'in effect already finished' is judged at the
    commit that sets is_canceled; a stage all of whose task results are already recorded counts as finished."""
    hits = []
    accepted = None
    for k in range(1, len(t.lines)):
        pre, post = parse_line(t.lines[k - 1]), parse_line(t.lines[k])
        if not pre["canceled"] and post["canceled"]:
            accepted = k
            break
    if accepted is None:
        return hits
    at_cancel = parse_line(t.lines[accepted])
    late = t.ledger[t.ledger_len[accepted]:]
    if late:
        hits.append(("exec-after-cancel", f"task executions {late[:3]} began after the cancel was processed (op #{accepted})"))
    if t.quiesced:
        fin = t.final()
        if fin["wf"] not in COMPLETE:
            hits.append((f"cancel-not-final:{fin['wf']}", f"after an accepted cancel the workflow stays {fin['wf']}"))
        fin_flags = [in_effect_finished(a, i, at_cancel["queue"]) for i, a in enumerate(at_cancel["stages"])]
        for i, (a, b) in enumerate(zip(at_cancel["stages"], fin["stages"])):
            if not fin_flags[i] and b["status"] != "CANCELED":
                kind = "taskless" if not a["tasks"] else ("disabled" if t.spec.stages[i].enabled is False else "with-tasks")
                hits.append((f"unfinished-stage-ends:{kind}:{a['status']}>{b['status']}",
                             f"stage {i} ({kind}) was {a['status']} when the cancel was accepted and ends {b['status']}"))
                break
        failed_in_effect = any(a["status"] == "TERMINAL" or "TERMINAL" in a["tasks"] or
                               any(q.split(":")[1].startswith(f"CT.{i}.") and q.split(":")[1].split("/")[0].endswith("TERMINAL") for q in at_cancel["queue"])
                               for i, a in enumerate(at_cancel["stages"]))
        if fin["wf"] in COMPLETE and fin["wf"] != "CANCELED" and not all(fin_flags) and not (failed_in_effect and fin["wf"] == "TERMINAL"):
            hits.append((f"cancel-final:{fin['wf']}", f"canceled workflow ends {fin['wf']} although stages were unfinished at cancel time"))
    return hits


def outcome_of(t: Trace) -> dict:
    fin = t.final()
    last_seen: dict[str, list] = {}
    execs: Counter = Counter()
    for s_, tt, n, seen in t.ledger:
        last_seen[f"{s_}.{tt}"] = [list(kv) for kv in seen]
        execs[f"{s_}.{tt}"] += 1
    return {"wf": fin["wf"], "stages": [s_["status"] for s_ in fin["stages"]], "tasks": [s_["tasks"] for s_ in fin["stages"]],
            "seen": last_seen, "execs": dict(execs), "quiesced": t.quiesced, "exhausted": exhausted(t) is not None,
            "healthy": t.quiesced and fin["wf"] in COMPLETE and exhausted(t) is None}


def sweep_triggered_jump_downstream(t: Trace) -> bool:
    """F29 made visible: a recovery sweep pushed StartStage for a NOT_STARTED stage one of whose prerequisites had been
    completed by a forward jump (the jump marks its source SUCCEEDED without start_next, so in the uninterrupted run that
    stage waits for another upstream to trigger it, or for ever); the crash run then legitimately differs from the
    uninterrupted one by that stage starting earlier / at all."""
    fwd_src: set[int] = set()
    for k, o in enumerate(t.ops):
        for m in op_codes(t, k):
            if m.startswith("JS."):
                fwd_src.add(int(m.split(".")[1]))
        if o == "w" and fwd_src:
            before = {x.split(":")[1].split("/")[0] for x in parse_line(t.lines[k])["queue"]}
            after = parse_line(t.lines[k + 1])
            for x in after["queue"]:
                code = x.split(":")[1].split("/")[0]
                if code.startswith("SS.") and code not in before:
                    i = int(code.split(".")[1])
                    if after["stages"][i]["status"] == "NOT_STARTED" and any(u in fwd_src for u in t.spec.stages[i].reqs):
                        return True
    return False


def mon_c01(t: Trace) -> list[tuple[str, str]]:
    """crash anywhere + restart + sweep + drain == uninterrupted run (statuses, data each task saw, at most the in-flight step repeated)"""
    ref = t.meta.get("ref")
    if not ref or not ref.get("healthy"):
        return []      # the uninterrupted run itself is stuck / exhausted a wait budget: reported by C05, not comparable
    hits = []
    got = outcome_of(t)
    at = t.meta.get("crash_msg", "?").split(".")[0]
    k = t.meta.get("crash_k")
    if sweep_triggered_jump_downstream(t):
        at, k = "downstream-of-jump-source-never-triggered", "uninterrupted"
    elif t.meta.get("crash2_msg"):
        # two crashes: name both points, the StartStage claim|plan point (F18) first when it is one of them
        pts = [(at, k), (t.meta["crash2_msg"].split(".")[0], t.meta.get("crash2_k"))]
        if ("SS", 1) in pts:
            at, k = "SS", 1
        else:
            at, k = f"{pts[0][0]}@{pts[0][1]}+{pts[1][0]}", pts[1][1]
    # A late redelivery of the un-acked row (the lock lapses by the clock) and a second crash REORDER the remaining messages
    # relative to the uninterrupted run.  Two things then legitimately depend on the order, crash or no crash (C02's subject):
    #  - which of several failing / halting parallel branches wins (who ends TERMINAL, who CANCELED, how far the others got);
    #  - jump loops, whose messages carry no iteration tag (known F4 family): reported under one stable signature class.
    reordered = bool(t.meta.get("hold")) or t.meta.get("crashes", 1) > 1
    halting = any(o[0] in "TXPCD" for st in t.spec.stages for script in st.tasks for o in script)
    jumped = any(c.startswith("JS.") for j in range(len(t.ops)) for c in op_codes(t, j))
    race_dependent = reordered and halting
    cls = "reordered-jump-loop:" if (reordered and jumped) else ""
    if not got["quiesced"]:
        hits.append((f"not-drained-after-recovery:{at}", "queue not drained after crash recovery"))
        return hits
    fin = t.final()
    if fin["wf"] not in COMPLETE and not waiting_explicitly(fin) and ref["wf"] in COMPLETE:
        hits.append((f"{cls}stuck-after-crash:{at}@{k}", f"after a crash in {t.meta.get('crash_msg')} (after {k} commits) + restart + sweep + drain the workflow stays {fin['wf']} with stages {got['stages']}; uninterrupted run: {ref['wf']}"))
        return hits
    split_race = [i for i in sorted(split_skip_targets(t.spec)) if i < len(got["stages"]) and got["stages"][i] != ref["stages"][i]]
    if split_race:
        # F42: the crash / late redelivery reordered an OR-split's SkipStage against the other upstream's StartStage
        hits.append(("outcome-differs:orsplit-skip-overtaken-by-other-upstream",
                     f"crash in {t.meta.get('crash_msg')} after {k} commits: stage {split_race[0]} is {got['stages'][split_race[0]]} here and "
                     f"{ref['stages'][split_race[0]]} uninterrupted (an OR-split upstream decided to skip it; the recovery reordered its SkipStage "
                     f"against another upstream's StartStage); final {got['wf']} {got['stages']} vs {ref['wf']} {ref['stages']}"))
    elif (got["wf"] != ref["wf"] or got["stages"] != ref["stages"]) and not race_dependent:
        hits.append((f"{cls}outcome-differs:{at}@{k}", f"crash in {t.meta.get('crash_msg')} after {k} commits: final {got['wf']} {got['stages']} vs uninterrupted {ref['wf']} {ref['stages']}"))
    # first-come joins (OR / DISCRIMINATOR / N_OF_M / MULTI_MERGE) hand their stage whatever upstream outputs exist at the
    # moment the join fires: the data such a stage (and everything downstream of it) sees depends on the delivery order even
    # without a crash, and a recovery sweep legitimately changes that order - only AND-joined data is schedule-independent
    first_come: set[int] = set()
    for i, st in enumerate(t.spec.stages):
        if (st.join != "AND" and len(st.reqs) > 1) or any(u in first_come for u in st.reqs):
            first_come.add(i)
    for key, seen in ref["seen"].items():
        if int(key.split(".")[0]) in first_come:
            continue
        if key in got["seen"] and got["seen"][key] != seen:
            hits.append((f"{cls}upstream-data-differs:{at}@{k}", f"task {key} saw {got['seen'][key]} after the crash in {t.meta.get('crash_msg')}, {seen} in the uninterrupted run"))
            break
    extra = sum(got["execs"].values()) - sum(ref["execs"].values())
    if extra > t.meta.get("crashes", 1) and not race_dependent:
        hits.append((f"{cls}more-than-inflight-step-repeated:{at}@{k}", f"{extra} extra task executions after {t.meta.get('crashes', 1)} crash(es)"))
    return hits


def mon_c10(t: Trace) -> list[tuple[str, str]]:
    """sweeps injected into a healthy run change no outcome and cause no extra execution; after a crash w,w == w"""
    ref = t.meta.get("ref")
    if not ref or not ref.get("healthy"):
        return []      # 'healthy run' = the reference completes without exhausting a wait budget
    hits = []
    got = outcome_of(t)
    kind = t.meta.get("kind", "healthy")
    where = (t.meta.get("sweep_before") or "?").split(".")[0]
    healthy_ref = t.meta.get("ref_healthy")
    if healthy_ref and healthy_ref.get("healthy"):
        extra = sum(got["execs"].values()) - sum(healthy_ref["execs"].values())
        if extra > 1:
            hits.append((f"after-crash:more-than-inflight-step-repeated:{where}", f"{extra} extra task executions after one crash in {t.meta.get('crash_msg')} followed by sweep(s)"))
    if got["quiesced"] != ref["quiesced"] or got["wf"] != ref["wf"] or got["stages"] != ref["stages"]:
        hits.append((f"{kind}:outcome-changed-by-sweep:before-{where}", f"{kind}: sweep before {t.meta.get('sweep_before')}: final {got['wf']} {got['stages']} vs reference {ref['wf']} {ref['stages']}"))
    if got["execs"] != ref["execs"]:
        hits.append((f"{kind}:extra-execution-by-sweep:before-{where}", f"{kind}: sweep before {t.meta.get('sweep_before')}: executions {got['execs']} vs reference {ref['execs']}"))
    return hits


def mon_c18(t: Trace) -> list[tuple[str, str]]:
    """signals: a SUSPENDED stage leaves SUSPENDED only by a signal or a cancel; every effective signal resumes the
    stage exactly once (persistent: whenever sent; transient: only if the stage is SUSPENDED when it is handled)"""
    hits = []
    tgt = t.meta.get("signal_stage")
    if tgt is None:
        return hits
    for k, op, msg, (ent, old, new) in audit_by_op(t):
        if ent == f"S{tgt}" and old == "SUSPENDED":
            cause = (msg or op).split(".")[0]
            if cause not in ("SG", "XS") and not any(c.split(".")[0] in ("SG", "XS", "JS") for c in op_codes(t, k)):
                hits.append((f"suspended-left-by:{cause}", f"stage {tgt} left SUSPENDED ({new}) by {msg or op}, not by a signal or cancel"))
    if not t.quiesced:
        return hits
    # effective signals, judged on the implementation trace itself
    effective = 0
    handled: set[str] = set()
    for k in range(1, len(t.lines)):
        m = t.op_msg[k - 1]
        rid = t.ops[k - 1][1:]
        if t.ops[k - 1][0] == "k":
            rid, ncommits = rid.split(".")
            if ncommits == "0":
                continue       # the worker died before the handler's (single) commit: the signal was not handled, the row comes back
        if m and m.startswith(f"SG.{tgt}.") and t.ops[k - 1][0] in "dxk" and rid not in handled:
            handled.add(rid)      # the first delivery runs the handler (its commit carries the mark); later ones are duplicates
            pre = parse_line(t.lines[k - 1])
            persistent = m.endswith(".1")
            if persistent or pre["stages"][tgt]["status"] == "SUSPENDED":
                effective += 1
    suspends = t.meta.get("suspends", 0)
    fin = t.final()
    st = fin["stages"][tgt]
    for k in range(1, len(t.lines)):
        a, b = parse_line(t.lines[k - 1]), parse_line(t.lines[k])
        if a["wf"] not in COMPLETE and b["wf"] in COMPLETE and b["stages"][tgt]["status"] == "SUSPENDED" and not b["canceled"]:
            hits.append(("suspended-stage-abandoned:workflow-finished-while-waiting",
                         f"workflow became {b['wf']} by {t.op_msg[k - 1]} while stage {tgt} was SUSPENDED waiting for a signal"))
            return hits
    execs = sum(1 for s_, tt, n, _ in t.ledger if s_ == tgt and tt == t.meta.get("signal_task", 0))
    # an execution whose worker died before anything was committed left no trace in the engine and is repeated
    execs -= sum(1 for j, o in enumerate(t.ops) if o[0] == "k" and o.endswith(".0") and t.ledger_len[j + 1] > t.ledger_len[j]
                 and (t.op_msg[j] or "") == f"RT.{tgt}.{t.meta.get('signal_task', 0)}")
    if st["status"] in ("NOT_STARTED",):
        return hits
    if effective >= suspends:
        if st["status"] == "SUSPENDED":
            hits.append((f"signal-lost:{effective}of{suspends}", f"{effective} effective signal(s) for {suspends} suspension(s) but stage {tgt} is still SUSPENDED at quiescence"))
        elif st["status"] == "SUCCEEDED" and execs > suspends + 1:
            # script U^k S: k suspending executions + the final one; anything more is a second resume for one signal
            hits.append((f"resume-count:{execs - suspends - 1}-extra-execution(s)",
                         f"stage {tgt}: the suspending task was executed {execs} times for {suspends} suspension(s): one signal resumed the stage more than once"))
    else:
        if st["status"] != "SUSPENDED" and fin["wf"] != "CANCELED" and not fin["canceled"]:
            hits.append((f"resumed-without-signal:{effective}of{suspends}", f"only {effective} effective signal(s) for {suspends} suspension(s) but stage {tgt} ended {st['status']}"))
        elif st["status"] == "SUSPENDED" and execs != effective + 1:
            hits.append((f"resume-count:{execs - 1}-resumes-for-{effective}-signals", f"stage {tgt}: {execs} executions of the suspending task for {effective} effective signals"))
    return hits


# monitors about final outcomes only make sense on budget-respecting schedules (see Runner.eligible)
OUTCOME_MONITORS = {"mon_c17", "mon_c05", "mon_c01", "mon_c10", "mon_c18", "mon_c02_outcome"}

MONITORS = {
    "C02": [mon_c02_reexec, mon_c02_outcome],
    "C03": [mon_c03],
    "C05": [mon_c05],
    "C06": [mon_c06],
    "C17": [mon_c17],
    "C01": [mon_c01, mon_c06, mon_c05],
    "C10": [mon_c10, mon_c06],
    "C18": [mon_c18, mon_c06],
    "C15": [],   # filled below (mon_c15 is defined after the producers)
}


# --------------------------------------------------------------------------------------
# trace production (worker processes)
# --------------------------------------------------------------------------------------

def _one_random(args) -> dict:
    """Worker: produce traces for one seed chunk. Returns plain dicts (picklable)."""
    prop, seed, count, tier = args
    core.ensure_repo_on_path()
    import logging

    logging.disable(logging.CRITICAL)
    rng = random.Random(f"engine:{prop}:{seed}")
    wd = core.scratch_dir()
    out = []
    try:
        for j in range(count):
            try:
                if prop == "C01":
                    out.extend(produce_c01(rng, wd, tier))
                elif prop == "C10":
                    out.extend(produce_c10(rng, wd, tier))
                elif prop == "C18":
                    out.extend(produce_c18(rng, wd, tier))
                elif prop == "C15" and j % 6 == 0:
                    out.extend(produce_c15(rng, wd, tier))
                elif prop == "C05" and j % 6 == 0:
                    # "queue drained and no handler running" also holds after a crash + restart + recovery + drain:
                    # a handler that splits state change and continuation over two commits strands the workflow there
                    out.extend(produce_c01(rng, wd, "quick"))
                else:
                    out.append(produce(prop, rng, wd, j))
            except Exception:
                out.append({"error": traceback.format_exc()})
    finally:
        shutil.rmtree(wd, ignore_errors=True)
    return {"traces": out}


def produce(prop: str, rng: random.Random, wd: Path, j: int) -> dict:
    fam = {"C17": "w1", "C06": "any", "C05": "any", "C02": "any", "C03": "w1"}.get(prop, "any")
    if rng.random() < float(os.environ.get("VERIF_EXOTIC", "0.15")):
        fam += "x"
    if prop in ("C03",) and rng.random() < 0.3:
        fam = "w3"
    if prop == "C17" and rng.random() < 0.25:
        fam = "w3"      # jumps next to a cancel: a JumpToStage handled after the accepted cancel must not revive anything (F56)
    spec = gen_spec(rng, fam)
    if prop in ("C03", "C05", "C02", "C06") and rng.random() < (0.2 if prop == "C03" else 0.08):
        spec = gen_orsplit_spec(rng)
    directed = prop in ("C06", "C18", "C05", "C02") and rng.random() < (0.3 if prop in ("C06", "C18") else 0.12)
    if directed:
        # interference family: a stage whose task suspends / polls, next to a parallel stage that jumps INTO it
        # (re-arm while the task executes) or is cancelled meanwhile: exercises RunTask's reload-then-commit phase
        a_script = rng.choice([["U", "S"], ["R", "S"], ["U", "U", "S"], ["S"]])
        b_script = [f"J0"] * rng.randint(1, 2) + ["S"]
        stages = [StageSpec(tasks=[a_script]), StageSpec(tasks=[b_script])]
        if rng.random() < 0.5:
            stages.append(StageSpec(reqs=[0, 1], tasks=[["S"]]))
        spec = Spec(stages, wf_maxj=rng.choice([None, 2, 3]))
        fam = "interf"
    stale = prop in ("C03", "C02", "C05") and not directed and rng.random() < (0.3 if prop == "C03" else 0.06)
    if stale:
        # stale-start family: T -> A -> B (each with ONE upstream), T -> C where C jumps back to T (the loop resets T, A, B, C
        # to NOT_STARTED); StartStage rows are often delivered without ack, so a copy pushed in an earlier iteration comes
        # back while its upstream is NOT_STARTED / RUNNING again: the start handler must re-check the upstream and drop it
        back = rng.choice([["J0", "S"], ["J0", "J0", "S"], ["J1", "S"]])
        stages = [StageSpec(tasks=[["S"]]), StageSpec(reqs=[0], tasks=[list(rng.choice([["S"], ["R", "S"]]))]),
                  StageSpec(reqs=[1], tasks=[["S"]]), StageSpec(reqs=[0], tasks=[back])]
        if rng.random() < 0.4:
            stages.append(StageSpec(reqs=[2], tasks=[["S"]]))
        spec = Spec(stages, wf_maxj=rng.choice([None, 2, 3]))
        fam = "stale-start"
    stopped_fam = prop in ("C05", "C17", "C02") and not directed and not stale and rng.random() < (0.08 if prop == "C05" else 0.03)
    if stopped_fam:
        # stopped-branch family (exotic by construction): 2-3 independent root branches, one of which ends STOPPED
        # (TaskResult.stopped(), or a failing task with failPipeline=False), the others succeed / suspend / poll / fail-continue
        # and may have a downstream stage: exercises CompleteWorkflow's "a stage is STOPPED and no OTHER branch is incomplete"
        # rule, whose answer must not depend on how late the other roots' StartStage is delivered
        nb = rng.choice([2, 2, 3])
        stages = []
        which = rng.randrange(nb)
        for b_ in range(nb):
            if b_ == which:
                if rng.random() < 0.5:
                    stages.append(StageSpec(tasks=[["P"]] if rng.random() < 0.6 else [["S"], ["P"]]))
                else:
                    stages.append(StageSpec(tasks=[[rng.choice(["T", "X"])]], failp=False))
            else:
                stages.append(StageSpec(tasks=[list(rng.choice([["S"], ["S"], ["R", "S"], ["U", "S"], ["F"]]))]))
        for b_ in range(nb):
            if rng.random() < 0.4:
                stages.append(StageSpec(reqs=[b_], tasks=[["S"]]))
        spec = Spec(stages)
        fam = "stopped-branch"
    r = Runner(spec, wd)
    mode = rng.choice(["fifo", "rand", "rand", "dup", "any", "starve"])
    if stopped_fam:
        mode = rng.choice(["starve", "starve", "rand"])
    if directed:
        mode = rng.choice(["rand", "dup"])
    if stale:
        mode = "dup"
    victim = None      # mode "starve": one pending row is held back until nothing else is deliverable (a very late message)
    respecting = mode != "any"
    nested_p = 0.0 if mode == "fifo" else (0.6 if directed else 0.25)
    cancel_at = rng.randint(0, 25) if (prop == "C17" or rng.random() < 0.15) else None
    step = 0
    for _ in range(220):
        p = r.eligible(respecting)
        if not p:
            break
        if cancel_at is not None and step == cancel_at:
            r.apply(("c",))
            cancel_at = None
            continue
        if mode == "starve":
            if victim is None and rng.random() < 0.2:
                victim = rng.choice(p)[0]
            if victim is not None and any(x[0] != victim for x in p):
                p = [x for x in p if x[0] != victim]
            elif victim is not None:
                victim = None          # only the victim is left: it is delivered now
        rid, rcode = (p[0][0], p[0][1]) if mode in ("fifo", "starve") else (lambda x: (x[0], x[1]))(rng.choice(p))
        others = [x for x in p if x[0] != rid and not (x[1].startswith("RT.") and x[1] == rcode)]
        if rcode.startswith("RT.") and others and rng.random() < nested_p:
            # a second worker handles other pending messages WHILE this task executes (RunTask's two phases)
            inner = [x[0] for x in rng.sample(others, min(len(others), rng.choice([1, 1, 2])))]
            r.apply(("n", rid, inner))
        elif mode == "dup" and rng.random() < (0.5 if (stale and rcode.startswith("SS.")) else 0.2):
            r.apply(("x", rid))
        elif prop == "C17" and rcode == "XW" and rng.random() < 0.35:
            # the worker dies while handling the cancel request: before anything is durable, or between the commit that
            # sets the flag and the commit that fans CancelStage / CompleteWorkflow out; the fresh worker sweeps, the
            # un-acked CancelWorkflow comes back after the lock lapses (at once or a few deliveries later)
            r.apply(("k", rid, rng.choice([0, 1, 1, 2])))
            r.apply(("w",))
            hold_then_expire(r, rng.choice([0, 0, 1, 2, 4]))
        else:
            r.apply(("d", rid))
        step += 1
        if fam in ("w4", "any") and rng.random() < 0.04:
            r.apply(("g", rng.randrange(len(spec.stages)), rng.random() < 0.6))
    t = r.finish()
    t.tag = f"{fam}/{mode}"
    t.respecting = respecting
    injected = any(o[0] in "cg" for o in t.ops)
    halting = any(o[0] in "TXPCD" for st in spec.stages for script in st.tasks for o in script)
    if prop == "C02" and respecting and mode != "fifo" and not injected and not halting and not is_exotic(spec):
        ref = fifo_run(spec, wd).finish()
        t.meta["fifo_ref"] = outcome_of(ref)
    return pack(t)


def fifo_run(spec: Spec, wd: Path, inject: dict[int, list[tuple]] | None = None, limit: int = 250) -> Runner:
    """budget-respecting FIFO drain with optional ops injected before delivery step j"""
    r = Runner(spec, wd)
    step = 0
    for _ in range(limit):
        if inject and step in inject:
            for op in inject[step]:
                r.apply(op)
        p = r.eligible(True)
        if not p:
            break
        r.apply(("d", p[0][0]))
        step += 1
    return r


def hold_then_expire(r: "Runner", hold: int) -> None:
    """`hold` further in-order deliveries of rows that are NOT locked by a dead worker, then the locks lapse"""
    for _ in range(hold):
        locked = r.e.locked_ids()
        p = [x for x in r.eligible(True) if x[0] not in locked]
        if not p:
            break
        r.apply(("d", p[0][0]))
    r.e.expire_locks()


_C01_CLASS_SEEN: dict[tuple[str, int], int] = {}


def _stratified_points(points: list, rng: random.Random, n: int = 6) -> list:
    by_class: dict[tuple[str, int], list] = {}
    for pt in points:
        by_class.setdefault((pt[2].split(".")[0], pt[3]), []).append(pt)
    rare = ["JS", "SK", "XS", "XW", "SG", "CW", "SW", "CS", "SS"]
    classes = sorted(by_class, key=lambda c: (_C01_CLASS_SEEN.get(c, 0), rare.index(c[0]) if c[0] in rare else len(rare), rng.random()))
    chosen = []
    for c in classes[:n // 2]:
        chosen.append(rng.choice(by_class[c]))
        _C01_CLASS_SEEN[c] = _C01_CLASS_SEEN.get(c, 0) + 1
    rest = [pt for pt in points if pt not in chosen]
    chosen += rng.sample(rest, min(len(rest), n - len(chosen)))
    return chosen


def produce_c01(rng: random.Random, wd: Path, tier: str) -> list[dict]:
    spec = gen_spec(rng, rng.choice(["w0", "w1", "w1", "w3"]))
    ref_r = fifo_run(spec, wd)
    ref = ref_r.finish()
    ref_out = outcome_of(ref)
    out = [pack(ref)]
    # commits per delivery of the reference run (model: len(txns) + mark + ack)
    points = []
    r0 = Runner(spec, wd)
    j = 0
    while True:
        p = r0.eligible(True)
        if not p or j > 200:
            break
        rid, code, _ = p[0]
        n = r0.e.count_commits(lambda: r0.e.deliver(rid))
        for k in range(n):
            points.append((j, rid, code, k))
        j += 1
    r0.finish()
    if tier == "thorough":
        chosen = points
    else:
        # stratified: the rarest (message kind, commit index) classes of this run first (a JumpToStage or CancelStage
        # delivery is one in dozens), then uniformly random points
        chosen = _stratified_points(points, rng)
    for (j, rid, code, k) in chosen:
        r = Runner(spec, wd)
        step = 0
        while step < j:
            p = r.eligible(True)
            r.apply(("d", p[0][0]))
            step += 1
        r.apply(("k", rid, k))
        # a fresh worker runs its recovery sweep at start-up, usually BEFORE the dead worker's lock lapses
        late_expiry = rng.random() < 0.6
        if not late_expiry:
            r.e.expire_locks()
        r.apply(("w",))
        if rng.random() < 0.3:
            r.apply(("w",))
        # the dead worker's lock lapses by the clock: the un-acked row comes back after `hold` further deliveries
        hold = rng.choice([0, 0, 0, 1, 2, 3, 5, 8])
        hold_then_expire(r, hold)
        crashes = 1
        crash2 = None
        if (tier == "thorough" and rng.random() < 0.5) or (tier != "thorough" and rng.random() < 0.25):
            # a second crash: the recovering worker dies too, a few deliveries later, at any commit of that delivery
            for _ in range(rng.randint(0, 6)):
                p = r.eligible(True)
                if not p:
                    break
                r.apply(("d", p[0][0]))
            p = r.eligible(True)
            if p:
                k2 = rng.choice([0, 1, 1, 2])
                r.apply(("k", p[0][0], k2))
                if r.t.ops[-1].startswith("k"):
                    crashes = 2
                    crash2 = (p[0][1], k2)
                    # every restart runs the recovery sweep (once or twice), before or after the dead worker's lock lapses
                    if rng.random() < 0.4:
                        r.e.expire_locks()
                    r.apply(("w",))
                    if rng.random() < 0.3:
                        r.apply(("w",))
                    hold_then_expire(r, rng.choice([0, 0, 1, 3]))
        r.drain(None, "fifo")
        t = r.finish()
        t.tag = ("crash" if hold == 0 else "crash-late-redelivery") + ("-twice" if crashes == 2 else "")
        t.meta = {"ref": ref_out, "crash_msg": code, "crash_k": k, "crashes": crashes, "hold": hold}
        if crashes == 2 and crash2:
            t.meta["crash2_msg"], t.meta["crash2_k"] = crash2
        out.append(pack(t))
    return out


def produce_c15(rng: random.Random, wd: Path, tier: str) -> list[dict]:
    """One jump = one commit: a workflow with a jumping task runs in order; the worker dies at every commit boundary of
    every JumpToStage delivery; after restart + recovery sweep the un-acked row comes back after 0..8 further in-order
    deliveries (the dead worker's lock lapses by the clock).  Each such run must end like the uninterrupted one, with each
    requested jump applied once (same executions per task, same `_jump_count`s in the final state line)."""
    for _ in range(12):
        spec = gen_spec(rng, "w3")
        if any(o.startswith("J") for st in spec.stages for sc in st.tasks for o in sc):
            break
    ref_r = fifo_run(spec, wd)
    ref = ref_r.finish()
    ref_out = outcome_of(ref)
    ref_out["counts"] = [s_["raw"].split(",jc")[1].split(",")[0] if ",jc" in "," + s_["raw"] else "-" for s_ in ref.final()["stages"]]
    out = [pack(ref)]
    points = []
    r0 = Runner(spec, wd)
    j = 0
    while True:
        p = r0.eligible(True)
        if not p or j > 200:
            break
        rid, code, _ = p[0]
        n = r0.e.count_commits(lambda: r0.e.deliver(rid))
        if code.startswith("JS."):
            for k in range(1, n):        # k = 0 is "not handled at all"
                points.append((j, rid, code, k))
        j += 1
    r0.finish()
    if tier != "thorough":
        points = rng.sample(points, min(len(points), 3))
    for (j, rid, code, k) in points:
        for hold in ([0, 1, 2, 3, 4, 6, 8] if tier == "thorough" else rng.sample([0, 1, 2, 3, 4, 6, 8], 3)):
            r = Runner(spec, wd)
            for _ in range(j):
                p = r.eligible(True)
                r.apply(("d", p[0][0]))
            r.apply(("k", rid, k))
            r.apply(("w",))
            hold_then_expire(r, hold)
            r.drain(None, "fifo")
            t = r.finish()
            t.tag = "jump-crash"
            t.meta = {"ref": ref_out, "crash_msg": code, "crash_k": k, "crashes": 1, "hold": hold}
            out.append(pack(t))
    return out


def mon_c15(t: Trace) -> list[tuple[str, str]]:
    """a requested jump is applied exactly once even when the worker dies while handling it (see produce_c15)"""
    if t.tag != "jump-crash":
        return []
    hits = [(f"jump-crash:{sig}", what) for sig, what in mon_c01(t)]
    ref = t.meta.get("ref") or {}
    if ref.get("healthy") and t.quiesced and not hits:
        counts = [s_["raw"].split(",jc")[1].split(",")[0] if ",jc" in "," + s_["raw"] else "-" for s_ in t.final()["stages"]]
        if ref.get("counts") is not None and counts != ref["counts"]:
            hits.append((f"jump-crash:jump-count-differs:{t.meta.get('crash_msg', '?').split('.')[0]}@{t.meta.get('crash_k')}",
                         f"crash in {t.meta.get('crash_msg')} after {t.meta.get('crash_k')} commit(s): final _jump_count per stage {counts} vs {ref['counts']} uninterrupted"))
    return hits


def mon_c15_applied(t: Trace) -> list[tuple[str, str]]:
    """every jump request handled while its source stage is RUNNING is applied or refused (the stage is re-armed, completed or
    made TERMINAL by that very delivery) - never dropped: a dropped jump leaves the loop neither continued nor ended.  Holds on
    every schedule (a JumpToStage whose processed mark is already durable is a duplicate and is rightly dropped)."""
    hits = []
    for k in range(len(t.ops)):
        m = t.op_msg[k]
        if not m or not m.startswith("JS.") or t.ops[k][0] not in "dx":
            continue
        pre = parse_line(t.lines[k])
        src = int(m.split(".")[1])
        rid_ = int(re.match(r"[dx](\d+)", t.ops[k]).group(1))
        if rid_ in pre.get("processed", []) or t.outcomes[k] != "ok":
            continue
        if pre["wf"] in COMPLETE or pre["canceled"]:
            continue
        if pre["stages"][src]["status"] == "RUNNING" and t.audit_len[k + 1] == t.audit_len[k]:
            post = parse_line(t.lines[k + 1])
            if post["stages"] == pre["stages"]:
                hits.append(("jump-request-dropped-although-source-running",
                             f"JumpToStage {m} (op {t.ops[k]}) was handled while its source stage {src} was RUNNING with tasks "
                             f"{pre['stages'][src]['tasks']} and changed nothing: the requested jump is neither applied nor refused"))
                break
    return hits


MONITORS["C15"] = [mon_c15, mon_c15_applied]
OUTCOME_MONITORS.add("mon_c15")


def produce_c10(rng: random.Random, wd: Path, tier: str) -> list[dict]:
    spec = gen_spec(rng, rng.choice(["w0", "w1", "w1", "w3", "w4"]))
    ref = fifo_run(spec, wd).finish()
    ref_out = outcome_of(ref)
    out = [pack(ref)]
    steps = len([o for o in ref.ops if o[0] == "d"])
    js = list(range(steps + 1)) if tier == "thorough" else rng.sample(range(steps + 1), min(steps + 1, 4))
    for j in js:
        nsweeps = rng.choice([1, 1, 2])
        r = fifo_run(spec, wd, inject={j: [("w",)] * nsweeps})
        t = r.finish()
        t.tag = "sweep"
        before = ref.op_msg[j] if j < len(ref.op_msg) else "end"
        t.meta = {"ref": ref_out, "kind": "healthy", "sweep_before": before or "inj"}
        out.append(pack(t))
    # a sweep by another worker INSIDE a delivery (after its k-th commit): a healthy run again, nothing may change
    for j in (list(range(steps)) if tier == "thorough" else rng.sample(range(steps), min(steps, 5))):
        for k in ((0, 1, 2) if tier == "thorough" else (rng.choice([1, 1, 2, 0]),)):
            r = Runner(spec, wd)
            step = 0
            while step < j:
                p = r.eligible(True)
                if not p:
                    break
                r.apply(("d", p[0][0]))
                step += 1
            p = r.eligible(True)
            if not p:
                r.finish()
                continue
            rid, code, _ = p[0]
            r.apply(("i", rid, k))
            r.drain(None, "fifo")
            t = r.finish()
            if not any(o[0] == "i" for o in t.ops):
                continue          # the delivery has fewer than k commits: same as the reference
            t.tag = f"sweep-inside@{k}"
            t.meta = {"ref": ref_out, "kind": "healthy", "sweep_before": f"inside-{code.split('.')[0]}@{k}.{code}"}
            out.append(pack(t))
    # after a crash: one sweep vs two sweeps in a row (before the dead worker's lock lapses) must end the same,
    # and at most the in-flight step is repeated
    if steps:
        for _ in range(2 if tier != "thorough" else 6):
            j = rng.randrange(steps)
            k = rng.randint(0, 2)
            finals = []
            for nsweeps in (1, 2):
                r = Runner(spec, wd)
                step = 0
                while step < j:
                    p = r.eligible(True)
                    if not p:
                        break
                    r.apply(("d", p[0][0]))
                    step += 1
                p = r.eligible(True)
                if not p:
                    r.finish()
                    break
                rid, code, _ = p[0]
                r.apply(("k", rid, k))
                for _i in range(nsweeps):
                    r.apply(("w",))
                r.e.expire_locks()
                r.drain(None, "fifo")
                t = r.finish()
                t.tag = f"crash-sweep{nsweeps}"
                t.meta = {"kind": f"after-crash-{nsweeps}", "crash_msg": code, "crash_k": k, "ref_healthy": ref_out}
                finals.append(t)
            if len(finals) == 2:
                finals[1].meta["ref"] = dict(outcome_of(finals[0]), healthy=True)
                finals[1].meta["kind"] = "after-crash:two-sweeps-vs-one"
                finals[1].meta["sweep_before"] = code
                for t in finals:
                    out.append(pack(t))
    return out


def is_exotic(spec: Spec) -> bool:
    """Outside the workload families the properties name: STOPPED / CANCELED / SKIPPED / REDIRECT-without-target task
    results, failPipeline=False, or several jumping tasks in one workflow."""
    jumpers = 0
    for st in spec.stages:
        if not st.failp:
            return True
        for script in st.tasks:
            if any(o in ("P", "C", "K", "D") for o in script):
                return True
            if any(o[0] == "J" for o in script):
                jumpers += 1
    return jumpers > 1


def produce_c18(rng: random.Random, wd: Path, tier: str) -> list[dict]:
    """one stage suspends k times (script U^k S); m signals (persistent / transient) are sent at random moments:
    before the stage started, while it runs, after it suspended; any delivery order, redelivery"""
    n = rng.randint(1, 4)
    tgt = rng.randrange(n)
    stages = []
    for i in range(n):
        reqs = sorted(rng.sample(range(i), min(rng.choice([0, 1, 1, 2]), i)))
        tasks = [["S"]] * rng.choice([1, 1, 2])
        stages.append(StageSpec(reqs=reqs, tasks=[list(x) for x in tasks]))
    k = rng.choice([1, 1, 2])
    ti = rng.randrange(len(stages[tgt].tasks))
    stages[tgt].tasks[ti] = ["U"] * k + ["S"]
    spec = Spec(stages)
    r = Runner(spec, wd)
    mode = rng.choice(["fifo", "rand", "dup", "crash"])
    nsig = rng.choice([0, 1, 1, 2, 3]) if mode != "crash" else rng.choice([1, 1, 2, 3])
    sig_at = sorted(rng.randint(0, 30) for _ in range(nsig))
    step = 0
    for _ in range(200):
        while sig_at and sig_at[0] <= step:
            sig_at.pop(0)
            r.apply(("g", tgt, rng.random() < 0.7))
        p = r.eligible(True)
        if not p:
            if sig_at:
                step = sig_at[0]
                continue
            break
        rid, code = (p[0][0], p[0][1]) if mode in ("fifo", "crash") else (lambda x: (x[0], x[1]))(rng.choice(p))
        if mode == "dup" and rng.random() < 0.15:
            r.apply(("x", rid))
        elif mode == "crash" and (code.startswith("SG.") or code.startswith(f"RT.{tgt}.")) and rng.random() < 0.5:
            # every crash point of the suspend / resume steps: the worker dies before or after the handler's commit,
            # a fresh worker runs its recovery sweep, the dead worker's lock lapses (before or after a few more deliveries)
            r.apply(("k", rid, rng.choice([0, 1, 1, 2])))
            r.apply(("w",))
            hold_then_expire(r, rng.choice([0, 0, 1, 2]))
        else:
            r.apply(("d", rid))
        step += 1
    t = r.finish()
    t.tag = f"signal/{mode}"
    t.meta = {"signal_stage": tgt, "signal_task": ti, "suspends": k}
    return [pack(t)]


def pack(t: Trace) -> dict:
    return {"spec": t.spec.to_json(), "ops": t.ops, "lines": t.lines, "op_msg": t.op_msg, "audit_len": t.audit_len,
            "ledger_len": t.ledger_len, "audit": t.audit, "ledger": t.ledger, "quiesced": t.quiesced, "tag": t.tag,
            "outcomes": t.outcomes, "commits": t.commits, "respecting": t.respecting, "meta": t.meta, "op_inner": t.op_inner}


def unpack(d: dict) -> Trace:
    t = Trace(Spec.from_json(d["spec"]))
    t.ops, t.lines, t.op_msg = d["ops"], d["lines"], d["op_msg"]
    t.audit_len, t.ledger_len = d["audit_len"], d["ledger_len"]
    t.audit = [tuple(x) for x in d["audit"]]
    t.ledger = [(a, b, c, tuple(tuple(kv) for kv in seen)) for a, b, c, seen in d["ledger"]]
    t.quiesced, t.tag, t.outcomes, t.commits = d["quiesced"], d["tag"], d["outcomes"], d.get("commits", [])
    t.respecting = d.get("respecting", True)
    t.meta = d.get("meta", {})
    t.op_inner = d.get("op_inner") or [[] for _ in t.ops]
    return t


def replay_trace(spec: Spec, ops: list[str], wd: Path) -> Trace:
    """Re-run a recorded op list against the real engine."""
    r = Runner(spec, wd)
    for o in ops:
        _apply_str(r, o)
    return r.finish()


def shrink(spec: Spec, ops: list[str], mons, sig: str, wd: Path, budget: int = 60) -> list[str]:
    """Greedy delta-debugging of the op list keeping the same monitor signature."""
    def fails(cand: list[str]) -> bool:
        try:
            t = replay_trace(spec, cand, wd)
        except Exception:
            return False
        return any(s == sig for m in mons for s, _ in m(t))

    cur = list(ops)
    n = 2
    tries = 0
    while len(cur) >= 2 and tries < budget:
        chunk = max(1, len(cur) // n)
        reduced = False
        for i in range(0, len(cur), chunk):
            cand = cur[:i] + cur[i + chunk:]
            tries += 1
            if cand and fails(cand):
                cur = cand
                n = max(n - 1, 2)
                reduced = True
                break
            if tries >= budget:
                break
        if not reduced:
            if chunk == 1:
                break
            n = min(len(cur), n * 2)
    return cur


def corpus(prop: str) -> list[Trace]:
    """committed regression corpus replays/<prop>/*.json (minimized witnesses of findings): run first"""
    out = []
    d = core.VERIF / "replays" / prop
    if not d.is_dir():
        return out
    wd = core.scratch_dir()
    try:
        for f in sorted(d.glob("*.json")):
            body = json.loads(f.read_text())
            rp = body.get("replay") or body
            if not rp.get("kind_engine"):
                continue
            t = replay_trace(Spec.from_json(rp["spec"]), rp["ops"], wd)
            t.tag = "corpus/" + f.stem
            t.respecting = rp.get("respecting", True)
            out.append(t)
    finally:
        shutil.rmtree(wd, ignore_errors=True)
    return out


def run_for(ctx, prop: str, monitors=None, producer: str = "random") -> None:
    """Correspondence (trace differential) + monitors for `prop` on freshly generated traces."""
    mons = monitors if monitors is not None else MONITORS.get(prop, [])
    import logging

    logging.disable(logging.CRITICAL)
    pre = corpus(prop)
    if pre:
        consume(ctx, prop, pre, mons)
    total = ctx.n(480, 4800) if prop not in ("C01", "C10") else ctx.n(64, 240)
    nproc = min(16, max(1, os.cpu_count() or 1))
    per = max(1, total // nproc)
    jobs = [(prop, f"{ctx.seed}:{i}", per, ctx.tier) for i in range(nproc)]
    traces: list[Trace] = []
    errors = []
    with ProcessPoolExecutor(max_workers=nproc) as ex:
        for res in ex.map(_one_random, jobs):
            for d in res["traces"]:
                if "error" in d:
                    errors.append(d["error"])
                else:
                    traces.append(unpack(d))
    if errors:
        raise core.Infra("engine trace production failed: " + errors[0][-1500:])
    consume(ctx, prop, traces, mons)


def consume(ctx, prop: str, traces: list[Trace], mons) -> None:
    inputs, lines, impl = [], [], []
    for t in traces:
        nontrivial = len(t.ops) >= 8 and (any(o[0] != "d" for o in t.ops) or t.ops != sorted(t.ops, key=lambda o: int(o[1:]) if o[1:].isdigit() else 0))
        ctx.count(t.key(), nontrivial=nontrivial)
        ctx.tag("sched:" + t.tag, "wf:" + t.final()["wf"], "quiesced" if t.quiesced else "cut")
        for o in t.outcomes:
            if o != "ok":
                ctx.tag("outcome:" + o)
        if any(o[0] == "i" for o in t.ops):
            ctx.tag("model-free:interposed-sweep")
            continue      # a sweep INSIDE a delivery is not an op of the model: monitors only
        inputs.append(t.to_json())
        lines.append(t.request())
        impl.append(t.expected())
    if traces:
        ctx.sample({"suite": "engine-trace", **traces[0].to_json()})
    ctx.correspond("engine-trace", inputs, lines, impl)
    wd = None
    for t in traces:
        for m in mons:
            if not t.respecting and m.__name__ in OUTCOME_MONITORS:
                continue
            if m.__name__.startswith("mon_c02") and (t.tag.startswith("interf") or any(
                    c.startswith("JS.") for inner in t.op_inner for c in inner)):
                continue   # a jump re-arming a stage WHILE its task executes: iteration boundaries are ambiguous (F4 family, see C05/C06)
            for sig, what in m(t):
                full_sig = f"{prop}:{'exotic:' if is_exotic(t.spec) else ''}{sig}"
                if any(h["signature"] == full_sig for h in ctx.monitor_hits):
                    ctx.violation(what, full_sig, None)
                    continue
                if wd is None:
                    wd = core.scratch_dir()
                core.ensure_repo_on_path()
                small = shrink(t.spec, t.ops, [m], sig, wd)
                ctx.violation(what, full_sig, {"kind_engine": True, "spec": t.spec.to_json(), "spec_line": t.spec.line(),
                                               "ops": small, "original_ops": t.ops, "monitor": m.__name__, "signature": sig,
                                               "respecting": t.respecting, "meta": t.meta})
    if wd is not None:
        shutil.rmtree(wd, ignore_errors=True)


def _apply_str(r: "Runner", o: str) -> None:
    if o in ("c", "w"):
        r.apply((o,))
    elif o[0] in ("d", "x"):
        r.apply((o[0], int(o[1:])))
    elif o[0] in ("k", "i"):
        a, b = o[1:].split(".")
        r.apply((o[0], int(a), int(b)))
    elif o[0] == "g":
        a, b = o[1:].split(".")
        r.apply(("g", int(a), b == "1"))
    elif o[0] == "n":
        xs = [int(x) for x in o[1:].split(".")]
        r.apply(("n", xs[0], xs[1:]))


def search_from_divergence(ctx, prop: str, mons) -> None:
    """The trace differential broke: model and engine disagree after some op of a recorded trace.  Starting from the real
    engine's state right after that op, continue on the REAL engine only: every row that is locked at that point (a dead
    worker's un-acked delivery) comes back after 0..12 further in-order deliveries, the rest is drained in order; plus a few
    random-order continuations.  Any monitor hit is a concrete failing input for the report."""
    fails = [f for f in ctx.corr_failures if f.get("suite") == "engine-trace"][:6]
    if not fails:
        return
    core.ensure_repo_on_path()
    wd = core.scratch_dir()
    tried = 0
    try:
        for f in fails:
            inp = f["input"]
            spec = Spec.from_json(inp["spec"])
            a, b = f["impl"].split("|"), f["model"].split("|")
            div = next((i for i, (x, y) in enumerate(zip(a, b)) if x != y), min(len(a), len(b)))
            prefix = inp["ops"][:max(div, 1)]       # lines[0] is the start state; lines[k] follows ops[k-1]
            conts: list[tuple[str, int]] = [("hold", h) for h in range(0, 13)] + [("random", i) for i in range(6)]
            for mode, arg in conts:
                r = Runner(spec, wd)
                try:
                    for o in prefix:
                        _apply_str(r, o)
                    if mode == "hold":
                        hold_then_expire(r, arg)
                        r.drain(None, "fifo")
                    else:
                        r.e.expire_locks()
                        r.drain(random.Random(f"{ctx.seed}:{arg}:{tried}"), "random")
                finally:
                    t = r.finish()
                tried += 1
                t.meta = dict(inp.get("meta") or {})
                t.tag = "search-" + mode
                for m in mons:
                    if not t.respecting and m.__name__ in OUTCOME_MONITORS:
                        continue
                    for sig, what in m(t):
                        full_sig = f"{prop}:{'exotic:' if is_exotic(t.spec) else ''}{sig}"
                        ctx.violation(what, full_sig, {"kind_engine": True, "spec": t.spec.to_json(), "spec_line": t.spec.line(),
                                                       "ops": t.ops, "monitor": m.__name__, "signature": sig, "meta": t.meta,
                                                       "found_by": "search from the point where model and engine diverge"})
    finally:
        shutil.rmtree(wd, ignore_errors=True)
        ctx.notes.append(f"directed search from {len(fails)} divergence point(s): {tried} continuations on the real engine")


def search_for(ctx, prop: str) -> None:
    """A proof obligation or the correspondence broke: hunt for a concrete failing input with a larger budget."""
    try:
        search_from_divergence(ctx, prop, MONITORS.get(prop, []))
    except core.Infra:
        raise
    except Exception as e:  # the directed search is best effort
        ctx.notes.append(f"directed search failed: {type(e).__name__}: {e}")
    saved = ctx.budget_scale
    ctx.budget_scale = saved * (6 if not ctx.thorough else 2)
    try:
        run_for(ctx, prop)
    finally:
        ctx.budget_scale = saved


def replay(ctx, body: dict) -> int:
    rp = body.get("replay") or body
    spec = Spec.from_json(rp["spec"])
    wd = core.scratch_dir()
    try:
        import logging

        logging.disable(logging.CRITICAL)
        t = replay_trace(spec, rp["ops"], wd)
        t.meta = dict(rp.get("meta") or {})
        mons = [m for ms in MONITORS.values() for m in ms if m.__name__ == rp.get("monitor")] or [m for ms in MONITORS.values() for m in ms]
        rc = 0
        for k, o in enumerate(t.ops):
            print(f"  op {k + 1}: {o} [{t.op_msg[k]}] -> {t.lines[k + 1][:200]}")
        for m in mons:
            for sig, what in m(t):
                print(f"FAILS {m.__name__}: {sig}: {what}")
                rc = 1
        if rc == 0:
            print("replay: property held on this input")
        return rc
    finally:
        shutil.rmtree(wd, ignore_errors=True)


def _cli() -> None:
    """python -m harness.engine_suites show '<spec_line as json|line>' 'd1,d2,...'   (debug aid)"""
    import sys

    core.ensure_repo_on_path()
    import logging

    logging.disable(logging.CRITICAL)
    spec = spec_from_line(sys.argv[2])
    ops = sys.argv[3].split(",")
    wd = core.scratch_dir()
    try:
        t = replay_trace(spec, ops, wd)
        print("start:", short(t.lines[0]))
        for k, o in enumerate(t.ops):
            print(f"{o:>7} {str(t.op_msg[k]):<22} {short(t.lines[k + 1])}")
        for ms in MONITORS.values():
            for m in ms:
                for sig, what in m(t):
                    print("MON", m.__name__, sig, "|", what)
    finally:
        shutil.rmtree(wd, ignore_errors=True)


def short(line: str) -> str:
    d = parse_line(line)
    st = " ".join(f"{s['status'][:4]}[{'.'.join(x[:4] for x in s['tasks'])}]" for s in d["stages"])
    return f"W={d['wf'][:4]}{'!' if d['canceled'] else ''} {st} Q={','.join(d['queue'])}"


def spec_from_line(line: str) -> Spec:
    parts = line.split("#")
    wf = None if parts[0] == "-" else int(parts[0])
    stages = []
    for p in parts[1:]:
        f = p.split("/")
        reqs, join, th, cont, failp, en, maxj, tasks = f[:8]
        split = None
        if len(f) > 8 and f[8] != "-":
            split = {int(kv.split(":")[0]): kv.split(":")[1] == "1" for kv in f[8].split(".")}
        stages.append(StageSpec(split=split, reqs=[] if reqs == "-" else [int(x) for x in reqs.split(",")], join=join, threshold=int(th),
                                cont=cont == "1", failp=failp == "1", enabled=None if en == "-" else en == "1",
                                maxj=None if maxj == "-" else int(maxj),
                                tasks=[] if tasks == "-" else [t.split(".") for t in tasks.split("+")]))
    return Spec(stages, wf)


if __name__ == "__main__":
    _cli()
