"""C08 — the THREADED processor path: real `QueueProcessor.start()` / `stop()` (poll thread + ThreadPoolExecutor +
lock heartbeat threads) over a real `SqliteQueue` with a SHORT real-time lock on a scratch SQLite file, and a scripted
handler registered with `register_handler_func`.

Nothing here calls `_handle_message` / `process_one` / `poll_one` / `ack` itself while the processor runs: the harness pushes the
messages, starts the processor, decides when a blocked handler run may continue, waits until every message is
settled (acknowledged or dead-lettered) and stops the processor.

Observation (one totally ordered trace per scenario, guarded by one lock):
  * every handler invocation: start / returned / raised, with the delivery (claim) it belongs to;
  * every INSERT / UPDATE / DELETE on `queue_messages` and `queue_messages_dlq`: triggers call the SQL function
    `v_note(...)`, registered on EVERY connection the engine opens (dbshim `CTL.on_connect`), which runs on the writing
    thread while it holds SQLite's write lock — so the notes are in the database's serial order — and stamps the note
    with the queue method that thread is inside (`ack`, `reschedule`, `poll_one`, `move_to_dlq`, `extend_lock`; thin
    labelling wrappers on the queue instance, the calls themselves are the processor's).

Oracles (all safety statements, evaluated on the trace: independent of how the timing fell):
  proc:acked-without-returned-run   a row is deleted by `ack` although no handler run for that message has returned
  proc:lost / proc:duplicated / proc:acked-and-parked    final places, by message
  proc:undeliverable                a row left in the queue below the attempt limit is not returned by poll_one once its
                                    lock and delay have lapsed
  proc:unexpected-delete            a queue row deleted by anything but ack / move_to_dlq
Whether the interesting timing happened (a row re-claimed while a run of it is still executing, a failed run
rescheduled, the attempt limit reached) is recorded as tags; a scenario whose timing did not materialise is tagged
`not-materialised:<what>` and is NOT an alarm.

Model tie: the Lean `Stab.Queue` model has no threads; but the committed history of a scenario — the notes in serial
order — IS a sequence of its operations (push / [expire;] sel … claim / ack / reschedule / dlq), so that sequence is fed to
the driver (pair form, history as one group, the final expire+mature normalisation as the other) and the model's SELECT /
claim results and final state are compared with the real ones.  The mapping uses recorded facts only and says itself
when they do not determine the model's pick (`Scn._model`): such a scenario is left out of the tie, never alarms.  What the
model cannot see is exactly what the monitors are for: whether a handler run had returned when the ack was issued.
"""
from __future__ import annotations

import json
import os
import shutil
import sqlite3
import threading
import time
import uuid
from datetime import timedelta
from pathlib import Path

PAST = "2000-01-01T00:00:00+00:00"
LOCK_S = 0.4

_REG: dict[str, "Scn"] = {}          # db path -> scenario (for the connect hook)
_TL = threading.local()


def _hook(conn: sqlite3.Connection, args: tuple) -> None:
    sc = _REG.get(str(args[0])) if args else None
    if sc is not None:
        conn.create_function("v_note", 9, sc.note_sql)


def _label() -> tuple[str, int]:
    st = getattr(_TL, "stack", None)
    return st[-1] if st else ("none", -1)


class Scn:
    """one scenario: sc = {hb: on|off|slow, workers, scripts: [[act, ...] per message], max_attempts, retry, sweep}
    act: ret | raise | hold-ret | hold-raise   (the k-th entry is the k-th handler invocation for that message; past the
    end: ret).  hold-* blocks until the harness releases it: when the row was claimed again (plus a short settle time),
    or after `hold_max` seconds (the lock has certainly lapsed by then)."""

    def __init__(self, sc: dict, base: Path):
        self.sc = sc
        self.path = str(base / f"p-{uuid.uuid4().hex[:10]}.db")
        self.cs = f"sqlite:///{self.path}"
        self.lock_s = float(sc.get("lock", LOCK_S))
        self.m = int(sc.get("max_attempts", 3))
        self.retry = float(sc.get("retry", 0.0))
        self.scripts = [list(x) for x in sc["scripts"]]
        self.L = threading.Lock()
        self.trace: list[dict] = []
        self.runs: list[dict] = []
        self.inv: dict[int, int] = {}
        self.claims: list[dict] = []            # deliveries in serial order: {w, rid, tag, att}
        self.holds: dict[int, threading.Event] = {}
        self.hits: list[tuple[str, str]] = []
        self.tags: list[str] = []
        self.t0 = time.monotonic()
        hb = sc.get("hb", "on")
        self.hb_interval = None if hb != "slow" else 3.0 * self.lock_s
        # lock lapses between lock_s and lock_s + 1 s after the claim (the queue compares at whole seconds)
        self.hold_max = {"on": self.lock_s + 1.4, "off": self.lock_s + 1.7, "slow": 4.0 * self.lock_s + 1.8}[hb]

    # ---- the trace -------------------------------------------------------------------------------------
    def now(self) -> float:
        return round(time.monotonic() - self.t0, 3)

    def _add(self, ev: dict) -> None:          # caller holds self.L
        ev["t"] = self.now()
        self.trace.append(ev)

    def note_sql(self, tbl, op, rid, payload, attempts, version, lock_null, old_attempts, deliver_at):
        """called by the triggers, on the writing thread, inside the statement"""
        lab, w = _label()
        tag = _tag_of(payload)
        with self.L:
            ev = {"k": f"{tbl}-{op}", "rid": rid, "tag": tag, "att": attempts, "ver": version, "by": lab, "w": w, "at": deliver_at}
            if tbl == "q" and op == "upd":
                if old_attempts is not None and attempts is not None and attempts > old_attempts:
                    ev["k"] = "claim"
                    ev["w"] = len(self.claims)
                    self.claims.append({"w": ev["w"], "rid": rid, "tag": tag, "att": attempts})
                    _TL.last_claim = ev["w"]
                elif lab == "reschedule":
                    ev["k"] = "resched"
                elif lab == "extend_lock":
                    ev["k"] = "extend"
            if tbl == "q" and op == "del":
                ev["runs"] = [r["state"] for r in self.runs if r["tag"] == tag]
            self._add(ev)
        return 0

    # ---- the scripted handler ------------------------------------------------------------------------------
    def handler(self, message) -> None:
        tag = _tag_of(message.execution_id)
        w = getattr(message, "_verif_w", -1)
        with self.L:
            n = self.inv.get(tag, 0)
            self.inv[tag] = n + 1
            script = self.scripts[tag] if 0 <= tag < len(self.scripts) else []
            act = script[n] if n < len(script) else "ret"
            run = {"i": len(self.runs), "tag": tag, "n": n, "w": w, "act": act, "state": "running", "start": self.now(),
                   "rid": int(message.message_id), "att": message.attempts}
            self.runs.append(run)
            self._add({"k": "h-start", "tag": tag, "n": n, "w": w, "act": act})
            ev = None
            if act.startswith("hold"):
                ev = self.holds[run["i"]] = threading.Event()
        if ev is not None:
            ev.wait(timeout=self.hold_max + 6.0)
        fail = act.endswith("raise")
        with self.L:
            run["state"] = "raised" if fail else "returned"
            run["end"] = self.now()
            self._add({"k": "h-raised" if fail else "h-returned", "tag": tag, "n": n, "w": w})
        if fail:
            raise RuntimeError(f"scripted failure of t{tag} run {n}")

    # ---- set-up ------------------------------------------------------------------------------------------------
    def build(self) -> None:
        from stabilize.queue.messages import StartWorkflow
        from stabilize.queue.processor.config import QueueProcessorConfig
        from stabilize.queue.processor.processor import QueueProcessor
        from stabilize.queue.sqlite.queue import SqliteQueue

        _REG[self.path] = self
        q = SqliteQueue(self.cs, lock_duration=timedelta(seconds=self.lock_s), max_attempts=self.m)
        q._create_table()
        self.queue = q
        self.admin = sqlite3.connect(self.path, timeout=30, isolation_level=None, check_same_thread=False)
        self.admin.create_function("v_note", 9, self.note_sql)
        self.admin.executescript("""
            CREATE TRIGGER v_n_qi AFTER INSERT ON queue_messages BEGIN
              SELECT v_note('q','ins',NEW.id,NEW.payload,NEW.attempts,NEW.version,NEW.locked_until IS NULL,NULL,NEW.deliver_at); END;
            CREATE TRIGGER v_n_qu AFTER UPDATE ON queue_messages BEGIN
              SELECT v_note('q','upd',NEW.id,NEW.payload,NEW.attempts,NEW.version,NEW.locked_until IS NULL,OLD.attempts,NEW.deliver_at); END;
            CREATE TRIGGER v_n_qd AFTER DELETE ON queue_messages BEGIN
              SELECT v_note('q','del',OLD.id,OLD.payload,OLD.attempts,OLD.version,OLD.locked_until IS NULL,NULL,OLD.deliver_at); END;
            CREATE TRIGGER v_n_di AFTER INSERT ON queue_messages_dlq BEGIN
              SELECT v_note('d','ins',NEW.id,NEW.payload,NEW.attempts,NEW.original_id,NULL,NULL,NULL); END;
            CREATE TRIGGER v_n_dd AFTER DELETE ON queue_messages_dlq BEGIN
              SELECT v_note('d','del',OLD.id,OLD.payload,OLD.attempts,OLD.original_id,NULL,NULL,NULL); END;
        """)
        # labelling wrappers: which queue method is the writing thread inside, and for which delivery
        for name in ("ack", "reschedule", "extend_lock", "move_to_dlq", "check_and_move_expired", "poll_one"):
            setattr(q, name, self._wrap(name, getattr(q, name)))
        cfg = QueueProcessorConfig(
            poll_frequency_ms=10,
            max_workers=int(self.sc["workers"]),
            retry_delay=timedelta(seconds=self.retry),
            enable_deduplication=False,
            enable_lock_heartbeat=self.sc.get("hb", "on") != "off",
            lock_heartbeat_interval_seconds=self.hb_interval,
            dlq_check_interval_seconds=float(self.sc.get("sweep", 0.1)),
        )
        self.proc = QueueProcessor(q, config=cfg)
        self.proc.register_handler_func(StartWorkflow, self.handler)
        for i in range(len(self.scripts)):
            q.push(StartWorkflow(execution_id=f"t{i}"))

    def _wrap(self, name: str, fn):
        def f(*a, **k):
            w = getattr(a[0], "_verif_w", -1) if a and name in ("ack", "reschedule", "extend_lock") else -1
            st = getattr(_TL, "stack", None)
            if st is None:
                st = _TL.stack = []
            st.append((name, w))
            try:
                r = fn(*a, **k)
            finally:
                st.pop()
            if name == "poll_one" and r is not None:
                r._verif_w = getattr(_TL, "last_claim", -1)
            return r

        return f

    # ---- run ---------------------------------------------------------------------------------------------------
    def settled(self) -> bool:
        with self.L:
            gone = {e["tag"] for e in self.trace if e["k"] == "q-del"}
            busy = any(r["state"] == "running" for r in self.runs)
        if busy:
            return False
        if len(gone) >= len(self.scripts):
            return True
        if float(self.sc.get("sweep", 0.1)) > 0:
            return False
        # no periodic sweep: rows at the attempt limit stay where they are
        left = self.admin.execute("SELECT COUNT(*) FROM queue_messages WHERE attempts < ?", (self.m,)).fetchone()[0]
        return left == 0

    def control_holds(self) -> None:
        """release a blocked run once its row was claimed again (+ settle), or after hold_max"""
        now = self.now()
        with self.L:
            for i, ev in self.holds.items():
                if ev.is_set():
                    continue
                run = self.runs[i]
                later = [e for e in self.trace if e["k"] == "claim" and e["tag"] == run["tag"] and e["w"] != run["w"] and e["t"] >= run["start"]]
                if later and now - later[0]["t"] >= 0.3:
                    run["redelivered_while_running"] = True
                    ev.set()
                elif now - run["start"] >= self.hold_max:
                    ev.set()

    def run(self, deadline_s: float = 9.0) -> None:
        self.build()
        self.proc.start()
        t_end = time.monotonic() + deadline_s + self.hold_max
        try:
            i = 0
            while time.monotonic() < t_end:
                self.control_holds()
                i += 1
                if i % 5 == 0 and self.settled():
                    break
                time.sleep(0.01)
            else:
                self.tags.append("not-settled-before-deadline")
        finally:
            for ev in list(self.holds.values()):
                ev.set()
            time.sleep(0.05)
            self.proc.stop(wait=True)
        self.finish()

    # ---- final observation, oracles, model line ---------------------------------------------------------------
    def _rows(self) -> list[tuple]:
        return self.admin.execute(
            "SELECT id, payload, attempts, max_attempts, version, locked_until IS NULL, "
            "datetime(locked_until) < datetime('now','utc'), datetime(deliver_at) <= datetime('now','utc') "
            "FROM queue_messages ORDER BY id").fetchall()

    def state_line(self) -> str:
        rs = self._rows()
        ds = self.admin.execute("SELECT id, original_id, payload, attempts FROM queue_messages_dlq ORDER BY id").fetchall()
        order = [str(r[0]) for r in self.admin.execute(
            "SELECT id FROM queue_messages WHERE datetime(deliver_at) <= datetime('now','utc') ORDER BY deliver_at, id").fetchall()]
        f = lambda xs: ",".join(xs) if xs else "-"  # noqa: E731
        return "#".join([
            f([f"{i}.{_tag_of(pl)}.0.{att}.{mx}.{ver}.{'f' if ln else ('x' if lp else 'h')}.{int(bool(dv))}" for i, pl, att, mx, ver, ln, lp, dv in rs]),
            f([f"{d}.{o}.{_tag_of(pl)}.0.{a}" for d, o, pl, a in ds]),
            f(order),
            f([str(t) for t in self.acked]),
        ])

    def finish(self) -> None:
        with self.L:
            trace = list(self.trace)
            runs = [dict(r) for r in self.runs]
        n = len(self.scripts)
        hit = lambda what, sig: self.hits.append((what, sig))  # noqa: E731
        self.acked: list[int] = []
        # ---- at every delete: who deleted, and had a run of that message returned?
        for e in trace:
            if e["k"] != "q-del" or e["by"] == "harness":
                continue
            t = e["tag"]
            if e["by"] == "ack":
                self.acked.append(t)
                if "returned" not in e["runs"]:
                    running = e["runs"].count("running")
                    hit(f"message t{t} (row {e['rid']}) was ACKNOWLEDGED (deleted by ack() of delivery #{e['w']} at t={e['t']}s) although no handler "
                        f"run for it had returned: its runs at that moment were {e['runs'] or 'none'}"
                        + (f" — {running} still executing" if running else ""), "proc:acked-without-returned-run")
            elif e["by"] != "move_to_dlq":
                hit(f"row {e['rid']} (t{t}) deleted inside `{e['by']}`", "proc:unexpected-delete")
        # ---- final places
        rows = self._rows()
        inq = [_tag_of(r[1]) for r in rows]
        ind = [_tag_of(pl) for (pl,) in self.admin.execute("SELECT payload FROM queue_messages_dlq").fetchall()]
        for t in range(n):
            q_, d_, a_ = inq.count(t), ind.count(t), self.acked.count(t)
            outcome = [r["state"] for r in runs if r["tag"] == t]
            where = f"{q_} queue row(s), {d_} DLQ entr(y/ies), acknowledged {a_}x; handler runs: {outcome or 'none'}"
            if q_ + d_ + a_ == 0:
                hit(f"message t{t} is in none of queue / DLQ / acknowledged: {where}", "proc:lost")
            elif a_ and d_:
                hit(f"message t{t} was acknowledged AND is in the DLQ: {where}", "proc:acked-and-parked")
            elif q_ + d_ + a_ > 1:
                hit(f"message t{t} is in {q_ + d_ + a_} places: {where}", "proc:duplicated")
            elif not a_ and not d_ and "not-settled-before-deadline" not in self.tags:
                self.tags.append("left-in-queue")
            if a_ and not d_ and not q_ and "returned" not in outcome:
                hit(f"message t{t} is gone (acknowledged, not in the queue, not in the DLQ) and NO handler run for it ever returned: {where}",
                    "proc:gone-and-never-handled")
        # ---- coverage tags (what the timing produced)
        if any(r.get("redelivered_while_running") for r in runs):
            self.tags.append("redelivered-while-running")
        if any(e["k"] == "resched" for e in trace):
            self.tags.append("failed-run-rescheduled")
        if ind:
            self.tags.append("dead-lettered")
        if any(e["k"] == "extend" for e in trace):
            self.tags.append("heartbeat-extended-lock")
        for e in trace:
            if e["k"] == "q-del" and e["by"] == "ack" and "running" in e["runs"] and "returned" in e["runs"]:
                self.tags.append("acked-by-one-run-while-another-still-executes")
                break
        for w in self.expected():
            if w not in self.tags:
                self.tags.append(f"not-materialised:{w}")
        # ---- model line: the committed history as model ops
        self.model_line, self.impl_line = self._model(trace)
        # ---- what is left in the queue below the limit must be deliverable once lock and delay have lapsed
        self.admin.execute("UPDATE queue_messages SET locked_until = ? WHERE locked_until IS NOT NULL", (PAST,))
        self.admin.execute("UPDATE queue_messages SET deliver_at = ?", (PAST,))
        want = {r[0] for r in rows if r[2] < self.m}
        got = set()
        _TL.stack = [("harness", -1)]
        try:
            for _ in range(len(rows) + 1):
                msg = self.queue.poll_one()
                if msg is not None:
                    got.add(int(msg.message_id))
        finally:
            _TL.stack = []
        if want - got:
            hit(f"rows {sorted(want - got)} are below the attempt limit, unlocked and due, but poll_one does not return them", "proc:undeliverable")

    def expected(self) -> list[str]:
        """the timing this scenario is meant to produce (coverage only)"""
        out = []
        sc = self.sc
        first = [s[0] if s else "ret" for s in self.scripts]
        if any(a.startswith("hold") for a in first) and sc.get("hb") in ("off", "slow") and int(sc["workers"]) >= 2:
            out.append("redelivered-while-running")
        if any("raise" in s for s in self.scripts) and not (sc.get("hb") in ("off", "slow") and int(sc["workers"]) >= 2 and any(a.startswith("hold") for a in first)):
            out.append("failed-run-rescheduled")
        if any(len(s) >= self.m and all(a.endswith("raise") for a in s[: self.m]) for s in self.scripts) and float(sc.get("sweep", 0.1)) > 0:
            out.append("dead-lettered")
        return out

    def _model(self, trace: list[dict]) -> tuple[str, str]:
        """`queue <m> <pushes> <history> <normalisation> ab`  vs  `<outs of the history>,<outs of the normalisation>#<state>`"""
        n = len(self.scripts)
        # What is RECORDED: the writes in SQLite's serial order (trigger notes: row, attempts, version, deliver_at) and which
        # row each claim UPDATE took.  What is NOT recorded: when poll_one's SELECT read its snapshot — some time after the
        # previous claim of the (single) poll thread and before its own claim UPDATE; writes of the worker threads that
        # commit in that window may or may not have been seen.  The model has the poll split (`sel:w` / `claim:w`), so the
        # history is written with the SELECT at the EARLIEST point consistent with the records: right after the later of
        # (the previous claim, the write that made the picked row eligible).  Rows freed after that point were either not
        # seen or lost the ORDER BY against the picked row — in both cases the pick is the same.  Whether this history
        # explains the pick, and whether the model (which orders by op position, not by the deliver_at value that
        # reschedule() computed BEFORE its UPDATE) will make the same pick, is decided below from the recorded values
        # alone; if not, the scenario is left out of the tie (tagged; its monitors stay).
        ev = [dict(e) for e in trace if e["k"] in ("claim", "resched", "q-del", "q-ins") and e.get("by") != "harness"]
        ev = [e for e in ev if not (e["k"] == "q-del" and e["by"] not in ("ack", "move_to_dlq"))]
        sel_before: dict[int, list[dict]] = {}       # index in ev -> claims whose SELECT is placed before ev[index]
        last_claim = -1
        last_free: dict[int, int] = {}
        for i, e in enumerate(ev):
            if e["k"] in ("q-ins", "resched"):
                last_free[e["rid"]] = i
            elif e["k"] == "claim":
                q = max(last_claim, last_free.get(e["rid"], -1)) + 1
                sel_before.setdefault(q, []).append(e)
                last_claim = i
        rows: dict[int, dict] = {}
        counter = 0
        ops, outs = [], []
        why: list[str] = []
        d = 1 if self.retry > 0 else 0
        for i, e in enumerate(ev):
            for c in sel_before.get(i, []):
                r = rows.get(c["rid"])
                if r is None:
                    why.append("claim-of-an-unknown-row")
                    continue
                if r["held"]:
                    ops.append(f"expire:{c['rid']}")
                    outs.append("ok")
                    r["held"] = False
                if not r["deliv"]:
                    ops.append(f"mature:{c['rid']}")
                    outs.append("ok")
                    r["deliv"] = True
                elig = [x for x in rows.values() if not x["held"] and x["deliv"] and x["att"] < self.m]
                if r not in elig or min(elig, key=lambda x: (x["at"], x["id"])) is not r:
                    why.append("pick-not-explained-by-the-recorded-history")
                elif min(elig, key=lambda x: (x["stamp"], x["id"])) is not r:
                    why.append("deliver_at-order-differs-from-commit-order")
                ops.append(f"sel:{c['w']}")
                outs.append(f"sel:{c['rid']}:{c['ver'] - 1}")
            k, rid = e["k"], e["rid"]
            if k == "q-ins":
                rows[rid] = {"id": rid, "held": False, "deliv": True, "att": 0, "at": e["at"], "stamp": counter}
                counter += 1          # (the pushes themselves are the setup group of the request)
            elif k == "claim":
                ops.append(f"claim:{e['w']}")
                outs.append(f"got:{rid}:{e['tag']}:{e['att']}")
                if rid in rows:
                    rows[rid]["held"] = True
                    rows[rid]["att"] = e["att"]
            elif k == "resched":
                ops.append(f"resched:{e['w']}:{rid}:{d}")
                outs.append("ok")
                if rid in rows:
                    rows[rid].update(held=False, deliv=not d, at=e["at"], stamp=counter)
                counter += 1
            elif e["by"] == "ack":
                ops.append(f"ack:{e['w']}:{rid}")
                outs.append("ok")
                rows.pop(rid, None)
            else:
                ops.append(f"dlq:{rid}")
                outs.append("ok")
                rows.pop(rid, None)
        self._sim_rows = rows
        self.tie_dropped = sorted(set(why))
        # normalisation: every remaining lock lapses, every delay passes (both sides)
        self.admin.execute("UPDATE queue_messages SET locked_until = ? WHERE locked_until IS NOT NULL "
                           "AND NOT (datetime(locked_until) < datetime('now','utc'))", (PAST,))
        left = [r[0] for r in self._rows()]
        for rid in left:
            r = self.admin.execute("SELECT deliver_at, datetime(deliver_at) <= datetime('now','utc') FROM queue_messages WHERE id = ?", (rid,)).fetchone()
            if r and not r[1]:
                from datetime import datetime

                # minus exactly the retry delay: keeps the ORDER BY deliver_at position the reschedule gave the row
                self.admin.execute("UPDATE queue_messages SET deliver_at = ? WHERE id = ?",
                                   ((datetime.fromisoformat(r[0]) - timedelta(seconds=max(self.retry, 1.0) if self.retry == 0 else self.retry)).isoformat(), rid))
        norm = [x for rid in left for x in (f"expire:{rid}", f"mature:{rid}")] or ["sweep"]
        norm_out = ["ok"] * (2 * len(left)) if left else ["n"]
        if not left:
            self.admin.execute("SELECT 1")
        # the delivery order of what is left, by the final deliver_at values vs by the model's op-order stamps
        by_at = [rid for (rid,) in self.admin.execute("SELECT id FROM queue_messages ORDER BY deliver_at, id").fetchall()]
        by_stamp = sorted(self._sim_rows, key=lambda rid: (self._sim_rows[rid]["stamp"], rid))
        if by_at != by_stamp:
            self.tie_dropped = sorted(set(self.tie_dropped + ["deliver_at-order-differs-from-commit-order"]))
        pushes = ";".join(["push:0"] * n)
        line = f"queue {self.m} {pushes} {';'.join(ops) or 'sweep'} {';'.join(norm)} ab"
        impl = f"{'+'.join(outs) or 'n'},{'+'.join(norm_out)}#{self.state_line()}"
        return line, impl

    def close(self) -> None:
        _REG.pop(self.path, None)
        try:
            self.admin.close()
        except Exception:  # noqa: BLE001
            pass
        for suf in ("", "-wal", "-shm", "-journal"):
            try:
                Path(self.path + suf).unlink()
            except FileNotFoundError:
                pass

    def result(self) -> dict:
        for wname in self.tie_dropped:
            self.tags.append("left-out-of-the-model-tie:" + wname)
        return {"sc": self.sc, "hits": self.hits, "tags": self.tags, "line": self.model_line, "impl": self.impl_line, "tie": not self.tie_dropped,
                "runs": [{k: r.get(k) for k in ("tag", "n", "w", "act", "state", "start", "end")} for r in self.runs],
                "claims": len(self.claims), "trace_len": len(self.trace)}


def _tag_of(payload) -> int:
    import re

    m = re.search(r"t(\d+)", payload or "")
    return int(m.group(1)) if m else -1


# --------------------------------------------------------------------------------------------------
# running scenarios (child process: several scenarios at a time, each mostly waits)
# --------------------------------------------------------------------------------------------------

def _prepare() -> None:
    import logging

    from harness import core
    from harness.dbshim import CTL, install

    core.ensure_repo_on_path()
    install()
    if _hook not in CTL.on_connect:
        CTL.on_connect.append(_hook)
    logging.getLogger("stabilize").setLevel(logging.CRITICAL + 1)


def run_scn(sc: dict, base: Path, keep_trace: bool = False) -> dict:
    s = Scn(sc, base)
    try:
        s.run()
        r = s.result()
        if keep_trace:
            r["trace"] = s.trace
        return r
    finally:
        s.close()


def unit(batch: list[dict]) -> list[dict]:
    """one pool task: a batch of scenarios, run concurrently in threads of this process"""
    from concurrent.futures import ThreadPoolExecutor

    from harness import core

    _prepare()
    base = core.scratch_dir()
    try:
        with ThreadPoolExecutor(max_workers=max(1, len(batch))) as ex:
            return list(ex.map(lambda sc: _safe(sc, base), batch))
    finally:
        shutil.rmtree(base, ignore_errors=True)


def _safe(sc: dict, base: Path) -> dict:
    import traceback

    try:
        return run_scn(sc, base)
    except Exception:  # noqa: BLE001
        return {"sc": sc, "error": traceback.format_exc()}


# --------------------------------------------------------------------------------------------------
# the grid
# --------------------------------------------------------------------------------------------------

FAMILIES = ("all-return", "outlives-lock-then-raises", "outlives-lock-then-returns", "raises-quickly", "always-raises")


def _others(i: int) -> list[str]:
    return [["ret"], ["raise", "ret"]][i % 2]


def grid() -> list[dict]:
    out = []
    for fam in FAMILIES:
        for hb in ("on", "off", "slow"):
            for workers in (1, 2, 3):
                for n in (1, 2, 3):
                    m = 3
                    if fam == "all-return":
                        first = ["ret"]
                    elif fam == "outlives-lock-then-raises":
                        first = ["hold-raise", "ret"]
                    elif fam == "outlives-lock-then-returns":
                        first = ["hold-ret"]
                    elif fam == "raises-quickly":
                        first = ["raise", "ret"]
                    else:
                        first, m = ["raise", "raise"], 2
                    scripts = [first] + [(["ret"] if fam in ("all-return", "always-raises") else _others(i)) for i in range(1, n)]
                    out.append({"family": fam, "hb": hb, "workers": workers, "scripts": scripts, "max_attempts": m,
                                "retry": 0.05 if fam == "raises-quickly" and hb == "on" else 0.0, "sweep": 0.1})
    return out


def random_scn(rng) -> dict:
    n = rng.choice([1, 2, 2, 3])
    m = rng.choice([2, 3])
    acts = ["ret", "ret", "raise", "raise", "hold-ret", "hold-raise"]
    scripts = []
    for _ in range(n):
        k = rng.randint(1, m)
        s = [rng.choice(acts) for _ in range(k)]
        if sum(a.startswith("hold") for a in s) > 1:      # at most one long run per message keeps a scenario under ~6 s
            seen = False
            for j, a in enumerate(s):
                if a.startswith("hold"):
                    if seen:
                        s[j] = a[5:]
                    seen = True
        scripts.append(s)
    return {"family": "random", "hb": rng.choice(["on", "off", "off", "slow"]), "workers": rng.choice([1, 2, 2, 3]), "scripts": scripts,
            "max_attempts": m, "retry": rng.choice([0.0, 0.0, 0.05]), "sweep": rng.choice([0.1, 0.1, 0.0])}


# --------------------------------------------------------------------------------------------------
# parent side
# --------------------------------------------------------------------------------------------------

def replay_scns(prop: str = "C08") -> list[dict]:
    from harness import core

    d = core.VERIF / "replays" / prop
    out = []
    for f in sorted(d.glob("*.json")) if d.is_dir() else []:
        body = json.loads(f.read_text())
        rp = body.get("replay") or body
        if isinstance(rp, dict) and "proc" in rp:
            out.append(dict(rp["proc"], _file=f.name, _expect=body.get("expect")))
    return out


def start(ctx, per_batch: int = 4):
    """launch the worker processes; the caller runs its other suites meanwhile and then calls finish()"""
    import multiprocessing as mp

    scns = replay_scns() + grid()
    if ctx.thorough:
        scns += [random_scn(ctx.rng) for _ in range(ctx.n(0, 420))]
    # long scenarios first
    scns.sort(key=lambda s: 0 if any(a.startswith("hold") for sc in s["scripts"] for a in sc) else 1)
    batches = [scns[i::max(1, (len(scns) + per_batch - 1) // per_batch)] for i in range(max(1, (len(scns) + per_batch - 1) // per_batch))]
    nproc = min(10, max(2, (os.cpu_count() or 4) - 4), len(batches))
    pool = mp.get_context("spawn").Pool(nproc)
    return {"pool": pool, "async": pool.map_async(unit, batches, chunksize=1), "n": len(scns), "t0": time.time()}


def finish(ctx, h) -> None:
    try:
        results = [r for b in h["async"].get(timeout=1500) for r in b]
    finally:
        h["pool"].terminate()
    inputs, lines, impl = [], [], []
    fam_count: dict[str, int] = {}
    # report the smallest, most telling scenario of a signature: the lost message first, fewer messages first
    results.sort(key=lambda r: (0 if r["sc"].get("family") == "outlives-lock-then-raises" else 1, len(r["sc"]["scripts"]), r["sc"]["workers"]))
    for r in results:
        sc = {k: v for k, v in r["sc"].items() if not k.startswith("_")}
        if "error" in r:
            from harness import core

            raise core.Infra("threaded-processor scenario failed: " + r["error"][-1500:])
        ctx.count(["proc", sc], nontrivial=True)
        fam_count[sc.get("family", "?")] = fam_count.get(sc.get("family", "?"), 0) + 1
        ctx.tag(f"proc:hb-{sc['hb']}", f"proc:workers-{sc['workers']}", f"proc:messages-{len(sc['scripts'])}", f"proc:family:{sc.get('family', '?')}")
        for t in r["tags"]:
            ctx.tag("proc:" + t)
        for what, sig in r["hits"]:
            ctx.violation(what + f"  [scenario: {describe(sc)}]", sig, {"proc": sc})
        if r["sc"].get("_expect") == "violation" and not r["hits"]:
            ctx.notes.append(f"replay {r['sc'].get('_file')}: the recorded finding no longer reproduces (fixed?)")
        if r["tie"]:
            inputs.append({"proc": sc})
            lines.append(r["line"])
            impl.append(r["impl"])
        if len([x for x in ctx.samples if "proc" in x]) < 1 and "redelivered-while-running" in r["tags"]:
            ctx.sample({"suite": "queue-threaded-processor", "proc": sc, "runs": r["runs"], "history_as_model_ops": r["line"], "final": r["impl"]})
    ctx.extra["proc_scenarios"] = len(results)
    ctx.extra["proc_scenarios_by_family"] = fam_count
    ctx.extra["proc_wall_s"] = round(time.time() - h["t0"], 1)
    ctx.correspond("queue-threaded-history", inputs, lines, impl)


def describe(sc: dict) -> str:
    return (f"SqliteQueue(lock_duration={sc.get('lock', LOCK_S)}s, max_attempts={sc.get('max_attempts', 3)}); QueueProcessor.start() with max_workers={sc['workers']}, "
            f"lock heartbeat {sc['hb']}, retry_delay={sc.get('retry', 0.0)}s, DLQ sweep every {sc.get('sweep', 0.1)}s; "
            f"handler scripts per message (k-th entry = k-th invocation) {sc['scripts']}")


def replay(ctx, sc: dict, tries: int = 3) -> int:
    """re-run one scenario in this process, print its trace; repeated when the timing did not materialise"""
    from harness import core

    _prepare()
    sc = {k: v for k, v in sc.items() if not k.startswith("_")}
    print("threaded-processor scenario:", describe(sc))
    base = core.scratch_dir()
    try:
        for attempt in range(tries):
            r = run_scn(sc, base, keep_trace=True)
            nm = [t for t in r["tags"] if t.startswith("not-materialised")]
            if r["hits"] or not nm or attempt == tries - 1:
                break
            print(f"  (attempt {attempt + 1}: timing did not materialise: {nm}; running again)")
        for e in r["trace"]:
            if e.get("by") == "harness":
                continue
            k = e["k"]
            if k.startswith("h-"):
                print(f"  t={e['t']:6.3f}s  handler t{e['tag']} run #{e['n']} (delivery #{e['w']}) {k[2:]}" + (f"  [script: {e['act']}]" if "act" in e else ""))
            elif k == "extend":
                continue
            else:
                extra = f" runs of t{e['tag']} at that moment: {e['runs']}" if "runs" in e else ""
                print(f"  t={e['t']:6.3f}s  {k:8s} row {e['rid']} (t{e['tag']}) attempts={e['att']} inside {e['by']}() of delivery #{e['w']}{extra}")
        print("  tags:", r["tags"])
        print("  final:", r["impl"])
        for what, sig in r["hits"]:
            print(f"PROPERTY FAILS: {what}  [{sig}]")
        model = ctx.lean([r["line"]])
        if model is not None:
            print("  model agrees with the committed history:", model[0] == r["impl"])
        return 1 if r["hits"] else 0
    finally:
        shutil.rmtree(base, ignore_errors=True)
