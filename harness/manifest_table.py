"""The per-property claims that MANIFEST.json is generated from."""

NOTES = ("Technique family: machine-checked proof in Lean 4 (lean/Stab/Props/Cxx.lean) about executable models "
         "(lean/Stab/Model), tied to /repo on every run by translators (translate/ -> lean/Stab/Gen, re-proved) and by a "
         "correspondence check (harness/, real engine in-process vs the compiled model driver). See DESIGN.md.")

ENGINES = [
    {"name": "lean-proofs", "path": "lean/", "serves_properties": [], "kind_free_text": "Lean 4 theorems about executable models; lake build + #print axioms audit on every run"},
    {"name": "translate", "path": "translate/", "serves_properties": ["C06"], "kind_free_text": "Python ast extractors regenerating lean/Stab/Gen from /repo on every run"},
    {"name": "harness", "path": "harness/", "serves_properties": [], "kind_free_text": "correspondence (model driver vs real code, same inputs) + implementation-side monitors + failing-input search"},
]

NOT_BUILT = "machinery for this property is not built yet in this round (planned in DESIGN.md section 4); not claimed until its check exists"


def fill(claim, not_yet):
    claim("C06", "Lean 4 proof over translated transition table + per-handler write-legality theorems; trigger-audit correspondence",
          "Table-level facts (completed statuses have no successor; halt subset of complete) are Lean theorems about a table regenerated from models/status.py on every run and proved equal to the model's table; 144 status pairs are run through can_transition and the model exhaustively.",
          "Trusted: Lean kernel, translate/status.py, harness. Engine-level part (every handler write legal) is added as the engine model lands.",
          "DESIGN.md §4 C06")
    for p in ["C01", "C02", "C03", "C04", "C05", "C07", "C08", "C09", "C10", "C11", "C12", "C13", "C14", "C15", "C16", "C17", "C18", "C19", "C20"]:
        not_yet[p] = NOT_BUILT
    for e in ENGINES:
        e["serves_properties"] = sorted(set(e["serves_properties"]))
