"""The per-property claims that MANIFEST.json is generated from."""

NOTES = ("Technique family: machine-checked proof in Lean 4 (lean/Stab/Props/Cxx.lean) about executable models "
         "(lean/Stab/Model), tied to /repo on every run by translators (translate/ -> lean/Stab/Gen, re-proved) and by a "
         "correspondence check (harness/, real engine in-process vs the compiled model driver). Every check: translate, "
         "lake build of the property's theorems, #print axioms audit (propext / Classical.choice / Quot.sound only), "
         "correspondence suites, implementation-side monitors, failing-input search when a proof or the correspondence "
         "breaks. See DESIGN.md.")

ENGINES = [
    {"name": "lean-proofs", "path": "lean/", "serves_properties": [], "kind_free_text": "Lean 4 theorems about executable models; lake build + #print axioms audit on every run; leanchecker in the thorough tier"},
    {"name": "translate", "path": "translate/", "serves_properties": ["C06", "C07", "C09", "C12", "C13", "C19", "C20"], "kind_free_text": "Python ast extractors regenerating lean/Stab/Gen from /repo on every run (status table, SQL shapes, schema/codec tables, transaction shapes, event map and call sites, expression dispatch)"},
    {"name": "mode-a-pure", "path": "harness/props/", "serves_properties": ["C03", "C07", "C08", "C09", "C12", "C13", "C14", "C15", "C16", "C19", "C20"], "kind_free_text": "correspondence: real functions / real SqliteQueue / real store vs the compiled Lean model driver on generated inputs and op sequences"},
    {"name": "mode-a-engine", "path": "harness/engine.py, harness/engine_suites.py", "serves_properties": ["C01", "C02", "C03", "C05", "C06", "C10", "C15", "C17", "C18"], "kind_free_text": "real engine driven one chosen message at a time (deliver / deliver-without-ack / kill at k-th commit / sweep / cancel / signal), state line after every op diffed with the Lean Engine model; monitors on the implementation traces"},
    {"name": "mode-b-sched", "path": "harness/modeb.py", "serves_properties": ["C04", "C11", "C18"], "kind_free_text": "deterministic statement-level interleaving of 2-3 real handler threads on one SQLite file (second worker's operation injected at every legal DB call of the first)"},
]

NOT_BUILT = "machinery for this property is not built yet in this round (planned in DESIGN.md section 4); not claimed until its check exists"

ENGINE_NOTE = ("Engine model hand-written (lean/Stab/Model/Engine.lean), tied to handlers/* by the per-op trace differential on generated "
               "schedules only; not modelled: synthetic stages, mutex/deferred choice, OR-split conditions, pause/resume, timeouts, "
               "wall-clock delays (budget-respecting schedules instead), circuit breaker, PostgreSQL backend.")


def fill(claim, not_yet):
    claim("C01", "Lean 4 theorems on the effect-list engine model (commit granularity) + exhaustive kill-point enumeration vs the model",
          "Proved: every handler except StartStage / CompleteStage / CancelWorkflow commits at most once; a kill before the first commit leaves the durable state untouched; a kill after the last handler commit equals an unacknowledged delivery. The end-to-end claim is refuted for the claim|plan window of StartStage (theorem crash_between_claim_and_plan_loses_upstream_data, finding F18, replayed on the real engine). The harness kills the real worker after every commit of every delivery of the reference run (thorough; stratified by message kind in the quick tier), lets the un-acked row come back after 0..8 further deliveries, kills the recovering worker a second time, and compares final statuses, data seen and execution counts with the uninterrupted run (where the reference is schedule-independent) and every intermediate state with the model.",
          ENGINE_NOTE + " A process kill = a prefix of the handler's commits is durable and all Python objects are dropped (SQLite atomic commit trusted).",
          "DESIGN.md §9 C01")
    claim("C02", "Lean 4 theorems on the engine model + schedule differential (reorder / redeliver) with re-execution monitor",
          "Proved along EVERY run of a jump-free workflow (any order, redeliveries, kills at any commit, sweeps, nested deliveries): a task whose result has been recorded keeps its status and is never executed again (recorded_task_never_reexecuted). Per step: RunTask executes only a RUNNING task; a processed message is never dispatched again (C09); status guards make stale StartTask/CompleteTask/CompleteStage inert. Redelivery of a polling/transient RunTask re-executing a finished task (F12) was found by the monitor and fixed. Outcome determinism over whole runs is validated, not proved.",
          ENGINE_NOTE, "DESIGN.md §9 C02")
    claim("C03", "Lean 4 proof: evaluate_readiness READY iff join condition (all inputs); engine claims monitored on every schedule",
          "For the executable model of evaluate_readiness, proved for all inputs: READY exactly when the join condition of the join type holds (or bypass / no upstreams); an AND join with a halted upstream is SKIP unless bypassed; a fired discriminator / N-of-M never fires again. Exhaustive agreement with the real function for <= 3 upstreams; engine-level monitor checks every NOT_STARTED->RUNNING audit row against an independent join oracle on every explored schedule.",
          "Pure half proved about the Lean model tied by exhaustive differential; engine half (claims only in READY states) is monitored on traces and follows in the model from hStartStage being the only NOT_STARTED->RUNNING writer; read-to-claim window covered by C04.",
          "DESIGN.md §9 C03")
    claim("C05", "Lean 4 proof of the driver invariant (queue drained => workflow final) for the plain workload class over every delivery schedule + theorems on _determine_final_status + quiescence monitor on all generated schedules, crash/recovery included",
          "Proved: the driver invariant for the plain workload class - for every AND-join DAG workflow with plain task results and EVERY delivery schedule, a drained queue means a final workflow status and every RUNNING stage has exactly one matching message queued (quiescent_is_final, running_stage_has_its_message; inductive invariant Live, one preservation lemma per message kind). Also: a workflow with a TERMINAL stage is reported TERMINAL; no stage of a workflow reported final is left RUNNING un-cancelled; with fix F37 no handler claims a stage once the workflow is final. Quiescent-state classification (final / explicitly waiting / wedged, incl. 'stuck until the wait budget') is monitored on every explored schedule; the wedges found are known findings F4, F28, F29 (jump loops) and the exotic class F5/F25.",
          ENGINE_NOTE + " The driver invariant is proved for the plain class only (other joins, OR-splits, suspends, redeliveries / crashes / sweeps are explored by the monitors; false with jumps: known findings F4 / F28).",
          "DESIGN.md §9 C05")
    claim("C06", "Lean 4 proof over translated transition table + run-level invariant: every audit row legal on every schedule/crash/sweep (jump-free)",
          "Table facts are theorems about a table regenerated from models/status.py on every run. Engine: every handler except JumpToStage writes only legal transitions in ANY state (handler_writes_legal), hence along every run - any delivery order, redelivery, kill after any commit, sweep, cancel, signal - every durable status change is legal and completed statuses are final for workflows without jumps (every_write_legal_partial, complete_is_final_partial). Jump writes: guarded after fix F34; the skip of bypassed stages is not proved. Trigger audit of every explored trace is checked against the source table, and so is the audit of every Mode B engine-pair schedule (two handlers on one stage at every legal DB-call point: join tracking, signal vs result, CancelStage vs CompleteTask, CancelStage vs the RunTask result commit; monitored, not proved).",
          ENGINE_NOTE, "DESIGN.md §9 C06")
    claim("C07", "Lean 4 proof on the optimistic-locking model + SQL shapes regenerated from source; interleaving differential on the real store",
          "At most one write per base version succeeds; the final content is the fold of the successful modifications in commit order (both store_stage variants are all-or-nothing since fix F33); retry linearizes; upsert_task is a CAS. Also with every read call split into its SQL statements and other clients' committed writes between them (split_read_no_lost_update, split_read_write_fails_or_keeps): the version comes from the same statement as the fields it guards, so a write after a torn read fails its CAS or loses nothing; the variant that re-reads the version in a later statement provably loses an update (reread_version_loses_update). Every stage UPDATE in both store_stage implementations has version = :version in its WHERE and bumps the version, and no read-path function assigns or separately selects the version (decide over tables generated from the source).",
          "Writers interleave at store-API-call granularity (SQLite single writer trusted); reads are split at every SQL statement of the seven read paths (retrieve_stage, retrieve, get_upstream/downstream/synthetic_stages, upstream / synthetic objects of retrieve_stage) with a complete committed write in between, on the real store; engine pairs (two upstream completions on one join stage, persistent signal vs RUNNING / SUCCEEDED task result, CancelStage vs CompleteTask, CancelStage vs the RunTask result commit, and StartStage's claim -> plan window vs a sibling's join tracking / a second persistent signal on a context that already holds the key) at every legal DB-call point under Mode B with row-history monitors and a store-call-log correspondence to the CasRow model. Auto-commit store_stage half-applied write was finding F33 (fixed).",
          "DESIGN.md §9 C07")
    claim("C08", "Lean 4 proof on the queue model (conservation, claim exclusivity, DLQ at limit) + per-op differential on the real SqliteQueue incl. crash points",
          "After any sequence of pushes, split/atomic polls, ack, reschedule, extend, expire, mature, DLQ moves, sweeps, replays and crashes at any commit, every pushed message is in exactly one of queue / DLQ / acknowledged; a claimed (id, version) is never claimed again; rows at the limit are never delivered and are moved unchanged; replay preserves the payload.",
          "Time is abstract (explicit expire/mature ops); PostgreSQL queue and thread-pool glue not covered.",
          "DESIGN.md §9 C08")
    claim("C09", "Lean 4 proof: bloom no-false-negative (real index arithmetic), committed-never-rerun over all op sequences; generated transaction-shape table",
          "The bloom filter never reports a marked/hydrated id as new; reset revokes and hydrate grants authority only on the complete id set; with the negative-cache option off a committed message is never dispatched again through any redeliveries, restarts, rotations and peer marks. A generated table pins which handler commits carry the processed mark.",
          "md5/sha1 and SQLite trusted; retention cleanup excluded (finding F32).",
          "DESIGN.md §9 C09")
    claim("C10", "Lean 4 theorems on the recovery model (sweep pushes only guarded messages; second sweep pushes no task work) + sweep-injection differential",
          "Proved in ANY state: a sweep only pushes messages (no row, mark, execution or status change); it pushes RunTask/StartTask only for a task with no queued message, in a RUNNING stage; a second sweep right after the first pushes no RunTask/StartTask at all. The harness injects one or two sweeps before every delivery step of the FIFO run (thorough) and compares outcome and execution counts with the sweep-free run.",
          ENGINE_NOTE + " That StartStage duplicates are absorbed rests on the status guards (C02/C04).",
          "DESIGN.md §9 C10")
    claim("C12", "Lean 4 proof on the replay fold model + generated fold/recorder tables; every-prefix / every-snapshot differential",
          "For all logs, rebuilding as of n equals folding exactly the events with sequence <= n; snapshot + tail equals the full replay on every field a snapshot carries; every recorder call site folds to the status the handler just wrote (generated table).",
          "That handlers produce covered histories is checked by the monitor; findings F3/F8 (fixed) and uncovered writers listed in DESIGN.md.",
          "DESIGN.md §9 C12")
    claim("C13", "Lean 4 proof on the TxnScope model + generated call-site table; kill at every commit index with event store in the same DB",
          "For all op sequences: durable sequences are 1..n, the subscriber log is an order-preserving sublist of the durable log, a rollback or crash appends and publishes nothing, a flat block is all-or-nothing; every completion-event call site lies inside a transaction block that stores the entity (decide over generated table).",
          "Handlers never nesting blocks is observed (max depth 1), not proved.",
          "DESIGN.md §9 C13")
    claim("C14", "Lean 4 proof on the attempt-counter pipeline model (retry_bounded, progress_visible) + real-engine retry chains",
          "For every delivery/redelivery schedule an always-transiently-failing task is executed at most max_attempts times, then CompleteTask(TERMINAL) is pushed; every execution sees ctx + all earlier updates; a RUNNING answer keeps its context. The unrepaired code was proved unbounded (F1, fixed). The harness also kills the worker after the first commit of a retry delivery (retry row and saved progress must be one commit).",
          "Backoff durations, Postgres, per-message max_attempts other than the default not covered.",
          "DESIGN.md §9 C14")
    claim("C15", "Lean 4 proof: re-arm scope is the least closed set, skipped characterisation, jump potential strictly decreases; traversal + handler differential",
          "For all graphs: the re-arm scope is the least set containing the target closed under 'all prerequisites inside'; downstream is reachability; skipped = depends-only-on-source minus target chain. Every accepted jump strictly decreases a potential, so every schedule accepts finitely many jumps; a self loop is granted exactly max - count.",
          "Pure half + handler-level differential; whole-workflow termination on every schedule, and 'one requested jump is applied once' when the worker dies at any commit of a JumpToStage delivery, are explored by the engine suites (known findings F4/F28; F29 fixed).",
          "DESIGN.md §9 C15")
    claim("C16", "Lean 4 proof for every linear extension of the ancestor DAG (nearest wins, own wins, lists accumulate, reducers permutation-invariant) + exact-order differential",
          "For every linear extension the set-ordered Kahn pass can produce: the merged context has exactly the ancestors' keys, a path-ordered scalar has the nearest ancestor's value, own context wins, lists accumulate without duplicates, symmetric reducers are branch-order independent; with fix F17 a re-armed stage is planned from the current iteration's outputs.",
          "Values restricted to None/int/str, lists and str->atom dicts.",
          "DESIGN.md §9 C16")
    claim("C17", "Lean 4 proof: cancel flag monotone, no execution after cancel on every schedule (incl. crashes/sweeps); cancel-injection differential",
          "Proved for all op sequences: once is_canceled is durable it stays set and the execution ledger never grows again; CancelWorkflow fans out CancelStage to every incomplete stage; CancelStage leaves no task NOT_STARTED/RUNNING. With fix F26: a StartStage / SkipStage arriving after the cancel commits nothing, and no handler of any message claims a stage (NOT_STARTED -> RUNNING) once the cancel is durable. Finality and 'unfinished stages end CANCELED' are monitored with a cancel injected before a random step under every schedule class.",
          ENGINE_NOTE + " The intra-handler window (task already past the flag check) is outside the atomic-step model.",
          "DESIGN.md §9 C17")
    claim("C19", "Lean 4 proof over generated schema / codec tables (every field persisted, UPDATE touches only, serialisers agree, round trip) + field-by-field differential",
          "Every dataclass field of stage, task and workflow is written and read back except a justified exemption list; the stage UPDATEs set exactly status/context/outputs/start_time/end_time/version; the two message serialisers are identical and deserialise(serialise) is the identity on every registered message type; tasks come back in creation order given monotonic ULIDs.",
          "Per-column conversions (json, enum, bool) are exercised by correspondence, not proved.",
          "DESIGN.md §9 C19")
    claim("C20", "Lean 4 proof: validate_ok_iff, toposort sound/complete, eval_total for every AST/context/depth + grammar differential",
          "validate_stage_graph succeeds exactly when refs are distinct, known, without self-edge and acyclic; topological_sort returns a permutation with every stage after its requisites; the expression evaluator (with fix F2) returns a value or ExpressionError for every tree, context and depth budget, so both callers skip or do not skip and never crash.",
          "The model starts at the AST (ast.parse trusted); floats, bytes, non-singleton `is` only monitored.",
          "DESIGN.md §9 C20")
    claim("C04", "Lean 4 proof on the ClaimProtocol model (all interleavings, any number of workers) + Mode-B statement-level interleaving of real handler threads",
          "For any number of StartStage, CompleteStage and SignalStage handlers and every interleaving at read/transaction granularity: at most one claim and one plan commit, StartTask is pushed once, _join_fired is written once, each upstream triggers the join once; with fix F6, if all handlers finish and one saw READY exactly one plan exists. Tied to the code by exhaustive Mode-B interleavings (2-3 workers, preemption depth <= 2) on all join types.",
          "Mode B class: worker B runs atomically inside a read-window of A, nested twice (what SQLite's single-writer locking permits at transaction granularity); retry bounds and max_attempts not modelled.",
          "DESIGN.md §9 C04")
    claim("C11", "Lean 4 proof on the Claims model (all op sequences incl. stale fast-path reads and sweeps) + Mode-B sibling races on the real engine",
          "A live stage with mutex key k owns k's claim row (never two live stages per key); at most one member of a deferred-choice group ever starts and the losers can only cancel; a delivered waiter acquires once the holder is complete or was re-armed (F30 fixed); the claim sweep keeps claims of live owners (F31 fixed).",
          "PostgreSQL acquire_claim not exercised.",
          "DESIGN.md §9 C11")
    claim("C18", "Lean 4 one-step theorems (signal delivered / buffered / dropped, buffered signal consumed in the suspending commit, SUSPENDED stays SUSPENDED under every other message), theorems over ALL read/CAS-window schedules of the two-worker race signal handler vs suspending result (SignalRace) + signal-timing, crash-point and Mode-B differential",
          "Proved in ANY state: a signal on a SUSPENDED stage resumes it with exactly one RunTask in the same commit; a persistent signal on a non-suspended stage is buffered, a transient one dropped; a suspending result with a buffered signal consumes exactly one and re-runs in the same commit; no message other than its own signal, its own cancel or a jump re-arm moves a SUSPENDED stage. Race model: for every window, both directions, any version and mailbox count a persistent signal is never lost, never applied twice, never left in the mailbox of a SUSPENDED stage; a transient one is delivered or dropped, never buffered; the variant whose CAS is guarded by a re-read version provably loses the signal. The harness sends persistent/transient signals at random moments (before start, running, suspended) under every schedule class, kills the worker at the commits of the signal and suspend steps, runs every legal Mode-B interleaving of the two real handlers, and checks 'resumes = effective signals'.",
          ENGINE_NOTE + " The run-level count is monitored, not proved; Mode B class as for C04 (B runs atomically inside a read-window of A).",
          "DESIGN.md §9 C18")
    for e in ENGINES:
        e["serves_properties"] = sorted(set(e["serves_properties"]))
