"""Evaluate a seeded change against the checks (development-time tool, not a registered check).

  python -m harness.seedtest verify /tmp/seed-C10 C10            # demo fails with / passes without the change (in its worktree)
  python -m harness.seedtest run    /tmp/seed-C10 C10 C10,C02    # apply to /repo, run ./check for the listed properties, undo
"""
from __future__ import annotations

import json
import shutil
import subprocess
import sys
import time
from pathlib import Path

VERIF = Path(__file__).resolve().parent.parent


def sh(cmd: str, cwd: str | None = None, timeout: int = 3600) -> tuple[int, str]:
    p = subprocess.run(cmd, shell=True, cwd=cwd, capture_output=True, text=True, timeout=timeout)
    return p.returncode, (p.stdout + p.stderr)


def verify(wt: str, pid: str) -> dict:
    env = f"PYTHONPATH={wt}/src"
    demo = f"demo_{pid}.py"
    rc1, out1 = sh(f"{env} /venv/bin/python {demo}", cwd=wt, timeout=900)
    # (not `git stash`: the stash stack is shared by all worktrees of /repo, so concurrent users race)
    sh("git diff -- src > .seedtest.patch && git apply -R .seedtest.patch", cwd=wt)
    try:
        rc0, out0 = sh(f"{env} /venv/bin/python {demo}", cwd=wt, timeout=900)
    finally:
        sh("git apply .seedtest.patch && rm -f .seedtest.patch", cwd=wt)
    return {"demo_with_change_rc": rc1, "demo_without_change_rc": rc0, "with_tail": out1[-400:], "without_tail": out0[-300:]}


def install(wt: str, pid: str, name: str) -> Path:
    d = VERIF / "seeded" / name
    d.mkdir(parents=True, exist_ok=True)
    rc, diff = sh("git diff -- src", cwd=wt)
    (d / "patch.diff").write_text(diff)
    shutil.copy2(Path(wt) / f"demo_{pid}.py", d / f"demo_{pid}.py")
    meta = json.loads((Path(wt) / "meta.json").read_text()) if (Path(wt) / "meta.json").exists() else {}
    (d / "meta.json").write_text(json.dumps(meta, indent=1))
    return d


def run(wt: str, pid: str, props: list[str], name: str, tier: str = "quick") -> dict:
    d = install(wt, pid, name)
    import os

    use_env = os.environ.get("SEED_VIA_ENV", "1") == "1"   # run against the seeded worktree via STABILIZE_REPO (no edit of /repo)
    if not use_env:
        rc, out = sh(f"git -C /repo apply --check {d}/patch.diff")
        if rc != 0:
            return {"error": "patch does not apply: " + out[-300:]}
        sh(f"git -C /repo apply {d}/patch.diff")
    results = {}
    try:
        for p in props:
            t0 = time.time()
            pre = f"STABILIZE_REPO={wt} " if use_env else ""
            rc, out = sh(f"{pre}./check {p} --tier {tier}", cwd=str(VERIF), timeout=3000)
            lines = [l for l in out.splitlines() if l.startswith("VIOLATION") or l.startswith("[") or l.startswith("KNOWN")]
            results[p] = {"rc": rc, "lines": lines[:6], "wall": round(time.time() - t0, 1)}
            # keep the first replay for the record
            for l in lines:
                if l.startswith("VIOLATION") and "replay=" in l:
                    rp = l.split("replay=")[1].split()[0]
                    try:
                        body = json.loads(Path(rp).read_text())
                        results[p]["what"] = (body.get("what") or str(body.get("proof_obligations_broken") or body.get("correspondence_broken"))[:300])[:300]
                        results[p]["signature"] = body.get("signature")
                        results[p]["kind"] = body.get("kind")
                    except Exception:
                        pass
                    break
    finally:
        if not use_env:
            sh("git -C /repo checkout -- .")
    meta = json.loads((d / "meta.json").read_text())
    meta.setdefault("verif", {})["checks_" + tier] = results
    (d / "meta.json").write_text(json.dumps(meta, indent=1))
    return results


if __name__ == "__main__":
    cmd, wt, pid = sys.argv[1:4]
    if cmd == "verify":
        print(json.dumps(verify(wt, pid), indent=1))
    else:
        props = sys.argv[4].split(",")
        name = sys.argv[5] if len(sys.argv) > 5 else pid + "-" + Path(wt).name
        tier = sys.argv[6] if len(sys.argv) > 6 else "quick"
        print(json.dumps(run(wt, pid, props, name, tier), indent=1))
