"""Synthetic before/after stages on the REAL engine: an IMPLEMENTATION-ONLY family (monitors, no model correspondence).

Properties C05, C17 and C01 quantify over "every generated workflow (... synthetic before/after stages)".  The Lean engine
model has no synthetic stages, so these traces are never sent to the model (like the `i<row>.<k>` interposed-sweep traces that
engine_suites.consume() skips): the property is stated directly on what the real handlers did.

A workflow = 1-3 top-level stages (single / chain / two parallel roots / fan-in); some of them carry 1-2 pre-declared
STAGE_BEFORE and / or STAGE_AFTER children (StageSpec.synth, built and stored the way the repo's tests build them:
StageExecution(synthetic_stage_owner=...) + parent_stage_id, no requisites).  Children have one scripted task, parents 0-2.
In every state line / audit row / message code / ledger entry the children are the stage indices n_top, n_top+1, ... in
storage order (Spec.children()).

Schedules: the modes of engine_suites.produce (fifo | rand | dup | starve | any), a cancel before a random step, signals for
suspended stages, sweeps injected into healthy runs, and the crash family (kill after k commits of delivery j, restart, sweep(s),
late redelivery of the un-acked row, in-order drain).

What "had not already finished" means for C17 here (see DESIGN.md C17, "Update (round 4): synthetic stages"):
  * top-level stage without children: engine_suites.in_effect_finished, unchanged;
  * parent: in effect finished only if that holds for its own tasks AND no child is left to run (every child complete, or a
    child / task failure already decided); a parent whose tasks are done but whose after-stage has not run is NOT finished
    and must end CANCELED (that is what CancelStageHandler does on the unchanged tree);
  * child NOT_STARTED at acceptance: it must never start; it may stay NOT_STARTED (CancelWorkflow fans CancelStage out to
    top-level stages only and the StartStage guard refuses to start it) or end CANCELED;
  * child RUNNING / SUSPENDED at acceptance and not in effect finished: must end CANCELED like any other stage.
"""
from __future__ import annotations

import json
import os
import random
import re
import shutil
import traceback
from collections import Counter
from concurrent.futures import ProcessPoolExecutor
from pathlib import Path

from harness import core
from harness import engine_suites as es
from harness.engine import Spec, StageSpec, WAIT_MAX
from harness.engine_suites import COMPLETE, CONTINUABLE, HALT, Runner, Trace, parse_line

# Signatures (without the `synth:<prop>:` prefix) that fire on the UNCHANGED tree, were adjudicated as real engine defects
# and wait for a decision: the oracle stays, the REPORTING is off unless VERIF_SYNTH_PENDING=1.  fnmatch patterns.
PENDING: list[str] = [
]
# R1 (F61 8a51a1b) and R2 (F62 a33e861) were gated here until they were repaired; reported again since then:
#       # R1 (restart dimension, C05)  RestartStageHandler resets the restarted stage and its tasks only (handlers/workflow_control.py,
#       #     `reset_stage_for_retry(stage)`), not its synthetic children (JumpToStage does: _synthetic_reset_mutations).  The re-run
#       #     parent pushes StartStage for before-stages that are already complete - dropped - and nothing ever continues it: RUNNING until
#       #     the CompleteWorkflow re-polls spend the wait budget and fail the workflow.  Proposed: proposed_fixes/R1-...proposed.diff
#       "restart:C05:stuck-until-wait-budget:restarted-parent-children-not-reset",
#       "restart:C05:wedged:restarted-parent-children-not-reset",
#       # R2 (restart dimension, C05)  RestartStage re-opens the workflow and (F59) leaves a CompleteWorkflow behind; when another stage is
#       #     still TERMINAL / CANCELED that CompleteWorkflow finalises the workflow again at once (complete_workflow.py, "Any TERMINAL /
#       #     CANCELED"), the restarted stage's StartStage is then dropped ("workflow complete", start_stage/handler.py) and the stage stays
#       #     NOT_STARTED; a second restart re-opens the workflow around it: stuck until the wait budget fails it.
#       "restart:C05:stuck-until-wait-budget:restarted-stage-never-started:StartStage-dropped-by-refinalised-workflow",
#       "restart:C05:wedged:restarted-stage-never-started:StartStage-dropped-by-refinalised-workflow",
# P1 (F57 05c2357) was gated here until it was repaired; reported again since then:
#   # P1 (pause dimension; C05, C17)  CompleteWorkflow handled while the workflow row is PAUSED computes SUCCEEDED / TERMINAL and calls
#   #     set_workflow_status: PAUSED -> SUCCEEDED / TERMINAL is not in the transition table, InvalidStateTransitionError on every
#   #     delivery, the message ends in the DLQ (complete_workflow.py, on_execution; models/status.py PAUSED row).  After store.resume()
#   #     nothing is left to finish the workflow: RUNNING with every stage settled, queue empty; a canceled one never becomes final.
#   #     Proposed: proposed_fixes/P1-completeworkflow-finishes-a-paused-workflow.proposed.diff
#   "pause:C05:wedged:CW-dead-lettered:InvalidStateTransitionError-while-workflow-PAUSED",
#   "pause:C17:cancel-not-final:RUNNING@CW-dead-lettered:InvalidStateTransitionError-while-workflow-PAUSED",
#   "pause:C17:cancel-not-final:PAUSED@CW-dead-lettered:InvalidStateTransitionError-while-workflow-PAUSED",
# S11 (F53 a49b63f), S12 (F54 c44ff70), S13 (F55 9677b69) were gated here until they were repaired; reported again since then:
#   # S11 (C17)  CancelStage for a stage that is already complete returns at once and fans out to nobody (cancel_stage.py, the
#   #     "already complete" early return; F49 added the fan-out only behind it).  A parent that failed through ONE before / after-stage
#   #     (its CompleteStage(parent) is queued ahead of the cancel's CancelStage(parent)) therefore leaves its other started children
#   #     as they are: a SUSPENDED one stays SUSPENDED for ever.  Proposed: proposed_fixes/S11-cancelstage-on-settled-parent-...diff
#   #     (before-stages only: a failed after-stage next to a SUSPENDED one leaves the parent RUNNING - "in flight children" -
#   #     and the cancel's CancelStage(parent) then reaches it and fans out)
#   "unfinished-stage-ends:before:SUSPENDED>SUSPENDED:parent-ended-TERMINAL",
#   # S12 (C05, C01 ...)  an after-stage that ends FAILED_CONTINUE completes its parent itself (complete_stage/handler.py, "FAILED_CONTINUE
#   #     propagation to parent") and never starts its chained successor (A1 -> A2): A2 stays NOT_STARTED, determine_status()
#   #     answers RUNNING for the parent, CompleteStage(parent) is dropped as stale, queue empty - in plain in-order delivery.
#   #     Proposed: proposed_fixes/S12-failed-continue-after-stage-starts-its-chained-successor.proposed.diff
#   "wedged:chained-after-stage-never-started-behind-FAILED_CONTINUE-link",
#   "stuck-until-wait-budget:chained-after-stage-never-started-behind-FAILED_CONTINUE-link",
#   "wedged:chained-after-stage-never-started-behind-FAILED_CONTINUE-link:taskless-parent",
#   "stuck-until-wait-budget:chained-after-stage-never-started-behind-FAILED_CONTINUE-link:taskless-parent",
#   # S13 (C05 ...)  StageExecution.determine_status for a stage WITHOUT tasks and before-stages asks "is an after-stage NOT_STARTED / RUNNING?"
#   #     before it looks for a halted one (models/stage/stage.py, the `not core_statuses` branch): with a chain A1 -> A2 whose A1 ends
#   #     TERMINAL, A2 is never started, the answer stays RUNNING, CompleteStage(parent) is dropped as stale: wedged in order.
#   #     (The same order in the branch for stages WITH tasks is the round-5 seeded C05 change.)  Proposed: proposed_fixes/S13-...diff
#   "wedged:chained-after-stage-never-started-behind-TERMINAL-link:taskless-parent",
#   "stuck-until-wait-budget:chained-after-stage-never-started-behind-TERMINAL-link:taskless-parent",
# S10 (C12, fixed by F52 42f7a42): ContinueParentStage marked a parent TERMINAL without recording a stage event; signature
#     synth:replay-mismatch:stage:store=TERMINAL:replay=RUNNING:written-by-ContinueParentStage
# History: the patterns below fired on /repo 2858e20 and were gated here while they waited for a decision.  All of them were
# repaired by `fix:` commits (F44-F51, DESIGN.md section 5.1) and are reported again like every other signature; their
# witnesses run first on every check (replays/<prop>/F4x-synth-*.json).
#       # S1  CompleteStage(parent) after a failed task / before-stage counts never-started PRE-DECLARED after-stages as "in flight"
#       #     (complete_stage/handler.py, `in_flight_children`): consumed, the parent stays RUNNING, in plain in-order delivery
#       "wedged:failed-parent-waits-for-unstarted-after-stage",
#       "stuck-until-wait-budget:failed-parent-waits-for-unstarted-after-stage",
#       "*:ref:failed-parent-waits-for-unstarted-after-stage",       # C01: compared against a reference run that contains S1
#       # S2  a before-stage ending FAILED_CONTINUE sends CompleteStage(parent) instead of ContinueParentStage (complete_stage/handler.py,
#       #     "FAILED_CONTINUE propagation to parent"): the parent's tasks are never started, in plain in-order delivery
#       "wedged:before-stage-failed-continue-parent-never-continued",
#       "stuck-until-wait-budget:before-stage-failed-continue-parent-never-continued",
#       "*:ref:before-stage-failed-continue-parent-never-continued",  # C01: compared against a reference run that contains S2
#       # S3  CompleteWorkflow looks at top-level statuses only: a SUSPENDED child under a RUNNING parent is not "explicitly waiting" to
#       #     it, the poll chain spends the wait budget and fails the workflow (complete_workflow.py, _determine_final_status)
#       "waiting-workflow-failed-by-wait-budget:child-stage-waiting:by-CW",
#       # S3b the same for ContinueParentStage's re-poll chain: one before/after-stage has finished, its sibling is SUSPENDED; the
#       #     chain spends the wait budget and marks the parent TERMINAL (continue_parent_stage.py, `if not all_complete`)
#       "waiting-workflow-failed-by-wait-budget:child-stage-waiting:by-CP",
#       # S4  the recovery sweep pushes StartStage for every NOT_STARTED synthetic child (recovery.py, _can_start: "no dependencies - can
#       #     always start"): children run before / without their parent.  Any hit on a trace in which that happened.
#       "*[:@]before-stage-started-while-parent-not-running",
#       "*[:@]after-stage-started-before-parent-work-finished",
#       "*[:@]child-started-by-recovery-sweep",       # the same StartStage, arriving when the parent happened to be ready for the child
#       # S5  (report (b)) the recovery sweep pushes StartTask for a RUNNING parent's first task while its before-stage still runs
#       #     (recovery.py, _recover_workflow, `elif not_started_tasks and stage.start_time is not None`)
#       "*[:@]parent-task-started-before-before-stage-finished",
#       # S6  a cancel fans CancelStage out to top-level stages only (workflow_control.py) and CancelStage does not touch children:
#       #     a SUSPENDED child of a canceled workflow stays SUSPENDED for ever
#       "unfinished-stage-ends:before:SUSPENDED>SUSPENDED",
#       "unfinished-stage-ends:after:SUSPENDED>SUSPENDED",
#       # S8  ContinueParentStage treats a child that the accepted cancel turned CANCELED as a FAILED child and marks the parent TERMINAL
#       #     (continue_parent_stage.py, `any_failed`): when it overtakes the parent's CancelStage the parent and the workflow end
#       #     TERMINAL instead of CANCELED
#       "unfinished-stage-ends:parent*:RUNNING>TERMINAL:by-CP",
#       "cancel-final:TERMINAL:CP-made-a-stage-TERMINAL-after-the-cancel",
#       # S9  StageExecution.determine_status without tasks / before-stages only looks for TERMINAL among the after-stages: a task-less
#       #     parent whose after-stages were CANCELED completes SUCCEEDED (models/stage/stage.py, the `not core_statuses` branch)
#       "unfinished-stage-ends:parent:RUNNING>SUCCEEDED:by-CS:taskless-parent-with-canceled-after-stage",


# --------------------------------------------------------------------------------------
# layout of a spec with children
# --------------------------------------------------------------------------------------

class Lay:
    def __init__(self, spec: Spec):
        self.spec = spec
        self.n = len(spec.stages)
        self.kids = spec.children()
        self.total = self.n + len(self.kids)
        self.reqs = spec.child_reqs()          # per child: stage index of the sibling it is chained behind, or None

    def parent(self, i: int) -> int | None:
        return None if i < self.n else self.kids[i - self.n][0]

    def owner(self, i: int) -> str | None:
        return None if i < self.n else self.kids[i - self.n][1]

    def children_of(self, p: int, owner: str | None = None) -> list[int]:
        return [self.n + c for c, (par, own, _) in enumerate(self.kids) if par == p and (owner is None or own == owner)]

    def req(self, i: int) -> int | None:
        return None if i < self.n else self.reqs[i - self.n]

    def role(self, i: int) -> str:
        if i >= self.n:
            return "before" if self.owner(i) == "B" else "after"
        return "parent" if self.children_of(i) else "plain"

    def scripts(self, i: int) -> list[list[str]]:
        return self.spec.scripts(i)

    def all_scripts(self):
        for i in range(self.total):
            for sc in self.scripts(i):
                yield i, sc


def code_stage(code: str | None) -> int | None:
    """stage index a message code is about (SS.3.0 -> 3, CT.1.0.SUCCEEDED -> 1); None for workflow-level codes"""
    if not code:
        return None
    f = code.split(".")
    if f[0] in ("SW", "XW", "CW") or len(f) < 2 or not f[1].isdigit():
        return None
    return int(f[1])


class SRunner(Runner):
    """Runner + the queue's dead-letter rule: SqliteQueue.poll_one never hands out a row whose attempts reached max_attempts and
    the processor's periodic check_and_move_expired() moves it to the DLQ.  The harness' own `deliver` ignores that limit, so a
    message whose handler raises on every delivery (seen: ContinueParentStage for an already CANCELED parent) would be retried
    for ever; here it is retried max_attempts times, then op `q` runs the REAL check_and_move_expired()."""

    def apply(self, op: tuple) -> None:
        if op[0] == "R":
            # operator restart of stage op[1] (Engine.restart_stage = Orchestrator.restart -> RestartStage)
            self.e.restart_stage(op[1])
            t = self.t
            t.ops.append(f"R{op[1]}")
            t.outcomes.append("ok")
            t.op_msg.append(None)
            t.op_inner.append([])
            self._record(None)
            return
        if op[0] in ("p", "u", "r"):
            # operator pause / unpause / resume (Engine.pause / unpause / resume = store.pause, Orchestrator.unpause, store.resume)
            {"p": self.e.pause, "u": self.e.unpause, "r": self.e.resume}[op[0]]()
            t = self.t
            t.ops.append(op[0])
            t.outcomes.append("ok")
            t.op_msg.append(None)
            t.op_inner.append([])
            self._record(None)
            return
        if op[0] == "q":
            moved = self.e.queue.check_and_move_expired()
            t = self.t
            t.ops.append("q")
            t.outcomes.append(f"dlq:{moved}")
            t.op_msg.append(None)
            t.op_inner.append([])
            self._record(None)
            return
        super().apply(op)

    def eligible(self, respecting: bool):
        if any(a >= self.e.queue.max_attempts for _, _, a in self.e.pending()):
            self.apply(("q",))
        return super().eligible(respecting)


def s_apply_str(r: SRunner, o: str) -> None:
    if o[0] == "R":
        r.apply(("R", int(o[1:])))
    elif o in ("q", "p", "u", "r"):
        r.apply((o,))
    else:
        es._apply_str(r, o)


def s_fifo_run(spec: Spec, wd: Path, limit: int = 300) -> SRunner:
    r = SRunner(spec, wd)
    for _ in range(limit):
        p = r.eligible(True)
        if not p:
            break
        r.apply(("d", p[0][0]))
    return r


# --------------------------------------------------------------------------------------
# generator
# --------------------------------------------------------------------------------------

_OUT_MAIN = [["S"]] * 9 + [["T"], ["F"], ["R", "S"], ["R", "R", "S"], ["U", "S"]]
_OUT_NOSUSP = [["S"]] * 9 + [["T"], ["F"], ["R", "S"], ["R", "R", "S"]]


def gen_synth_spec(rng: random.Random, suspend: bool = True, directed: str | None = None) -> Spec:
    pool = _OUT_MAIN if suspend else _OUT_NOSUSP
    shape = rng.choice(["single", "single", "chain2", "chain2", "chain3", "roots2", "roots2", "fanin"])
    reqs = {"single": [[]], "chain2": [[], [0]], "chain3": [[], [0], [1]], "roots2": [[], []], "fanin": [[], [], [0, 1]]}[shape]
    n = len(reqs)
    with_kids = {rng.randrange(n)} | {i for i in range(n) if rng.random() < 0.35}
    stages = []
    for i in range(n):
        nt = rng.choice([0, 1, 1, 1, 2])
        st = StageSpec(reqs=list(reqs[i]), tasks=[list(rng.choice(pool)) for _ in range(nt)], cont=rng.random() < 0.12)
        if i in with_kids:
            nb, na = rng.choice([(1, 0), (0, 1), (1, 1), (1, 1), (2, 0), (0, 2), (2, 1), (1, 2)])
            st.synth = [{"owner": "B", "tasks": [list(rng.choice(pool))]} for _ in range(nb)] + \
                       [{"owner": "A", "tasks": [list(rng.choice(pool))]} for _ in range(na)]
            # a CHAIN instead of two parallel siblings: the second before- / after-stage has the first one as its requisite
            if nb == 2 and rng.random() < 0.45:
                st.synth[1]["req"] = 0
            if na == 2 and rng.random() < 0.45:
                st.synth[nb + 1]["req"] = nb
        stages.append(st)
    def plain(ch: dict) -> dict:
        return {k_: v for k_, v in ch.items() if k_ != "req"}

    if directed == "after":
        # the parent-waits-for-its-after-stage window: a parent with own tasks and an after-stage, optionally next to another root
        stages[0].tasks = stages[0].tasks or [["S"]]
        stages[0].synth = [plain(x) for x in (stages[0].synth or []) if x["owner"] == "B"][:1] + [{"owner": "A", "tasks": [list(rng.choice(pool))]}]
    if directed == "before":
        stages[0].tasks = stages[0].tasks or [["S"]]
        stages[0].synth = [{"owner": "B", "tasks": [list(rng.choice(pool))]}] + [plain(x) for x in (stages[0].synth or []) if x["owner"] == "A"][:1]
    return Spec(stages)


# --------------------------------------------------------------------------------------
# monitors (the property as stated, on implementation traces)
# --------------------------------------------------------------------------------------

def s_exhausted(t: Trace) -> int | None:
    """index k (into lines) of the first delivery of a wait re-poll whose budget is spent (CW / SS / CP with retry == WAIT_MAX)"""
    for k, m in enumerate(t.op_msg):
        if not m:
            continue
        f = m.split(".")
        if (f[0] == "CW" and f[1] == str(WAIT_MAX)) or (f[0] == "SS" and f[2] == str(WAIT_MAX)) or (f[0] == "CP" and f[3] == str(WAIT_MAX)):
            return k
    return None


def order_violations(t: Trace, lay: Lay) -> list[tuple[str, str]]:
    """Nesting order of a parent and its children, judged on the audit trail with the statuses as they were when each row was
    written.  Not one of C05 / C17 / C01's clauses: used to NAME THE CAUSE of a wedge / outcome difference."""
    if lay.total == lay.n:
        return []
    st = ["NOT_STARTED"] * lay.total
    ts = {(i, j): "NOT_STARTED" for i in range(lay.total) for j in range(len(lay.scripts(i)))}
    out = []
    for k, op, msg, (ent, old, new) in es.audit_by_op(t):
        if ent[0] == "S" and ent[1:].isdigit():
            i = int(ent[1:])
            if old == "NOT_STARTED" and new == "RUNNING" and i >= lay.n:
                p = lay.parent(i)
                if lay.owner(i) == "B" and st[p] != "RUNNING":
                    out.append(("before-stage-started-while-parent-not-running", f"before-stage {i} of stage {p} was started by {msg or op} while the parent was {st[p]}"))
                if lay.owner(i) == "A":
                    core = [ts[(p, j)] for j in range(len(lay.scripts(p)))] + [st[b] for b in lay.children_of(p, "B")]
                    # done, or DECIDED: a before-stage / task failed and continuePipelineOnFailure turns that into FAILED_CONTINUE,
                    # after which CompleteStage(parent) starts the after-stages without running the remaining tasks
                    core_done = all(x in COMPLETE for x in core) or any(x in HALT for x in core)
                    if st[p] != "RUNNING" or not core_done:
                        out.append(("after-stage-started-before-parent-work-finished",
                                    f"after-stage {i} of stage {p} was started by {msg or op} while the parent was {st[p]} with tasks "
                                    f"{[ts[(p, j)] for j in range(len(lay.scripts(p)))]} and before-stages {[st[b] for b in lay.children_of(p, 'B')]}"))
                if lay.req(i) is not None and st[lay.req(i)] not in CONTINUABLE:
                    out.append(("chained-child-started-before-its-sibling-finished",
                                f"{lay.role(i)}-stage {i} is chained behind stage {lay.req(i)} and was started by {msg or op} while that one was {st[lay.req(i)]}"))
            st[i] = new
        elif ent[0] == "T" and "?" not in ent:
            i, j = (int(x) for x in ent[1:].split("."))
            if old == "NOT_STARTED" and new == "RUNNING" and i < lay.n:
                unfinished = [b for b in lay.children_of(i, "B") if st[b] not in COMPLETE]
                if unfinished:
                    out.append(("parent-task-started-before-before-stage-finished",
                                f"task {i}.{j} of the parent was started by {msg or op} while its before-stage(s) {unfinished} were {[st[b] for b in unfinished]}"))
            ts[(i, j)] = new
    return out


def describe_stage(lay: Lay, fin: dict, i: int) -> str:
    s = fin["stages"][i]
    tk = s["tasks"]
    tstate = "none" if not tk else ("done" if all(x in COMPLETE for x in tk) else ("unstarted" if all(x == "NOT_STARTED" for x in tk) else "partial"))
    d = f"{lay.role(i)}[{s['status']},tasks={tstate}"
    if i < lay.n and lay.children_of(i):
        for own in ("B", "A"):
            ks = lay.children_of(i, own)
            if ks:
                d += f",{own}=" + "+".join(sorted({fin['stages'][c]['status'] for c in ks}))
    return d + "]"


def s_wedge_cause(t: Trace, fin: dict, lay: Lay) -> str:
    if t.meta.get("restart"):
        for k_, m_ in enumerate(t.op_msg):
            if m_ and m_.startswith("RR.") and t.audit_len[k_ + 1] > t.audit_len[k_]:
                p_ = int(m_.split(".")[1])
                after_rr = parse_line(t.lines[k_ + 1])
                if p_ < lay.n and any(after_rr["stages"][c]["status"] != "NOT_STARTED" for c in lay.children_of(p_)) \
                        and fin["stages"][p_]["status"] in ("RUNNING", "NOT_STARTED"):
                    # RestartStage re-armed the parent and its tasks but left its synthetic children as they were: the re-run
                    # parent starts children that are already complete, their StartStage is dropped, nobody continues the parent
                    return "restarted-parent-children-not-reset"
                if p_ < lay.n and fin["stages"][p_]["status"] == "NOT_STARTED" and any(
                        (t.op_msg[j_] or "").startswith(f"SS.{p_}.") and parse_line(t.lines[j_])["wf"] in COMPLETE for j_ in range(k_ + 1, len(t.ops))):
                    # the re-opened workflow was finalised again (the CompleteWorkflow that RestartStage leaves behind sees another
                    # TERMINAL / CANCELED stage) before the restarted stage's StartStage was handled; that StartStage is then dropped
                    # ("workflow complete") and the stage stays NOT_STARTED whatever re-opens the workflow later
                    return "restarted-stage-never-started:StartStage-dropped-by-refinalised-workflow"
    ov = order_violations(t, lay)
    if ov:
        return ov[0][0]
    if t.meta.get("pause") is not None:
        dl = dead_letters(t)
        if dl:
            return dl[0][0]          # the message that would have driven the workflow on was lost to the DLQ

    for p in range(lay.n):
        a = fin["stages"][p]
        if a["status"] != "RUNNING" or not lay.children_of(p):
            continue
        core = list(a["tasks"]) + [fin["stages"][b]["status"] for b in lay.children_of(p, "B")]
        after = [fin["stages"][c]["status"] for c in lay.children_of(p, "A")]
        for c in lay.children_of(p):
            r_ = lay.req(c)
            if r_ is not None and fin["stages"][c]["status"] == "NOT_STARTED" and fin["stages"][r_]["status"] in COMPLETE \
                    and all(fin["stages"][b]["status"] in COMPLETE for b in lay.children_of(p, "B") if lay.owner(c) == "A") \
                    and (lay.owner(c) == "B" or all(x in COMPLETE for x in a["tasks"])):
                # a chain of before- / after-stages whose earlier link is finished while the later one was never started, the
                # parent still RUNNING: nobody starts the later link and nobody completes the parent around it
                taskless = ":taskless-parent" if not a["tasks"] and not lay.children_of(p, "B") else ""
                return f"chained-{lay.role(c)}-stage-never-started-behind-{fin['stages'][r_]['status']}-link{taskless}"
        if any(x in HALT for x in core) and after and all(x == "NOT_STARTED" for x in after):
            # CompleteStage(parent) on a failed core counts the never-started pre-declared after-stages as "in flight"
            return "failed-parent-waits-for-unstarted-after-stage"
        if any(fin["stages"][b]["status"] == "FAILED_CONTINUE" for b in lay.children_of(p, "B")) and all(x == "NOT_STARTED" for x in a["tasks"]) \
                and all(x == "NOT_STARTED" for x in after) and all(fin["stages"][b]["status"] in COMPLETE for b in lay.children_of(p, "B")):
            # a before-stage that ends FAILED_CONTINUE sends CompleteStage(parent) instead of ContinueParentStage
            return "before-stage-failed-continue-parent-never-continued"
    for i in list(range(lay.n)) + list(range(lay.n, lay.total)):
        if fin["stages"][i]["status"] == "RUNNING":
            # the innermost stuck stage: a RUNNING child explains its RUNNING parent
            inner = [c for c in lay.children_of(i) if fin["stages"][c]["status"] == "RUNNING"] if i < lay.n else []
            return describe_stage(lay, fin, inner[0] if inner else i)
    for i in range(lay.n):
        ups = [fin["stages"][u]["status"] for u in lay.spec.stages[i].reqs]
        if fin["stages"][i]["status"] == "NOT_STARTED" and all(u in CONTINUABLE for u in ups):
            return "never-started:" + describe_stage(lay, fin, i)
    return "+".join(sorted({s["status"] for s in fin["stages"]}))


def absorbed(lay: Lay, i: int) -> bool:
    """a terminal failure of stage i is absorbed by continuePipelineOnFailure of the stage itself or of its parent"""
    if i < lay.n:
        return lay.spec.stages[i].cont
    return lay.spec.stages[lay.parent(i)].cont


def smon_c05(t: Trace) -> list[tuple[str, str]]:
    lay = Lay(t.spec)
    hits = []
    if not t.quiesced:
        return hits
    fin = t.final()
    sts = [s["status"] for s in fin["stages"]]
    top = sts[:lay.n]
    pm = t.meta.get("pause")
    if pm is not None and fin["wf"] not in COMPLETE and (fin["wf"] == "PAUSED" or "PAUSED" in sts):
        if not pm.get("unpaused"):
            return hits          # paused and nobody un-paused it: explicitly waiting (for the resume)
        # the operator un-paused (and kept at it, settle_pause) and the queue is empty: nothing will ever lift this pause
        parked = sorted({lay.role(i) for i, x in enumerate(sts) if x == "PAUSED"})
        hits.append((f"still-paused-after-unpause:workflow-{fin['wf']}:parked-{'+'.join(parked) or 'none'}",
                     f"un-paused, queue empty, but workflow {fin['wf']} with stages {sts}: the pause is never lifted"))
        return hits
    if fin["wf"] not in COMPLETE and not es.waiting_explicitly(fin):
        hits.append((f"wedged:{s_wedge_cause(t, fin, lay)}",
                     f"queue empty, workflow {fin['wf']}, top-level stages {top}, children {sts[lay.n:]}: neither final nor explicitly waiting"))
    ex = s_exhausted(t)
    if ex is not None and t.respecting:
        pre = parse_line(t.lines[ex])
        if pre["wf"] not in COMPLETE and es.waiting_explicitly(pre) and not pre["canceled"]:
            who = "child" if any(x["status"] in ("SUSPENDED", "PAUSED") for x in pre["stages"][lay.n:]) else "top-level"
            hits.append((f"waiting-workflow-failed-by-wait-budget:{who}-stage-waiting:by-{t.op_msg[ex].split('.')[0]}",
                         f"stage(s) {[i for i, x in enumerate(pre['stages']) if x['status'] in ('SUSPENDED', 'PAUSED')]} were explicitly waiting "
                         f"(SUSPENDED/PAUSED) but {t.op_msg[ex]} exhausted its re-poll budget"))
        if pre["wf"] not in COMPLETE and not es.waiting_explicitly(pre):
            hits.append((f"stuck-until-wait-budget:{s_wedge_cause(t, pre, lay)}",
                         f"only wait re-polls were pending ({t.op_msg[ex]} exhausted its budget): workflow {pre['wf']} was silently stuck with "
                         f"top-level stages {[x['status'] for x in pre['stages'][:lay.n]]}, children {[x['status'] for x in pre['stages'][lay.n:]]}"))
    if fin["wf"] == "SUCCEEDED" and not all(s in CONTINUABLE for s in top):
        hits.append((f"succeeded-with:{'+'.join(sorted({s for s in top if s not in CONTINUABLE}))}", f"workflow SUCCEEDED with top-level stages {top}"))
    if fin["wf"] in COMPLETE and fin["wf"] not in ("TERMINAL", "CANCELED"):
        for i, s in enumerate(sts):
            if s == "TERMINAL" and not absorbed(lay, i):
                hits.append((f"terminal-stage-but:{fin['wf']}:{lay.role(i)}", f"stage {i} ({lay.role(i)}) is TERMINAL but the workflow is {fin['wf']}"))
                break
    if fin["wf"] in COMPLETE and "RUNNING" in sts:
        i = sts.index("RUNNING")
        hits.append((f"finished-with-running-stage:{fin['wf']}:{describe_stage(lay, fin, i)}",
                     f"workflow {fin['wf']} finished but top-level stages are {top}, children {sts[lay.n:]}"))
    return hits


def s_finished_flags(lay: Lay, at: dict) -> list[bool]:
    """in effect finished at the moment the cancel was accepted (module docstring)"""
    q = at["queue"]
    own = [es.in_effect_finished(a, i, q) for i, a in enumerate(at["stages"])]

    def decided_failure(i: int) -> bool:
        a = at["stages"][i]
        return a["status"] in HALT or any(x in HALT for x in a["tasks"]) or any(
            x.split(":")[1].startswith(f"CT.{i}.") and x.split(":")[1].split("/")[0].split(".")[-1] in HALT for x in q)

    flags = list(own)
    for p in range(lay.n):
        ks = lay.children_of(p)
        if not ks or at["stages"][p]["status"] in COMPLETE:
            continue
        if decided_failure(p) or any(decided_failure(c) for c in ks):
            flags[p] = True
        else:
            # every child has all its task results recorded (complete, or only CompleteTask / CompleteStage / ContinueParentStage
            # bookkeeping outstanding): the parent itself only awaits bookkeeping
            flags[p] = own[p] and all(own[c] for c in ks)
    return flags


def smon_c17(t: Trace) -> list[tuple[str, str]]:
    lay = Lay(t.spec)
    hits = []
    accepted = None
    for k in range(1, len(t.lines)):
        if t.lines[k - 1].split(";")[0].endswith(",0") and t.lines[k].split(";")[0].endswith(",1"):     # W=<status>,<is_canceled>
            accepted = k
            break
    if accepted is None:
        return hits
    at = parse_line(t.lines[accepted])
    late = t.ledger[t.ledger_len[accepted]:]
    if late:
        hits.append(("exec-after-cancel", f"task executions {late[:3]} began after the cancel was processed (op #{accepted})"))
    if not t.quiesced:
        return hits
    fin = t.final()
    if fin["wf"] not in COMPLETE:
        hits.append((f"cancel-not-final:{fin['wf']}", f"after an accepted cancel the workflow stays {fin['wf']}"))
    flags = s_finished_flags(lay, at)

    def set_by(i: int, status: str) -> str:
        """kind of the message whose delivery, after the acceptance, wrote `status` into stage i (CP, CS, XS, ...)"""
        for k, op, msg, (ent, old, new) in es.audit_by_op(t):
            if k + 1 > accepted and ent == f"S{i}" and new == status:
                return (msg or op).split(".")[0]
        return "?"

    for i, (a, b) in enumerate(zip(at["stages"], fin["stages"])):
        if flags[i]:
            continue
        role = lay.role(i)
        if i >= lay.n and a["status"] == "NOT_STARTED":
            if b["status"] not in ("NOT_STARTED", "CANCELED"):
                hits.append((f"unstarted-child-ends:{role}:{b['status']}",
                             f"{role}-stage {i} had not started when the cancel was accepted and ends {b['status']}"))
                break
            continue
        if b["status"] != "CANCELED":
            kind = role
            if role == "parent":
                own_done = bool(a["tasks"]) and all(x in COMPLETE for x in a["tasks"])
                kind = "parent-awaiting-after-stage" if (own_done and a["status"] == "RUNNING") else "parent"
            elif role == "plain":
                kind = "taskless" if not a["tasks"] else "with-tasks"
            sig = f"unfinished-stage-ends:{kind}:{a['status']}>{b['status']}"
            if i >= lay.n and fin["stages"][lay.parent(i)]["status"] in ("TERMINAL", "STOPPED", "SUCCEEDED", "FAILED_CONTINUE", "SKIPPED"):
                # the child was never reached by a CancelStage because its parent settled (failed through a sibling child, ...)
                # before the cancel's CancelStage(parent) was handled, and a CancelStage for a settled stage fans out to nobody
                sig += f":parent-ended-{fin['stages'][lay.parent(i)]['status']}"
            if b["status"] != a["status"]:
                sig += f":by-{set_by(i, b['status'])}"
                after_fin = [fin["stages"][c]["status"] for c in lay.children_of(i, "A")] if i < lay.n else []
                if role == "parent" and b["status"] == "SUCCEEDED" and not a["tasks"] and not lay.children_of(i, "B") and "CANCELED" in after_fin:
                    sig += ":taskless-parent-with-canceled-after-stage"
            hits.append((sig, f"stage {i} ({role}) was {a['status']} with tasks {a['tasks']} when the cancel was accepted and ends {b['status']}"))
            break
    failed = any(a["status"] == "TERMINAL" or "TERMINAL" in a["tasks"] or any(
        x.split(":")[1].startswith(f"CT.{i}.") and x.split(":")[1].split("/")[0].endswith("TERMINAL") for x in at["queue"])
        for i, a in enumerate(at["stages"]))
    unfinished_top = not all(flags[:lay.n])
    if fin["wf"] in COMPLETE and fin["wf"] != "CANCELED" and unfinished_top and not (failed and fin["wf"] == "TERMINAL"):
        sig = f"cancel-final:{fin['wf']}"
        late = sorted({(msg or op).split(".")[0] for k, op, msg, (ent, old, new) in es.audit_by_op(t)
                       if k + 1 > accepted and ent[0] == "S" and ent[1:].isdigit() and int(ent[1:]) < lay.n and new == "TERMINAL"})
        if late:
            sig += f":{'+'.join(late)}-made-a-stage-TERMINAL-after-the-cancel"
        hits.append((sig, f"canceled workflow ends {fin['wf']} although top-level stages were unfinished at cancel time"))
    return hits


def latent_causes(t: Trace, lay: Lay) -> list[str]:
    """S1 / S2 leave a parent that never finishes by itself; next to another branch the workflow still ends (the other branch's
    CompleteWorkflow chain cancels the stuck parent), so the run looks healthy.  Named here so that a comparison AGAINST such a
    run (C01's reference) says what it was compared with."""
    fin = t.final()
    if fin["canceled"]:
        return []
    started = {ent for ent, old, new in t.audit if ent[0] == "T" and new == "RUNNING"}
    out = []
    for p in range(lay.n):
        if not lay.children_of(p):
            continue
        a = fin["stages"][p]
        if a["status"] not in ("RUNNING", "CANCELED"):
            continue
        b_st = [fin["stages"][b]["status"] for b in lay.children_of(p, "B")]
        a_st = [fin["stages"][c]["status"] for c in lay.children_of(p, "A")]
        own_started = any(f"T{p}.{j}" in started for j in range(len(a["tasks"])))
        if "FAILED_CONTINUE" in b_st and all(x in COMPLETE for x in b_st) and a["tasks"] and not own_started:
            out.append("before-stage-failed-continue-parent-never-continued")
        if any(x in ("TERMINAL", "STOPPED") for x in list(a["tasks"]) + b_st) and a_st and all(x == "NOT_STARTED" for x in a_st):
            out.append("failed-parent-waits-for-unstarted-after-stage")
    return out


def s_outcome(t: Trace) -> dict:
    fin = t.final()
    execs: Counter = Counter()
    for s_, tt, n, seen in t.ledger:
        execs[f"{s_}.{tt}"] += 1
    return {"wf": fin["wf"], "stages": [s_["status"] for s_ in fin["stages"]], "tasks": [s_["tasks"] for s_ in fin["stages"]],
            "execs": dict(execs), "quiesced": t.quiesced, "exhausted": s_exhausted(t) is not None,
            "latent": latent_causes(t, Lay(t.spec)),
            "healthy": t.quiesced and fin["wf"] in COMPLETE and s_exhausted(t) is None}


def smon_c01(t: Trace) -> list[tuple[str, str]]:
    """crash anywhere + restart + sweep + drain == uninterrupted in-order run: workflow / stage statuses (children included),
    per-task execution counts + at most the in-flight step repeated, and not stuck"""
    ref = t.meta.get("ref")
    if not ref or not ref.get("healthy") or not any(o[0] == "k" for o in t.ops):
        return []      # the property is about a kill + restart: a trace without a kill is not its subject
    lay = Lay(t.spec)
    hits = []
    got = s_outcome(t)
    code = t.meta.get("crash_msg", "?")
    si = code_stage(code)
    at = code.split(".")[0] + (f"[{lay.role(si)}]" if si is not None and si < lay.total else "")
    k = t.meta.get("crash_k")
    where = f"{at}@{k}"
    ov = order_violations(t, lay)
    if ov:
        where = ov[0][0]
    elif ref.get("latent"):
        # the uninterrupted run itself contains a parent stuck by S1 / S2 (hidden by another branch ending the workflow): the
        # recovery sweep sometimes un-sticks it, so the crash run legitimately differs from that reference
        where = "ref:" + ref["latent"][0]
    # the recovery sweep re-pushes messages (since F48 also StartStage for never-started before-stages of a RUNNING parent, besides the
    # duplicates for RUNNING stages): in-order delivery of those shifts every later message, i.e. the crash run IS reordered
    swept_any = any(o == "w" and len(parse_line(t.lines[k_ + 1])["queue"]) > len(parse_line(t.lines[k_])["queue"]) for k_, o in enumerate(t.ops))
    reordered = bool(t.meta.get("hold")) or t.meta.get("crashes", 1) > 1 or swept_any
    halting = any(o[0] in "TX" for _, sc in lay.all_scripts() for o in sc)
    race_dependent = reordered and halting
    if not got["quiesced"]:
        return [(f"not-drained-after-recovery:{where}", "queue not drained after crash recovery")]
    fin = t.final()
    if fin["wf"] not in COMPLETE and not es.waiting_explicitly(fin) and ref["wf"] in COMPLETE:
        return [(f"stuck-after-crash:{where}", f"after a crash in {code} (after {k} commits) + restart + sweep + drain the workflow stays {fin['wf']} with stages "
                 f"{got['stages']}; uninterrupted run: {ref['wf']} {ref['stages']}")]
    if (got["wf"] != ref["wf"] or got["stages"] != ref["stages"]) and not race_dependent:
        hits.append((f"outcome-differs:{where}", f"crash in {code} after {k} commits: final {got['wf']} {got['stages']} vs uninterrupted {ref['wf']} {ref['stages']}"))
    extra = sum(got["execs"].values()) - sum(ref["execs"].values())
    if extra > t.meta.get("crashes", 1) and not race_dependent:
        hits.append((f"more-than-inflight-step-repeated:{where}", f"{extra} extra task executions after {t.meta.get('crashes', 1)} crash(es): {got['execs']} vs {ref['execs']}"))
    elif not hits and not race_dependent:
        more = {key: n for key, n in got["execs"].items() if n > ref["execs"].get(key, 0) + 1}
        if more:
            hits.append((f"task-repeated-more-than-once:{where}", f"executions {got['execs']} vs uninterrupted {ref['execs']}"))
    return hits



RECORDED_S = set("STFX")     # scripted outcomes that record a result (no execution afterwards); R = poll, U = suspend, E = transient


def smon_c02_reexec(t: Trace) -> list[tuple[str, str]]:
    """C02, second clause: a task whose result has been recorded is never executed again (children included); the oracle of
    engine_suites.mon_c02_reexec with the scripts of children (no jumps here, so no iteration boundaries)"""
    lay = Lay(t.spec)
    hits = []
    recorded: dict[tuple[int, int], str] = {}
    for k in range(1, len(t.lines)):
        for (s_, tt, n, _seen) in t.ledger[t.ledger_len[k - 1]:t.ledger_len[k]]:
            sc = lay.scripts(s_)[tt]
            oc = sc[min(n - 1, len(sc) - 1)]
            if (s_, tt) in recorded:
                hits.append((f"reexecuted-after:{recorded[(s_, tt)]}:{lay.role(s_)}",
                             f"task {s_}.{tt} ({lay.role(s_)} stage) executed again (execution #{n}) after its result {recorded[(s_, tt)]} was recorded, op {t.ops[k - 1]}"))
            if oc[0] in RECORDED_S:
                recorded[(s_, tt)] = oc[0]
    return hits[:1]


def smon_c02_outcome(t: Trace) -> list[tuple[str, str]]:
    """C02, first clause: without crashes any delivery order / redelivery ends like the in-order run: workflow, every stage
    (children included), every task status, per-task execution counts.  Exclusions of DESIGN section 6: workflows with a halting
    task result (a failing branch racing its siblings) and reference runs that themselves halted are not compared."""
    ref = t.meta.get("fifo_ref")
    if not ref or not ref.get("healthy") or not t.quiesced:
        return []
    lay = Lay(t.spec)
    if any(o[0] in "TX" for _, sc in lay.all_scripts() for o in sc):
        return []
    if any(x in ("TERMINAL", "STOPPED", "CANCELED") for x in ref["stages"]):
        return []
    got = s_outcome(t)
    fin = t.final()
    if got["wf"] != ref["wf"] or got["stages"] != ref["stages"]:
        if fin["wf"] not in COMPLETE:
            cause = s_wedge_cause(t, fin, lay)
        elif s_exhausted(t) is not None:
            cause = "wait-budget:" + s_wedge_cause(t, parse_line(t.lines[s_exhausted(t)]), lay)
        else:
            i = next((j for j, (a, b) in enumerate(zip(got["stages"], ref["stages"])) if a != b), None)
            cause = f"final-statuses:{lay.role(i)}:{got['stages'][i]}-vs-{ref['stages'][i]}" if i is not None else f"final-statuses:workflow:{got['wf']}-vs-{ref['wf']}"
        return [(f"outcome-differs-from-fifo:{cause}", f"schedule {t.tag}: final {got['wf']} {got['stages']} vs in-order run {ref['wf']} {ref['stages']}")]
    if got["execs"] != ref["execs"]:
        key = sorted(k_ for k_ in set(got["execs"]) | set(ref["execs"]) if got["execs"].get(k_, 0) != ref["execs"].get(k_, 0))[0]
        return [(f"executions-differ-from-fifo:{lay.role(int(key.split('.')[0]))}", f"schedule {t.tag}: task executions {got['execs']} vs in-order run {ref['execs']}")]
    if got["tasks"] != ref["tasks"]:
        pairs = sorted({f"{a}-vs-{b}" for x, y in zip(got["tasks"], ref["tasks"]) for a, b in zip(x, y) if a != b})
        return [("task-statuses-differ-from-fifo:" + "+".join(pairs), f"schedule {t.tag}: same statuses and executions, task statuses {got['tasks']} vs {ref['tasks']}")]
    return []


def smon_c10(t: Trace) -> list[tuple[str, str]]:
    """C10 (the oracle of engine_suites.mon_c10, children included): a sweep injected into a healthy run - between two deliveries
    or by another worker inside a delivery - changes no outcome and causes no extra execution; after a kill, two sweeps in a row
    end like one sweep and at most the in-flight step is repeated"""
    ref = t.meta.get("ref")
    if not ref or not ref.get("healthy"):
        return []
    lay = Lay(t.spec)
    hits = []
    got = s_outcome(t)
    kind = t.meta.get("kind", "healthy")
    code = t.meta.get("sweep_before") or "?"
    inside = ""
    if code.startswith("inside@"):
        inside, code = code.split(":", 1)
    si = code_stage(code)
    where = (inside + ":" if inside else "before-") + code.split(".")[0] + (f"[{lay.role(si)}]" if si is not None and si < lay.total else "")
    href = t.meta.get("ref_healthy")
    if href and href.get("healthy"):
        extra = sum(got["execs"].values()) - sum(href["execs"].values())
        if extra > 1:
            hits.append((f"after-crash:more-than-inflight-step-repeated:{where}", f"{extra} extra task executions after one crash in {t.meta.get('crash_msg')} followed by sweep(s): {got['execs']} vs {href['execs']}"))
    if any(o[0] in "TX" for _, sc in lay.all_scripts() for o in sc):
        # a failing branch racing its siblings (DESIGN section 6, "Order-dependent references"): the no-op duplicates a sweep
        # pushes take delivery slots of the in-order schedule, so who is CANCELED and who still ran depends on them like on any
        # other reordering.  Judged there: the run still ends, and no task whose result is recorded executes again.
        if got["quiesced"] != ref["quiesced"] or (got["wf"] in COMPLETE) != (ref["wf"] in COMPLETE):
            hits.append((f"{kind}:outcome-changed-by-sweep:{where}:not-finished", f"{kind}: sweep {where}: final {got['wf']} quiesced={got['quiesced']} vs reference {ref['wf']}"))
        if not any(o[0] == "k" for o in t.ops):      # (after a kill the in-flight task legitimately runs again)
            for sig, what in smon_c02_reexec(t):
                hits.append((f"{kind}:extra-execution-by-sweep:{where}:{sig}", f"{kind}: sweep {where}: {what}"))
        return hits
    if got["quiesced"] != ref["quiesced"] or got["wf"] != ref["wf"] or got["stages"] != ref["stages"]:
        hits.append((f"{kind}:outcome-changed-by-sweep:{where}", f"{kind}: sweep {where} ({t.meta.get('sweep_before')}): final {got['wf']} {got['stages']} vs reference {ref['wf']} {ref['stages']}"))
    if got["execs"] != ref["execs"]:
        hits.append((f"{kind}:extra-execution-by-sweep:{where}", f"{kind}: sweep {where} ({t.meta.get('sweep_before')}): executions {got['execs']} vs reference {ref['execs']}"))
    return hits


S_OUTCOME = {"smon_c05", "smon_c17", "smon_c01", "smon_c02_outcome", "smon_c10", "mon_c18", "pmon_c18"}
S_MONITORS = {
    "C05": [smon_c05, es.mon_c06],
    "C17": [smon_c17, es.mon_c06],
    "C01": [smon_c01, es.mon_c06, smon_c05],
    "C02": [smon_c02_reexec, smon_c02_outcome],
    "C10": [smon_c10, es.mon_c06],
    "C18": [es.mon_c18, es.mon_c06],
}
def pmon_c18(t: Trace) -> list[tuple[str, str]]:
    """engine_suites.mon_c18 on traces of the pause dimension.  A target that is parked (PAUSED) at the end - woken by its signal
    or not yet suspended, then parked by a RunTask that found the workflow PAUSED - in a run nobody un-paused has neither lost a
    signal nor resumed without one: it waits for the resume.  Only the "left SUSPENDED by something else" clause is judged there."""
    fin = t.final()
    tgt = t.meta.get("signal_stage")
    if tgt is not None and (fin["stages"][tgt]["status"] == "PAUSED" or fin["wf"] == "PAUSED"):
        return [h for h in es.mon_c18(t) if h[0].startswith("suspended-left-by")]
    return es.mon_c18(t)


def dead_letters(t: Trace) -> list[tuple[str, str]]:
    """messages the dead-letter rule removed (op q), each with the exception its handler raised and the workflow status it
    raised under: (name, description).  A message that raises on every delivery is lost; whatever it was to do never happens."""
    out = []
    for k, o in enumerate(t.ops):
        if o != "q":
            continue
        before = {x.split(":")[0]: x.split(":")[1].split("/")[0] for x in parse_line(t.lines[k])["queue"]}
        after = {x.split(":")[0] for x in parse_line(t.lines[k + 1])["queue"]}
        for rid, code in before.items():
            if rid in after:
                continue
            exc, wf = "?", "?"
            for j in range(k - 1, -1, -1):
                m_ = re.match(r"[dxn](\d+)", t.ops[j])
                if m_ and m_.group(1) == rid and t.outcomes[j].startswith("raised:"):
                    exc, wf = t.outcomes[j].split(":", 1)[1], parse_line(t.lines[j])["wf"]
                    break
            out.append((f"{code.split('.')[0]}-dead-lettered:{exc}-while-workflow-{wf}",
                        f"{code} raised {exc} on every delivery while the workflow was {wf} and was moved to the DLQ (row {rid})"))
    return out


def pmon_final(t: Trace) -> list[tuple[str, str]]:
    """a durable FINAL workflow status never changes (whoever writes: a handler, or the operator calls store.pause / store.resume)"""
    for k, op, msg, (ent, old, new) in es.audit_by_op(t):
        if ent == "W" and old in COMPLETE:
            return [(f"final-workflow-status-changed:{old}>{new}", f"the workflow row went {old} -> {new} by {msg or op} (op #{k + 1})")]
    return []


def _restart_exempt(t: Trace, k: int, ent: str, old: str, new: str) -> bool:
    """the property's own exception: what the RestartStage delivery ITSELF writes - the restarted stage and its tasks back to
    NOT_STARTED, a completed workflow back to RUNNING - is allowed; everything else is judged as before"""
    m = t.op_msg[k] or ""
    if not m.startswith("RR."):
        return False
    si = m.split(".")[1]
    if ent == "W":
        return old in COMPLETE and new == "RUNNING"
    if new != "NOT_STARTED":
        return False
    own = {int(si)} | set(Lay(t.spec).children_of(int(si)))          # the stage, and the synthetic children that belong to it
    return (ent[0] == "S" and ent[1:].isdigit() and int(ent[1:]) in own) or (ent[0] == "T" and "?" not in ent and int(ent[1:].split(".")[0]) in own)


def rmon_c06(t: Trace) -> list[tuple[str, str]]:
    """engine_suites.mon_c06 (every durable status change legal, completed is final) with the restart exception"""
    hits = []
    for k, op, msg, (ent, old, new) in es.audit_by_op(t):
        if _restart_exempt(t, k, ent, old, new) or es.can_transition(old, new):
            continue
        kind = "completed-left" if old in COMPLETE else "illegal"
        hits.append((f"{kind}:{ent[0]}:{old}>{new}:by:{(msg or op).split('.')[0]}", f"durable status change {ent} {old}->{new} by {msg or op} is not in the transition table"))
    return hits[:1]


def rmon_final(t: Trace) -> list[tuple[str, str]]:
    """a durable final workflow status never changes - except through the RestartStage delivery that re-opens the workflow"""
    for k, op, msg, (ent, old, new) in es.audit_by_op(t):
        if ent == "W" and old in COMPLETE and not _restart_exempt(t, k, ent, old, new):
            return [(f"final-workflow-status-changed:{old}>{new}:by:{(msg or op).split('.')[0]}", f"the workflow row went {old} -> {new} by {msg or op} (op #{k + 1})")]
    return []


# the operator restart dimension (signatures prefixed `restart:`)
R_MONITORS = {
    "C05": [smon_c05],
    "C06": [rmon_c06, rmon_final],
}

# the pause / resume dimension (plain AND synthetic-stage workflows; signatures prefixed `pause:`)
P_MONITORS = {
    "C06": [es.mon_c06, pmon_final],
    "C05": [smon_c05, es.mon_c06],
    "C17": [smon_c17, es.mon_c06],
    "C18": [pmon_c18, es.mon_c06],
}
_BY_NAME = {m.__name__: m for ms in list(S_MONITORS.values()) + list(P_MONITORS.values()) + list(R_MONITORS.values()) for m in ms}


def monitors_for(prop: str, family: str):
    return {"pause": P_MONITORS, "restart": R_MONITORS}.get(family, S_MONITORS)[prop]


# --------------------------------------------------------------------------------------
# producers
# --------------------------------------------------------------------------------------

def produce_sched(prop: str, rng: random.Random, wd: Path) -> dict:
    """one trace in one of the schedule modes of engine_suites.produce"""
    directed = None
    if prop == "C17" and rng.random() < 0.4:
        directed = "after"
    elif rng.random() < 0.12:
        directed = rng.choice(["after", "before"])
    spec = gen_synth_spec(rng, suspend=True, directed=directed)
    lay = Lay(spec)
    r = SRunner(spec, wd)
    mode = rng.choice(["fifo", "rand", "rand", "dup", "starve", "any" if rng.random() < 0.5 else "rand"])
    respecting = mode != "any"
    victim = None
    cancel_at = rng.randint(0, 10 + 5 * lay.total) if (prop == "C17" or rng.random() < 0.2) else None
    # directed cancel moment: the window in which a parent waits for a child that was planned but has not started yet
    # (StartStage(child) queued, child NOT_STARTED); the CancelWorkflow is then usually delivered at once
    window = None
    if cancel_at is not None and lay.kids and rng.random() < (0.45 if prop == "C17" else 0.3):
        window = rng.choice(["A", "A", "B"])
    sweeps = sorted(rng.randint(0, 25) for _ in range(rng.choice([1, 1, 2]))) if (cancel_at is None or prop != "C17") and rng.random() < 0.3 else []
    susp = [i for i, sc in lay.all_scripts() if "U" in sc]
    nested_p = 0.0 if mode == "fifo" else 0.15
    step = 0
    injected_sweep = False
    for _ in range(240):
        p = r.eligible(respecting)
        if not p:
            break
        if cancel_at is not None and window is not None:
            hot = [x for x in p if x[1].startswith("SS.") and code_stage(x[1]) >= lay.n and lay.owner(code_stage(x[1])) == window]
            if hot and rng.random() < 0.7:
                r.apply(("c",))
                cancel_at = None
                if rng.random() < 0.7:
                    xw = [x for x in r.pending() if x[1] == "XW"]
                    if xw:
                        r.apply(("d", xw[0][0]))
                continue
        elif cancel_at is not None and step == cancel_at:
            r.apply(("c",))
            cancel_at = None
            continue
        if sweeps and sweeps[0] <= step:
            sweeps.pop(0)
            r.apply(("w",))
            injected_sweep = True
            continue
        if mode == "starve":
            if victim is None and rng.random() < 0.2:
                victim = rng.choice(p)[0]
            if victim is not None and any(x[0] != victim for x in p):
                p = [x for x in p if x[0] != victim]
            elif victim is not None:
                victim = None
        rid, rcode = (p[0][0], p[0][1]) if mode in ("fifo", "starve") else (lambda x: (x[0], x[1]))(rng.choice(p))
        others = [x for x in p if x[0] != rid and not (x[1].startswith("RT.") and x[1] == rcode)]
        if rcode.startswith("RT.") and others and rng.random() < nested_p:
            r.apply(("n", rid, [x[0] for x in rng.sample(others, min(len(others), rng.choice([1, 1, 2])))]))
        elif mode == "dup" and rng.random() < 0.2:
            r.apply(("x", rid))
        elif prop == "C17" and rcode == "XW" and rng.random() < 0.25:
            r.apply(("k", rid, rng.choice([0, 1, 1, 2])))
            r.apply(("w",))
            es.hold_then_expire(r, rng.choice([0, 0, 1, 2, 4]))
        else:
            r.apply(("d", rid))
        step += 1
        if susp and rng.random() < 0.06:
            r.apply(("g", rng.choice(susp), rng.random() < 0.6))
    if susp and not r.pending() and rng.random() < 0.7:
        # a suspended stage at quiescence: send the signal(s) it waits for and drain again
        for _ in range(3):
            fin = parse_line(r.t.lines[-1])
            waiting = [i for i, s in enumerate(fin["stages"]) if s["status"] == "SUSPENDED"]
            if not waiting or fin["wf"] in COMPLETE:
                break
            r.apply(("g", waiting[0], rng.random() < 0.5))
            r.drain(rng if mode != "fifo" else None, "fifo" if mode in ("fifo", "starve") else "rand")
    t = r.finish()
    t.tag = f"synth/{mode}" + ("+cancel" if "c" in t.ops else "") + ("+sweep" if injected_sweep else "") + ("+signal" if any(o[0] == "g" for o in t.ops) else "")
    t.respecting = respecting
    return es.pack(t)


def s_fifo_ref(spec: Spec, wd: Path) -> Trace:
    return s_fifo_run(spec, wd).finish()


def produce_crash(rng: random.Random, wd: Path, tier: str, npoints: int = 5) -> list[dict]:
    """crash family: reference in-order run; kill after k commits of delivery j (points about parents / children first),
    restart, sweep(s) before or after the dead worker's lock lapses, late redelivery of the un-acked row, in-order drain"""
    spec = gen_synth_spec(rng, suspend=False, directed=rng.choice([None, None, "after", "before"]))
    lay = Lay(spec)
    ref = s_fifo_ref(spec, wd)
    ref.tag = "synth/crash-ref"
    ref_out = s_outcome(ref)
    out = [es.pack(ref)]
    points = []
    r0 = SRunner(spec, wd)
    j = 0
    while True:
        p = r0.eligible(True)
        if not p or j > 200:
            break
        rid, code, _ = p[0]
        n = r0.e.count_commits(lambda: r0.e.deliver(rid))
        for k in range(n):
            points.append((j, rid, code, k))
        j += 1
    r0.finish()
    if tier == "thorough":
        chosen = points
    else:
        def interesting(pt) -> bool:
            si = code_stage(pt[2])
            return pt[2].startswith("CP.") or (si is not None and lay.role(si) != "plain")

        hot = [pt for pt in points if interesting(pt)]
        chosen = rng.sample(hot, min(len(hot), npoints - 1))
        rest = [pt for pt in points if pt not in chosen]
        chosen += rng.sample(rest, min(len(rest), npoints - len(chosen)))
    for (j, rid, code, k) in chosen:
        r = SRunner(spec, wd)
        for _ in range(j):
            p = r.eligible(True)
            r.apply(("d", p[0][0]))
        r.apply(("k", rid, k))
        if rng.random() >= 0.6:
            r.e.expire_locks()
        r.apply(("w",))
        if rng.random() < 0.3:
            r.apply(("w",))
        hold = rng.choice([0, 0, 0, 1, 2, 3, 5, 8])
        es.hold_then_expire(r, hold)
        r.drain(None, "fifo")
        t = r.finish()
        t.tag = "synth/crash" if hold == 0 else "synth/crash-late-redelivery"
        t.meta = {"ref": ref_out, "crash_msg": code, "crash_k": k, "crashes": 1, "hold": hold}
        out.append(es.pack(t))
    return out



def _deliver_until(r: SRunner, j: int) -> None:
    for _ in range(j):
        p = r.eligible(True)
        if not p:
            break
        r.apply(("d", p[0][0]))


def produce_c02s(rng: random.Random, wd: Path) -> list[dict]:
    """C02: one workflow (no suspending task: nothing is injected), the in-order reference run, and two crash-free schedules
    of it: random order / redelivery of unacknowledged messages / one row starved / a second worker delivering other messages
    while a task executes"""
    spec = gen_synth_spec(rng, suspend=False, directed=rng.choice([None, None, "after", "before"]))
    ref = s_fifo_ref(spec, wd)
    ref.tag = "synth/c02-fifo"
    ref_out = s_outcome(ref)
    ref.meta = {"fifo_ref": ref_out}
    out = [es.pack(ref)]
    for _ in range(2):
        r = SRunner(spec, wd)
        mode = rng.choice(["rand", "rand", "dup", "dup", "starve"])
        victim = None
        for _step in range(260):
            p = r.eligible(True)
            if not p:
                break
            if mode == "starve":
                if victim is None and rng.random() < 0.25:
                    victim = rng.choice(p)[0]
                if victim is not None and any(x[0] != victim for x in p):
                    p = [x for x in p if x[0] != victim]
                elif victim is not None:
                    victim = None
            rid, rcode = (p[0][0], p[0][1]) if mode == "starve" else (lambda x: (x[0], x[1]))(rng.choice(p))
            others = [x for x in p if x[0] != rid and not (x[1].startswith("RT.") and x[1] == rcode)]
            if rcode.startswith("RT.") and others and rng.random() < 0.2:
                r.apply(("n", rid, [x[0] for x in rng.sample(others, min(len(others), rng.choice([1, 1, 2])))]))
            elif mode == "dup" and rng.random() < 0.25:
                r.apply(("x", rid))
            else:
                r.apply(("d", rid))
        t = r.finish()
        t.tag = f"synth/c02-{mode}"
        t.meta = {"fifo_ref": ref_out}
        out.append(es.pack(t))
    return out


def produce_c10s(rng: random.Random, wd: Path, tier: str) -> list[dict]:
    """C10: a healthy in-order run; one or two sweeps before delivery step j; a sweep by ANOTHER worker right after the k-th
    commit of delivery j (op i<row>.<k>); after a kill, one sweep vs two sweeps in a row"""
    spec = gen_synth_spec(rng, suspend=False, directed=rng.choice([None, "after", "before", "before"]))
    ref = s_fifo_ref(spec, wd)
    ref.tag = "synth/c10-ref"
    ref_out = s_outcome(ref)
    out = [es.pack(ref)]
    steps = len([o for o in ref.ops if o[0] == "d"])
    thorough = tier == "thorough"
    for j in (range(steps + 1) if thorough else rng.sample(range(steps + 1), min(steps + 1, 5))):
        r = SRunner(spec, wd)
        _deliver_until(r, j)
        p = r.eligible(True)
        for _ in range(rng.choice([1, 1, 2])):
            r.apply(("w",))
        r.drain(None, "fifo", max_steps=300)
        t = r.finish()
        t.tag = "synth/c10-sweep"
        t.meta = {"ref": ref_out, "kind": "healthy", "sweep_before": p[0][1] if p else "end"}
        out.append(es.pack(t))
    for j in (range(steps) if thorough else rng.sample(range(steps), min(steps, 5))):
        for k in ((0, 1, 2) if thorough else (rng.choice([1, 1, 2, 0]),)):
            r = SRunner(spec, wd)
            _deliver_until(r, j)
            p = r.eligible(True)
            if not p:
                r.finish()
                continue
            rid, code, _ = p[0]
            r.apply(("i", rid, k))
            r.drain(None, "fifo", max_steps=300)
            t = r.finish()
            if not any(o[0] == "i" for o in t.ops):
                continue
            t.tag = f"synth/c10-sweep-inside@{k}"
            t.meta = {"ref": ref_out, "kind": "healthy", "sweep_before": f"inside@{k}:{code}"}
            out.append(es.pack(t))
    if steps:
        for _ in range(2 if not thorough else 6):
            j, k = rng.randrange(steps), rng.randint(0, 2)
            finals = []
            code = "?"
            for nsweeps in (1, 2):
                r = SRunner(spec, wd)
                _deliver_until(r, j)
                p = r.eligible(True)
                if not p:
                    r.finish()
                    break
                rid, code, _ = p[0]
                r.apply(("k", rid, k))
                for _i in range(nsweeps):
                    r.apply(("w",))
                r.e.expire_locks()
                r.drain(None, "fifo", max_steps=300)
                t = r.finish()
                t.tag = f"synth/c10-crash-sweep{nsweeps}"
                t.meta = {"kind": f"after-crash-{nsweeps}", "crash_msg": code, "crash_k": k, "ref_healthy": ref_out, "sweep_before": code}
                finals.append(t)
            if len(finals) == 2:
                finals[1].meta["ref"] = dict(s_outcome(finals[0]), healthy=True)
                finals[1].meta["ref_ops"] = list(finals[0].ops)      # the reference of this trace is the ONE-sweep run, not the in-order run
                finals[1].meta["kind"] = "after-crash:two-sweeps-vs-one"
                for t in finals:
                    out.append(es.pack(t))
    return out


def produce_c18s(rng: random.Random, wd: Path) -> dict:
    """C18: a CHILD stage (before- or after-stage) whose task suspends k times (script U^k S); m persistent / transient signals
    for it at random moments - before its parent started, before the child itself started (a persistent one is buffered),
    while it runs, after it suspended, or only once nothing else is deliverable; in-order / random / redelivery / kill of the
    signal or of the suspending RunTask followed by restart + sweep + late redelivery"""
    n = rng.choice([1, 1, 2])
    stages = []
    for i in range(n):
        stages.append(StageSpec(reqs=([i - 1] if i and rng.random() < 0.6 else []), tasks=[["S"] for _ in range(rng.choice([0, 1, 1, 2]))]))
    par = rng.randrange(n)
    own = rng.choice(["B", "A"])
    k = rng.choice([1, 1, 2])
    kids = [{"owner": own, "tasks": [["U"] * k + ["S"]]}]
    if rng.random() < 0.5:
        kids.insert(rng.randrange(2), {"owner": own, "tasks": [list(rng.choice([["S"], ["S"], ["R", "S"]]))]})     # a sibling of the waiting child
    if rng.random() < 0.4:
        kids.append({"owner": "A" if own == "B" else "B", "tasks": [["S"]]})
    stages[par].synth = sorted(kids, key=lambda c: c["owner"] != "B")
    same = [j for j, c in enumerate(stages[par].synth) if c["owner"] == own]
    if len(same) == 2 and rng.random() < 0.35:
        stages[par].synth[same[1]]["req"] = same[0]        # a chain: the second child of that kind waits for the first
    if own == "A" and not stages[par].tasks and rng.random() < 0.5:
        stages[par].tasks = [["S"]]
    spec = Spec(stages)
    lay = Lay(spec)
    tgt = next(i for i in range(lay.n, lay.total) if "U" in lay.scripts(i)[0])
    r = SRunner(spec, wd)
    mode = rng.choice(["fifo", "rand", "dup", "crash"])
    nsig = rng.choice([0, 1, 1, 2, 3]) if mode != "crash" else rng.choice([1, 1, 2, 3])
    sig_at = sorted(rng.choice([rng.randint(0, 12), rng.randint(0, 45), 10 ** 6]) for _ in range(nsig))     # 10**6 = only at quiescence
    step = 0
    for _ in range(300):
        while sig_at and sig_at[0] <= step:
            sig_at.pop(0)
            r.apply(("g", tgt, rng.random() < 0.7))
        p = r.eligible(True)
        if not p:
            if sig_at:
                step = sig_at[0]
                continue
            break
        rid, code = (p[0][0], p[0][1]) if mode in ("fifo", "crash") else (lambda x: (x[0], x[1]))(rng.choice(p))
        if mode == "dup" and rng.random() < 0.15:
            r.apply(("x", rid))
        elif mode == "crash" and (code.startswith("SG.") or code.startswith(f"RT.{tgt}.")) and rng.random() < 0.5:
            r.apply(("k", rid, rng.choice([0, 1, 1, 2])))
            r.apply(("w",))
            es.hold_then_expire(r, rng.choice([0, 0, 1, 2]))
        else:
            r.apply(("d", rid))
        step += 1
    t = r.finish()
    t.tag = f"synth/c18-{mode}:{'before' if own == 'B' else 'after'}-stage"
    t.meta = {"signal_stage": tgt, "signal_task": 0, "suspends": k}
    return es.pack(t)


def gen_pause_spec(rng: random.Random, prop: str) -> tuple[Spec, dict]:
    """workloads of the pause / resume dimension: plain workflows (engine_suites.gen_spec family w0: AND DAG, outcomes S T F R E X,
    sometimes one suspending task) AND synthetic-stage ones; for C18 the signal workloads (one suspending target: a top-level
    stage as in produce_c18, or a child as in produce_c18s)"""
    meta: dict = {}
    if prop == "C18":
        if rng.random() < 0.5:
            n = rng.randint(1, 3)
            tgt = rng.randrange(n)
            stages = [StageSpec(reqs=sorted(rng.sample(range(i), min(rng.choice([0, 1, 1]), i))), tasks=[["S"] for _ in range(rng.choice([1, 1, 2]))]) for i in range(n)]
            k = rng.choice([1, 1, 2])
            ti = rng.randrange(len(stages[tgt].tasks))
            stages[tgt].tasks[ti] = ["U"] * k + ["S"]
            return Spec(stages), {"signal_stage": tgt, "signal_task": ti, "suspends": k}
        n = rng.choice([1, 1, 2])
        stages = [StageSpec(reqs=([i - 1] if i and rng.random() < 0.6 else []), tasks=[["S"] for _ in range(rng.choice([0, 1, 1]))]) for i in range(n)]
        par, own, k = rng.randrange(n), rng.choice(["B", "A"]), rng.choice([1, 1, 2])
        kids = [{"owner": own, "tasks": [["U"] * k + ["S"]]}]
        if rng.random() < 0.4:
            kids.append({"owner": own, "tasks": [["S"]]})
        stages[par].synth = kids
        spec = Spec(stages)
        return spec, {"signal_stage": len(stages), "signal_task": 0, "suspends": k}
    if rng.random() < 0.5:
        spec = es.gen_spec(rng, "w0")
        for st in spec.stages:
            st.enabled = None if st.enabled is False and rng.random() < 0.7 else st.enabled
        if rng.random() < 0.35:
            st = rng.choice(spec.stages)
            st.tasks[rng.randrange(len(st.tasks))] = ["U", "S"]
        return spec, meta
    return gen_synth_spec(rng, suspend=True, directed=rng.choice([None, None, "after", "before"])), meta


def produce_pause(prop: str, rng: random.Random, wd: Path) -> dict:
    """One trace of the pause / resume dimension.  Ops: p = store.pause (only while the workflow is RUNNING), u = Orchestrator.unpause,
    r = store.resume; injected at random steps into the schedule modes fifo | rand | dup | starve, combined with a cancel (always
    for C17; often issued together with the un-pause), signals for suspending tasks (C18: for the target, also while paused), and
    redelivery.  With probability 0.2 nobody un-pauses (the workflow may stay PAUSED: explicitly waiting); otherwise the operator
    keeps at it until nothing is paused (settle_pause)."""
    spec, meta = gen_pause_spec(rng, prop)
    lay = Lay(spec)
    r = SRunner(spec, wd)
    mode = rng.choice(["fifo", "rand", "rand", "dup", "starve"])
    tgt = meta.get("signal_stage")
    susp = [i for i, sc in lay.all_scripts() if "U" in sc]
    pause_at = rng.randint(1, 8 + 3 * lay.total)
    second_pause = rng.random() < 0.15
    will_unpause = rng.random() >= 0.2
    unpause_after = rng.choice([0, 1, 2, 3, 5, 8, 10 ** 6])          # deliveries between pause and un-pause; 10**6 = at quiescence only
    cancel_mode = None
    if prop == "C17" or rng.random() < (0.35 if prop in ("C06", "C05") else 0.1):
        cancel_mode = rng.choice(["with-unpause", "with-unpause", "while-paused", "random"])
    cancel_at = rng.randint(0, 10 + 4 * lay.total) if cancel_mode == "random" else None
    nsig = 0 if tgt is None else rng.choice([1, 1, 2, 3])
    sig_plan = [rng.choice(["early", "while-paused", "while-paused", "late"]) for _ in range(nsig)]
    paused_since = None
    unpaused = False
    victim = None
    step = 0
    canceled = False

    def wf_status() -> str:
        return r.t.lines[-1].split(";")[0].split("=")[1].split(",")[0]

    def send_signals(kind: str) -> None:
        for x in [x for x in sig_plan if x == kind]:
            sig_plan.remove(x)
            r.apply(("g", tgt, rng.random() < 0.7))

    for _ in range(300):
        st = wf_status()
        if paused_since is None and pause_at is not None and step >= pause_at and st == "RUNNING":
            if tgt is not None and rng.random() < 0.5 and parse_line(r.t.lines[-1])["stages"][tgt]["status"] != "SUSPENDED" and r.eligible(True):
                pause_at += 1                       # C18: prefer to pause once the target is suspended
            else:
                r.apply(("p",))
                paused_since = step
                pause_at = (step + rng.randint(3, 12)) if second_pause else None
                second_pause = False
                send_signals("while-paused")
                if cancel_mode == "while-paused" and not canceled:
                    r.apply(("c",))
                    canceled = True
        if tgt is not None and "early" in sig_plan and step >= 2:
            send_signals("early")
        if cancel_at is not None and step >= cancel_at and not canceled:
            r.apply(("c",))
            canceled = True
        if paused_since is not None and will_unpause and step - paused_since >= unpause_after:
            if cancel_mode == "with-unpause" and not canceled:
                # an operator cancels while another one un-pauses
                for o in rng.sample(["c", "u"], 2):
                    r.apply((o,))
                canceled = True
            else:
                r.apply(("u",))
            unpaused = True
            paused_since = None
        p = r.eligible(True)
        if not p:
            if paused_since is not None and will_unpause:
                unpause_after = 0
                continue
            if sig_plan and tgt is not None:
                send_signals(sig_plan[0])
                continue
            if susp and tgt is None and any(x["status"] == "SUSPENDED" for x in parse_line(r.t.lines[-1])["stages"]) and rng.random() < 0.8:
                w_ = [i for i, x in enumerate(parse_line(r.t.lines[-1])["stages"]) if x["status"] == "SUSPENDED"]
                r.apply(("g", w_[0], rng.random() < 0.5))
                continue
            if unpaused:
                before = len(r.t.ops)
                settle_pause(r, rng if mode in ("rand", "dup") else None, "rand" if mode in ("rand", "dup") else "fifo")
                if len(r.t.ops) > before:
                    continue
            break
        if mode == "starve":
            if victim is None and rng.random() < 0.2:
                victim = rng.choice(p)[0]
            if victim is not None and any(x[0] != victim for x in p):
                p = [x for x in p if x[0] != victim]
            elif victim is not None:
                victim = None
        rid = p[0][0] if mode in ("fifo", "starve") else rng.choice(p)[0]
        if mode == "dup" and rng.random() < 0.2:
            r.apply(("x", rid))
        else:
            r.apply(("d", rid))
        step += 1
    late_pause = False
    if prop == "C06" and rng.random() < 0.3 and parse_line(r.t.lines[-1])["wf"] in COMPLETE:
        # an operator pauses (and maybe resumes) a workflow that has ALREADY reached a final status
        late_pause = True
        r.apply(("p",))
        if rng.random() < 0.6:
            r.apply(("r",))
        r.drain(None, "fifo", max_steps=50)
    t = r.finish()
    kinds = "".join(k_ for k_ in "pur" if k_ in t.ops)
    t.tag = (f"pause/{'synth' if lay.kids else 'plain'}/{mode}" + ("+cancel" if "c" in t.ops else "") + ("+signal" if any(o[0] == "g" for o in t.ops) else "")
             + ("" if "p" in t.ops else ":never-paused") + ("" if unpaused or "p" not in t.ops else ":nobody-unpaused") + (":pause-after-final" if late_pause else ""))
    del kinds
    t.meta = dict(meta, pause={"unpaused": unpaused or "p" not in t.ops})
    t.respecting = True
    return es.pack(t)


def produce_pause_parked(prop: str, rng: random.Random, wd: Path) -> dict:
    """Directed member of the pause dimension: 2-3 parallel stages are all PARKED (pause while their RunTask rows are queued;
    RunTask -> PauseTask -> stage and task PAUSED), then the operators act - un-pause, or cancel and un-pause at about the same
    time - and everything is delivered in random order (with redelivery): the CancelStage / ResumeStage / CompleteWorkflow
    races on parked stages."""
    n = rng.choice([2, 2, 3])
    stages = [StageSpec(tasks=[["S"] for _ in range(rng.choice([1, 1, 2]))]) for _ in range(n)]
    if rng.random() < 0.3:
        stages.append(StageSpec(reqs=list(range(n)), tasks=[["S"]]))
    if rng.random() < 0.3:
        stages[0].synth = [{"owner": rng.choice(["B", "A"]), "tasks": [["S"]]}]
    spec = Spec(stages)
    lay = Lay(spec)
    r = SRunner(spec, wd)
    for _ in range(80):
        non_rt = [x for x in r.eligible(True) if not x[1].startswith("RT.")]
        if not non_rt:
            break
        r.apply(("d", non_rt[0][0]))
    if parse_line(r.t.lines[-1])["wf"] == "RUNNING":
        r.apply(("p",))
    for _ in range(40):
        park = [x for x in r.eligible(True) if x[1].startswith(("RT.", "PT."))]
        if not park or rng.random() < 0.08:
            break
        r.apply(("d", rng.choice(park)[0]))
    acts = rng.choice([["u"], ["c", "u"], ["u", "c"], ["c", "u"], ["u", "c"]]) if prop != "C17" else rng.choice([["c", "u"], ["u", "c"], ["c"]])
    for o in acts:
        r.apply((o,))
    dup = rng.random() < 0.3
    for _ in range(300):
        p = r.eligible(True)
        if not p:
            before = len(r.t.ops)
            if "u" in acts:
                settle_pause(r, rng, "rand")
            if len(r.t.ops) == before:
                break
            continue
        rid = rng.choice(p)[0]
        r.apply(("x" if dup and rng.random() < 0.15 else "d", rid))
    t = r.finish()
    t.tag = f"pause/parked/{'synth' if lay.kids else 'plain'}/rand" + ("+cancel" if "c" in t.ops else "") + ("" if "u" in acts else ":nobody-unpaused")
    t.meta = {"pause": {"unpaused": "u" in acts}}
    t.respecting = True
    return es.pack(t)


def produce_restart(prop: str, rng: random.Random, wd: Path) -> dict:
    """Operator restart dimension: plain (gen_spec w0 / w1, no jumps, no suspend) and synthetic-stage workflows; run to the drain
    (70 %) or for k random steps, then 1-2 restarts (op R<i> = Orchestrator.restart) of a random COMPLETED top-level stage -
    sometimes of a stage that is not completed (must be ignored) -, sometimes a cancel before / after (a restart inside a
    canceled workflow must be refused), a few deliveries between the restarts, then a fifo | random drain."""
    if rng.random() < 0.5:
        spec = es.gen_spec(rng, rng.choice(["w0", "w1", "w1"]))
    else:
        spec = gen_synth_spec(rng, suspend=False, directed=rng.choice([None, None, "after", "before"]))
    lay = Lay(spec)
    r = SRunner(spec, wd)
    mode = rng.choice(["fifo", "rand"])
    prng = rng if mode == "rand" else None
    k = None if rng.random() < 0.7 else rng.randint(0, 25)
    cancel = rng.choice([None, None, None, "before", "after"])

    def some(nsteps: int | None) -> None:
        for _ in range(300 if nsteps is None else nsteps):
            p = r.eligible(True)
            if not p:
                return
            r.apply(("d", (rng.choice(p) if prng else p[0])[0]))

    some(k)
    if cancel == "before":
        r.apply(("c",))
        some(rng.choice([0, 2, None]))
    kinds = []
    for _ in range(rng.choice([1, 1, 2])):
        fin = parse_line(r.t.lines[-1])
        done = [i for i in range(lay.n) if fin["stages"][i]["status"] in COMPLETE]
        other = [i for i in range(lay.n) if i not in done]
        if other and (not done or rng.random() < 0.15):
            i = rng.choice(other)
            kinds.append("unfinished")
        else:
            i = rng.choice(done)
            kinds.append("finished-wf" if fin["wf"] in COMPLETE else "running-wf")
        r.apply(("R", i))
        if rng.random() < 0.3:
            some(rng.randint(1, 6))
    if cancel == "after":
        r.apply(("c",))
    some(None)
    t = r.finish()
    t.tag = f"restart/{'synth' if lay.kids else 'plain'}/{mode}/{'+'.join(kinds)}" + (f"+cancel-{cancel}" if cancel else "")
    t.meta = {"restart": True}
    t.respecting = True
    return es.pack(t)


def _worker(args) -> dict:
    prop, seed, count, tier = args
    core.ensure_repo_on_path()
    import logging

    logging.disable(logging.CRITICAL)
    rng = random.Random(f"synth:{prop}:{seed}")
    wd = core.scratch_dir()
    out = []
    try:
        for j in range(count):
            try:
                if prop.endswith(":restart"):
                    out.append(produce_restart(prop.split(":")[0], rng, wd))
                elif prop.endswith(":pause"):
                    base = prop.split(":")[0]
                    out.append(produce_pause_parked(base, rng, wd) if (base != "C18" and j % 3 == 2) else produce_pause(base, rng, wd))
                elif prop == "C02":
                    out.extend(produce_c02s(rng, wd))
                elif prop == "C10":
                    out.extend(produce_c10s(rng, wd, tier))
                elif prop == "C18":
                    out.append(produce_c18s(rng, wd))
                elif prop == "C01" or (prop == "C05" and j % 4 == 3):
                    # every kill point per workflow only in C01's thorough tier; C05 samples 3 (quick) / 8 (thorough)
                    out.extend(produce_crash(rng, wd, tier if prop == "C01" else "quick",
                                             npoints=5 if prop == "C01" else (8 if tier == "thorough" else 3)))
                else:
                    out.append(produce_sched(prop, rng, wd))
            except Exception:
                out.append({"error": traceback.format_exc()})
    finally:
        shutil.rmtree(wd, ignore_errors=True)
    return {"traces": out}


# --------------------------------------------------------------------------------------
# check-side: run, report, shrink, replay
# --------------------------------------------------------------------------------------

def _signatures(t: Trace, mons) -> list[tuple[str, str, str]]:
    """(monitor name, signature, description); when the parent / child nesting order was broken earlier in the trace (so far
    only recovery sweeps do that) every hit of that trace names it: `<sig>@<order violation>`"""
    out = []
    ov = None
    for m in mons:
        if not t.respecting and m.__name__ in S_OUTCOME:
            continue
        for sig, what in m(t):
            if ov is None:
                ov = order_violations(t, Lay(t.spec))
                if t.meta.get("pause") is not None:
                    ov = ov + dead_letters(t)        # pause dimension: a message lost to the DLQ explains what follows
            if ov and ov[0][0] not in sig and ":restarted-" not in sig:
                sig, what = f"{sig}@{ov[0][0]}", f"{what} [earlier in this trace: {ov[0][1]}]"
            out.append((m.__name__, sig, what))
    return out


def s_replay_trace(spec: Spec, ops: list[str], wd: Path, meta: dict | None = None, respecting: bool = True, fresh_ref: bool = False) -> Trace:
    r = SRunner(spec, wd)
    for o in ops:
        s_apply_str(r, o)
    t = r.finish()
    t.meta = fresh_meta(spec, meta or {}, wd) if fresh_ref else dict(meta or {})
    t.respecting = respecting
    return t


_FIFO_CACHE: dict[str, dict] = {}


def fresh_meta(spec: Spec, meta: dict, wd: Path) -> dict:
    """the reference outcomes of a trace recomputed ON THE TREE UNDER TEST: the in-order run (`ref`, `fifo_ref`, `ref_healthy`),
    or the run named by `ref_ops` (C10: the one-sweep run a two-sweep run is compared with)"""
    m = dict(meta)
    if not any(k_ in m for k_ in ("ref", "fifo_ref", "ref_healthy")):
        return m
    key = core.repo_root().as_posix() + json.dumps(spec.to_json(), sort_keys=True)
    if key not in _FIFO_CACHE:
        if len(_FIFO_CACHE) > 400:
            _FIFO_CACHE.clear()
        _FIFO_CACHE[key] = s_outcome(s_fifo_ref(spec, wd))
    fifo = _FIFO_CACHE[key]
    if "ref_ops" in m:
        r = SRunner(spec, wd)
        for o in m["ref_ops"]:
            s_apply_str(r, o)
        m["ref"] = dict(s_outcome(r.finish()), healthy=True)
    elif "ref" in m:
        m["ref"] = fifo
    if "fifo_ref" in m:
        m["fifo_ref"] = fifo
    if "ref_healthy" in m:
        m["ref_healthy"] = fifo
    return m


# ---- minimisation -------------------------------------------------------------------
# Row ids shift as soon as an op that pushes something is removed, so the recorded op list cannot be delta-debugged directly.
# Ops are therefore made SYMBOLIC ("deliver the oldest pending row whose message code is X"), the candidate is executed, whatever
# is left is drained in order (budget-respecting), and the CONCRETE op list of that run is what goes into the replay file.  The
# property quantifies over every schedule, so "short prefix + in-order drain" is as good a witness as the random one found.

def sym_ops(t: Trace) -> list[tuple]:
    out = []
    for k, o in enumerate(t.ops):
        kind = o[0]
        if kind in "dx":
            out.append((kind, t.op_msg[k]))
        elif kind in "ki":
            out.append((kind, t.op_msg[k], int(o.split(".")[1])))
        elif kind == "n":
            out.append(("n", t.op_msg[k], tuple(t.op_inner[k])))
        elif kind == "g":
            a, b = o[1:].split(".")
            out.append(("g", int(a), b == "1"))
        elif kind == "R":
            out.append(("R", int(o[1:])))
        elif kind in "cwqpur":
            out.append((kind,))
    return out


def settle_pause(r: SRunner, rng: random.Random | None = None, mode: str = "fifo") -> None:
    """The operator who asked for the un-pause keeps at it (the idiom of the repo's demos / tests): while the workflow or a stage
    is still PAUSED at quiescence: Orchestrator.unpause (one ResumeStage per stage parked by now), drain; if the workflow row is
    still PAUSED with nothing parked: store.resume, drain.  At most three rounds."""
    for _ in range(3):
        if r.pending():
            r.drain(rng, mode, max_steps=300)
        fin = parse_line(r.t.lines[-1])
        if r.pending() or fin["wf"] in COMPLETE:
            return
        parked = any(x["status"] == "PAUSED" for x in fin["stages"])
        if fin["wf"] != "PAUSED" and not parked:
            return
        if parked:
            r.apply(("u",))
            r.drain(rng, mode, max_steps=300)
            fin = parse_line(r.t.lines[-1])
        if fin["wf"] == "PAUSED" and not r.pending() and not any(x["status"] == "PAUSED" for x in fin["stages"]):
            r.apply(("r",))
            r.drain(rng, mode, max_steps=300)


def run_sym(spec: Spec, ops: list[tuple], wd: Path, drain: bool = True, settle: bool = False) -> tuple[Trace, int]:
    """execute symbolic ops (an op whose message is not pending is skipped), then drain in order; returns (trace, number of
    concrete ops that came from `ops`); `settle`: the trace belongs to the pause family and an un-pause was requested, so the
    drain includes the operator's settle loop (settle_pause)"""
    r = SRunner(spec, wd)

    def find(code):
        return next((i for i, c, _ in r.e.pending() if c == code), None)

    early = False

    def note(rid) -> None:
        # the recorded schedule hands out a DELAYED row (wait re-poll, delayed CompleteWorkflow ...) while rows without a delay
        # are pending: on THIS tree the schedule is not budget-respecting (the row may have had no delay on the tree it was
        # recorded on), so the outcome monitors must not judge it - exactly as for generated traces (Runner.eligible)
        nonlocal early
        if rid is not None and rid in r.e.delayed_ids() and any(i not in r.e.delayed_ids() for i, _, _ in r.e.pending()):
            early = True

    for op in ops:
        kind = op[0]
        if kind in ("d", "x", "k", "i", "n"):
            note(find(op[1]))
        if kind in ("d", "x"):
            rid = find(op[1])
            if rid is not None:
                r.apply((kind, rid))
        elif kind in ("k", "i"):
            rid = find(op[1])
            if rid is not None:
                r.apply((kind, rid, op[2]))
        elif kind == "n":
            rid = find(op[1])
            inner = [x for x in (find(c) for c in op[2]) if x is not None and x != rid]
            if rid is not None:
                r.apply(("n", rid, inner) if inner else ("d", rid))
        elif kind == "g":
            if op[1] < len(r.e.stage_ids):
                r.apply(("g", op[1], op[2]))
        elif kind == "R":
            if op[1] < len(r.e.stage_ids):
                r.apply(("R", op[1]))
        else:
            r.apply((kind,))
    nprefix = len(r.t.ops)
    if drain:
        r.e.expire_locks()
        r.drain(None, "fifo", max_steps=300)
        if settle:
            settle_pause(r)
    t_ = r.finish()
    t_.early_delayed = early
    return t_, nprefix


def _remap_code(code: str | None, m: dict[int, int | None]) -> str | None:
    if not code:
        return code
    f = code.split(".")
    if f[0] in ("SW", "XW", "CW") or len(f) < 2 or not f[1].isdigit():
        return code
    new = m.get(int(f[1]), int(f[1]))
    if new is None:
        return None
    f[1] = str(new)
    return ".".join(f)


def _remap_ops(ops: list[tuple], m: dict[int, int | None]) -> list[tuple]:
    out = []
    for op in ops:
        if op[0] in ("d", "x", "k", "i"):
            c = _remap_code(op[1], m)
            if c is not None:
                out.append((op[0], c) + tuple(op[2:]))
        elif op[0] == "n":
            c = _remap_code(op[1], m)
            if c is not None:
                out.append(("n", c, tuple(x for x in (_remap_code(i, m) for i in op[2]) if x is not None)))
        elif op[0] == "g":
            new = m.get(op[1], op[1])
            if new is not None:
                out.append(("g", new, op[2]))
        elif op[0] == "R":
            new = m.get(op[1], op[1])
            if new is not None:
                out.append(("R", new))
        else:
            out.append(op)
    return out


def _spec_variants(spec: Spec):
    """simpler specs, each with the stage-index mapping old -> new (None = gone)"""
    import copy

    lay = Lay(spec)
    ident = {i: i for i in range(lay.total)}
    # drop a child (last first)
    for c in range(len(lay.kids) - 1, -1, -1):
        sp = copy.deepcopy(spec)
        par = lay.kids[c][0]
        nth = sum(1 for cc in range(c) if lay.kids[cc][0] == par)
        del sp.stages[par].synth[nth]
        for ch in sp.stages[par].synth:
            if ch.get("req") is not None:
                if ch["req"] == nth:
                    del ch["req"]
                elif ch["req"] > nth:
                    ch["req"] -= 1
        if not sp.stages[par].synth:
            sp.stages[par].synth = None
        m = dict(ident)
        m[lay.n + c] = None
        for i in range(lay.n + c + 1, lay.total):
            m[i] = i - 1
        yield sp, m
    # drop a top-level stage (with its children); stages that depended on it lose that upstream
    for i in sorted(range(lay.n), key=lambda j: (any(j in st.reqs for st in spec.stages), -j)):
        if lay.n == 1:
            continue
        sp = copy.deepcopy(spec)
        del sp.stages[i]
        for st in sp.stages:
            st.reqs = [u - 1 if u > i else u for u in st.reqs if u != i]
        m = {}
        gone = {i} | set(lay.children_of(i))
        new_top = [j for j in range(lay.n) if j != i]
        new_kids = [j for j in range(lay.n, lay.total) if j not in gone]
        for j in range(lay.total):
            m[j] = None if j in gone else (new_top + new_kids).index(j)
        yield sp, m
    # simpler scripts / fewer tasks / no continue-on-failure
    for i in range(lay.n):
        for j, sc in enumerate(spec.stages[i].tasks):
            if sc != ["S"]:
                sp = copy.deepcopy(spec)
                sp.stages[i].tasks[j] = ["S"]
                yield sp, ident
        if len(spec.stages[i].tasks) > 1:
            sp = copy.deepcopy(spec)
            sp.stages[i].tasks = sp.stages[i].tasks[:1]
            yield sp, ident
        for c, ch in enumerate(spec.stages[i].synth or []):
            if ch["tasks"] != [["S"]]:
                sp = copy.deepcopy(spec)
                sp.stages[i].synth[c]["tasks"] = [["S"]]
                yield sp, ident
            if ch.get("req") is not None:
                sp = copy.deepcopy(spec)
                del sp.stages[i].synth[c]["req"]
                yield sp, ident
        if spec.stages[i].cont:
            sp = copy.deepcopy(spec)
            sp.stages[i].cont = False
            yield sp, ident


def s_shrink(t: Trace, mon, sig: str, wd: Path, budget: int = 200) -> dict | None:
    """returns {"spec", "ops" (concrete, replayable), "essential" (how many leading ops are the schedule; the rest is the
    in-order drain), "meta"} for a smaller input with the same signature, or None when not even the symbolic re-run of the
    original reproduces it (then the original op list is reported as it is)"""
    tries = [0]
    meta0 = dict(t.meta)

    def attempt(spec: Spec, ops: list[tuple], meta: dict):
        tries[0] += 1
        try:
            tt, npre = run_sym(spec, ops, wd, settle=bool((meta.get("pause") or {}).get("unpaused")))
            tt.meta = fresh_meta(spec, meta, wd)
            tt.respecting = t.respecting
            ok = any(s_ == sig for _, s_, _ in _signatures(tt, [mon]))
        except Exception:
            return None
        return (tt, npre) if ok else None

    if "ref_ops" in meta0:
        return None          # compared with another concrete run of the same workflow: reported as found
    spec, ops, meta = t.spec, sym_ops(t), meta0
    best = attempt(spec, ops, meta)
    if best is None:
        return None

    def ddmin(spec, ops, meta, best):
        n = 2
        while len(ops) >= 1 and tries[0] < budget:
            chunk = max(1, len(ops) // n)
            reduced = False
            for i in range(0, len(ops), chunk):
                cand = ops[:i] + ops[i + chunk:]
                got = attempt(spec, cand, meta)
                if got is not None:
                    ops, best, n, reduced = cand, got, max(n - 1, 2), True
                    break
                if tries[0] >= budget:
                    break
            if not reduced:
                if chunk == 1:
                    break
                n = min(len(ops), n * 2)
        return ops, best

    def simplify_spec(spec, ops, meta, best, cap):
        progress = True
        while progress and tries[0] < cap:
            progress = False
            for sp, m in _spec_variants(spec):
                if tries[0] >= cap:
                    break
                new_meta = dict(meta)
                if meta.get("crash_msg"):
                    new_meta["crash_msg"] = _remap_code(meta["crash_msg"], m) or meta["crash_msg"]
                if meta.get("signal_stage") is not None:
                    if m.get(meta["signal_stage"], meta["signal_stage"]) is None:
                        continue                 # the signalled stage itself cannot be dropped
                    new_meta["signal_stage"] = m.get(meta["signal_stage"], meta["signal_stage"])
                if meta.get("sweep_before") and ":" not in meta["sweep_before"]:
                    new_meta["sweep_before"] = _remap_code(meta["sweep_before"], m) or meta["sweep_before"]
                got = attempt(sp, _remap_ops(ops, m), new_meta)
                if got is not None:
                    spec, ops, meta, best, progress = sp, _remap_ops(ops, m), new_meta, got, True
                    break
        return spec, ops, meta, best

    # 1. the tail first: most schedules only need a short prefix before the in-order drain; candidate cut points are the
    #    positions right after an injected / non-plain op and a coarse grid in between
    cuts = sorted({0} | {k + 1 for k, o in enumerate(ops) if o[0] != "d"} | set(range(0, len(ops), 5)))
    for cut in cuts[:30]:
        got = attempt(spec, ops[:cut], meta)
        if got is not None:
            ops, best = ops[:cut], got
            break
    # 2. the workflow, 3. the schedule, 4. the workflow once more
    spec, ops, meta, best = simplify_spec(spec, ops, meta, best, budget * 2 // 3)
    ops, best = ddmin(spec, ops, meta, best)
    spec, ops, meta, best = simplify_spec(spec, ops, meta, best, budget + 20)
    tt, npre = best
    return {"spec": spec, "ops": tt.ops, "sym": ops, "essential": npre, "meta": {k: v for k, v in tt.meta.items()}, "tries": tries[0]}


def sym_to_json(ops: list[tuple]) -> list[list]:
    return [[*op[:2], list(op[2])] if op[0] == "n" else list(op) for op in ops]


def sym_from_json(ops: list[list]) -> list[tuple]:
    return [(op[0], op[1], tuple(op[2])) if op[0] == "n" else tuple(op) for op in ops]


def run_witness(rp: dict, wd: Path) -> Trace:
    """Re-run a recorded input on the tree under test.  A witness is "schedule, then in-order budget-respecting drain"; the
    schedule is symbolic (`sym`: deliver the oldest pending row with message code X, ...) because row ids differ between
    trees.  Older files without `sym`: the concrete ops of the schedule prefix as far as they still name a pending row."""
    spec = Spec.from_json(rp["spec"])
    if rp.get("exact"):
        return s_replay_trace(spec, rp["ops"], wd, rp.get("meta"), rp.get("respecting", True), fresh_ref=True)
    if rp.get("sym") is not None:
        t, _ = run_sym(spec, sym_from_json(rp["sym"]), wd, settle=bool(((rp.get("meta") or {}).get("pause") or {}).get("unpaused")))
    else:
        r = SRunner(spec, wd)
        m_ = re.match(r"ops\[:(\d+)\]", rp.get("schedule_then_in_order_drain") or "")
        for o in (rp["ops"][:int(m_.group(1))] if m_ else rp["ops"]):
            if o[0] in "dxkin" and int(re.match(r"[dxkin](\d+)", o).group(1)) not in {i for i, _, _ in r.e.pending()}:
                continue
            s_apply_str(r, o)
        r.e.expire_locks()
        r.drain(None, "fifo", max_steps=300)
        t = r.finish()
    t.meta = fresh_meta(spec, rp.get("meta") or {}, wd)
    t.respecting = rp.get("respecting", True) and not getattr(t, "early_delayed", False)
    return t


def witness_family(rp: dict) -> str:
    meta = rp.get("meta") or {}
    return "restart" if meta.get("restart") else "pause" if meta.get("pause") is not None else "synth"


def pending(sig: str) -> bool:
    from fnmatch import fnmatchcase

    return any(fnmatchcase(sig, p) for p in PENDING)


def corpus(prop: str, family: str = "synth") -> list[Trace]:
    """committed witnesses replays/<prop>/*.json with `kind_synth` (minimised inputs of repaired findings) that belong to
    `family` (each family has its own monitors: a restart witness judged by the synthetic-stage transition monitor would be a
    false alarm): re-run first on every check, with the reference outcomes recomputed on the tree under test"""
    out = []
    d = core.VERIF / "replays" / prop
    if not d.is_dir():
        return out
    wd = core.scratch_dir()
    try:
        for f in sorted(d.glob("*.json")):
            body = json.loads(f.read_text())
            rp = body.get("replay") or body
            if not (isinstance(rp, dict) and rp.get("kind_synth")) or witness_family(rp) != family:
                continue
            t = run_witness(rp, wd)
            t.tag = f"{family}/corpus:" + f.stem[:40]
            out.append(t)
    finally:
        shutil.rmtree(wd, ignore_errors=True)
    return out


def run_for(ctx, prop: str, family: str = "synth") -> None:
    """the synthetic-stage family (family="synth") or the pause / resume dimension (family="pause") for `prop`: produce traces in
    worker processes, apply the monitors, report"""
    import logging
    import time

    t0 = time.time()
    logging.disable(logging.CRITICAL)
    if family == "pause":
        total = {"C06": ctx.n(640, 3200), "C05": ctx.n(640, 3200), "C17": ctx.n(640, 3200), "C18": ctx.n(640, 3200)}[prop]
    elif family == "restart":
        total = {"C06": ctx.n(480, 2400), "C05": ctx.n(480, 2400)}[prop]
    else:
        total = {"C05": ctx.n(480, 1600), "C17": ctx.n(480, 3200), "C01": ctx.n(64, 64),
                 "C02": ctx.n(128, 800), "C10": ctx.n(40, 64), "C18": ctx.n(480, 3200)}[prop]
    nproc = min(16, max(1, os.cpu_count() or 1))
    per = max(1, total // nproc)
    jobs = [(prop + ("" if family == "synth" else ":" + family), f"{ctx.seed}:{i}", per, ctx.tier) for i in range(nproc)]
    traces: list[Trace] = []
    errors = []
    with ProcessPoolExecutor(max_workers=nproc) as ex:
        for res in ex.map(_worker, jobs):
            for d in res["traces"]:
                if "error" in d:
                    errors.append(d["error"])
                else:
                    traces.append(es.unpack(d))
    if errors:
        raise core.Infra("synthetic-stage trace production failed: " + errors[0][-1500:])
    traces = corpus(prop, family) + traces
    consume(ctx, prop, traces, family)
    fam = ctx.extra.setdefault({"synth": "synthetic_stage_family", "pause": "pause_resume_dimension", "restart": "restart_dimension"}[family],
                               {"model": "none (implementation-only monitors)", "traces": 0, "per_mode": {}, "wall_s": 0.0})
    fam["traces"] += len(traces)
    for t in traces:
        mode = t.tag.split("/", 1)[-1].split(":")[0]
        fam["per_mode"][mode] = fam["per_mode"].get(mode, 0) + 1
    fam["wall_s"] = round(fam["wall_s"] + time.time() - t0, 1)
    fam["monitors"] = [m.__name__ for m in monitors_for(prop, family)]
    fam["pending_signature_patterns_not_reported"] = [] if os.environ.get("VERIF_SYNTH_PENDING") == "1" else list(PENDING)


def consume(ctx, prop: str, traces: list[Trace], family: str = "synth") -> None:
    mons = monitors_for(prop, family)
    pfx = family if family in ("pause", "restart") else "synth"
    report_pending = os.environ.get("VERIF_SYNTH_PENDING") == "1"
    wd = None
    seen_pending: Counter = Counter()
    for t in traces:
        lay = Lay(t.spec)
        nontrivial = len(t.ops) >= 8 and (any(o[0] != "d" for o in t.ops) or t.ops != sorted(t.ops, key=lambda o: int(o[1:]) if o[1:].isdigit() else 0))
        ctx.count([pfx, t.spec.to_json(), t.ops], nontrivial=nontrivial)
        if family == "restart":
            ctx.tag("model-free:restart", "restart:sched:" + t.tag.split("/", 1)[-1], "restart:wf:" + t.final()["wf"], "restart:quiesced" if t.quiesced else "restart:cut")
            for k_ in range(len(t.ops)):
                if (t.op_msg[k_] or "").startswith("RR."):
                    ctx.tag("restart:RestartStage:" + ("applied" if t.audit_len[k_ + 1] > t.audit_len[k_] else "ignored-or-refused"))
        elif family == "pause":
            ctx.tag("model-free:pause-resume", "pause:sched:" + t.tag.split("/", 1)[-1], "pause:wf:" + t.final()["wf"],
                    "pause:quiesced" if t.quiesced else "pause:cut")
            for o in set(x for x in t.ops if x in ("p", "u", "r", "c")):
                ctx.tag("pause:op:" + o)
            for k_ in range(1, len(t.lines)):
                if t.ops[k_ - 1][0] in "dxn" and t.lines[k_ - 1].split(";")[0].startswith("W=PAUSED") and t.op_msg[k_ - 1]:
                    ctx.tag("pause:handled-while-PAUSED:" + t.op_msg[k_ - 1].split(".")[0])
        else:
            ctx.tag("model-free:synthetic-stages", "synth:sched:" + t.tag.split("/", 1)[-1].split(":")[0], "synth:wf:" + t.final()["wf"],
                    "synth:quiesced" if t.quiesced else "synth:cut")
            ctx.tag("synth:children:" + "".join(sorted(own for _, own, _ in lay.kids)))
        for m in mons:
            if m.__name__ in S_OUTCOME and not t.respecting:
                ctx.tag("synth:not-judged(non-respecting):" + m.__name__)
        if any(o[0] == "c" for o in t.ops):
            acc = next((k for k in range(1, len(t.lines)) if t.lines[k].split(";")[0].endswith(",1")), None)
            if acc is not None:
                at = parse_line(t.lines[acc])
                for i in range(lay.n):
                    if lay.children_of(i, "A") and at["stages"][i]["status"] == "RUNNING" and at["stages"][i]["tasks"] and \
                            all(x in COMPLETE for x in at["stages"][i]["tasks"]) and \
                            any(at["stages"][c]["status"] == "NOT_STARTED" for c in lay.children_of(i, "A")):
                        ctx.tag("synth:cancel-accepted-while-parent-awaits-unstarted-after-stage")
                for i in range(lay.n, lay.total):
                    ctx.tag(f"synth:cancel-accepted-with-{lay.role(i)}-stage:{at['stages'][i]['status']}")
        for mname, sig, what in _signatures(t, mons):
            full_sig = f"{pfx}:{prop}:{sig}"
            if (pending(sig) or pending(full_sig)) and not report_pending:
                seen_pending[full_sig] += 1
                continue
            if any(h["signature"] == full_sig for h in ctx.monitor_hits):
                ctx.violation(what, full_sig, None)
                continue
            if wd is None:
                wd = core.scratch_dir()
            core.ensure_repo_on_path()
            n_shrunk = getattr(ctx, "_synth_shrunk", 0)
            small = s_shrink(t, _BY_NAME[mname], sig, wd) if n_shrunk < 8 else None      # (a broken tree can fire dozens of signatures)
            setattr(ctx, "_synth_shrunk", n_shrunk + 1)
            sspec, sops, smeta = (small["spec"], small["ops"], small["meta"]) if small else (t.spec, t.ops, t.meta)
            slay = Lay(sspec)
            ctx.violation(what, full_sig, {"kind_synth": True, "prop": prop, "spec": sspec.to_json(), "ops": sops,
                                           "sym": sym_to_json(small["sym"] if small else sym_ops(t)),
                                           "schedule_then_in_order_drain": (f"ops[:{small['essential']}] are the schedule, the rest is the in-order drain"
                                                                            if small else "not minimised (more than 8 signatures in this run, or the symbolic re-run did not reproduce)"),
                                           "original_spec": t.spec.to_json(), "original_ops": t.ops,
                                           "monitor": mname, "signature": sig, "respecting": t.respecting, "meta": smeta, "tag": t.tag,
                                           "children": [{"index": slay.n + c, "parent": par, "owner": own} for c, (par, own, _) in enumerate(slay.kids)]})
    if traces:
        ctx.sample({"suite": {"pause": "pause / resume dimension", "restart": "operator restart dimension"}.get(family, "synthetic-stages") + " (implementation-only)",
                    **{k: v for k, v in traces[0].to_json().items() if k != "spec_line"}})
    for sig, n in seen_pending.items():
        ctx.tag("synth-pending(not reported; VERIF_SYNTH_PENDING=1 reports it):" + sig)
        ctx.tags["synth-pending(not reported; VERIF_SYNTH_PENDING=1 reports it):" + sig] += n - 1
    if seen_pending:
        ctx.notes.append("synthetic-stage family: adjudicated-real signatures awaiting a decision were seen and NOT reported "
                         f"(set VERIF_SYNTH_PENDING=1 to report them): {dict(seen_pending)}")
    if wd is not None:
        shutil.rmtree(wd, ignore_errors=True)


class PrefixCtx:
    """For the checks that have their own suites and oracles (C12, C13): the check's ctx with every monitor signature prefixed
    `synth:` - hits on synthetic-stage workloads are told apart from the plain ones - and the PENDING gate applied to the
    prefixed signature; everything else is the real ctx."""

    def __init__(self, ctx) -> None:
        object.__setattr__(self, "_ctx", ctx)

    def __getattr__(self, name):
        return getattr(self._ctx, name)

    def __setattr__(self, name, value) -> None:
        setattr(self._ctx, name, value)

    def violation(self, what, signature, replay) -> None:
        sig = "synth:" + signature
        if pending(sig) and os.environ.get("VERIF_SYNTH_PENDING") != "1":
            self._ctx.tag("synth-pending(not reported; VERIF_SYNTH_PENDING=1 reports it):" + sig)
            return
        self._ctx.violation(what, sig, replay)

    def tag(self, *names) -> None:
        self._ctx.tag(*("synth:" + n for n in names))


def is_synth_replay(body: dict) -> bool:
    rp = body.get("replay") or body
    return bool(isinstance(rp, dict) and rp.get("kind_synth"))


def replay(ctx, body: dict) -> int:
    rp = body.get("replay") or body
    spec = Spec.from_json(rp["spec"])
    lay = Lay(spec)
    wd = core.scratch_dir()
    try:
        import logging

        logging.disable(logging.CRITICAL)
        t = run_witness(rp, wd)
        print(f"  synthetic-stage replay (implementation-only; the recorded schedule, then the in-order drain, on this tree): {lay.n} top-level stage(s); children: " +
              (", ".join(f"S{lay.n + c}={'before' if own == 'B' else 'after'}-stage of S{par}" for c, (par, own, _) in enumerate(lay.kids)) or "none"))
        print(f"  start: {es.short(t.lines[0])}")
        for k, o in enumerate(t.ops):
            print(f"  op {k + 1}: {o:>6} [{t.op_msg[k]}] -> {es.short(t.lines[k + 1])}")
        pfx = "pause" if (rp.get("meta") or {}).get("pause") is not None else ("restart" if (rp.get("meta") or {}).get("restart") else "synth")
        mons = [_BY_NAME[rp["monitor"]]] if rp.get("monitor") in _BY_NAME else monitors_for(rp.get("prop") or ctx.prop, pfx)
        rc = 0
        for mname, sig, what in _signatures(t, mons):
            print(f"FAILS {mname}: {pfx}:{rp.get('prop') or ctx.prop}:{sig}: {what}")
            rc = 1
        if rc == 0:
            print("replay: property held on this input")
        return rc
    finally:
        shutil.rmtree(wd, ignore_errors=True)


def _cli() -> None:
    """python -m harness.synth_suites <prop> <spec json> <ops,comma>      (debug aid)
       python -m harness.synth_suites sweep <prop> <seed> [n]            (signature census for one seed, no ctx)"""
    import sys

    core.ensure_repo_on_path()
    import logging

    logging.disable(logging.CRITICAL)
    if sys.argv[1] == "sweep":
        prop, seed = sys.argv[2], sys.argv[3]
        fam_ = prop.split(":")[1] if ":" in prop else "synth"
        total = int(sys.argv[4]) if len(sys.argv) > 4 else (640 if fam_ == "pause" else 480 if fam_ == "restart" else {"C05": 480, "C17": 480, "C01": 64, "C02": 128, "C10": 40, "C18": 480}[prop])
        nproc = min(16, os.cpu_count() or 1)
        jobs = [(prop, f"{seed}:{i}", max(1, total // nproc), "quick") for i in range(nproc)]
        cnt: Counter = Counter()
        first: dict[str, dict] = {}
        ntr = 0
        with ProcessPoolExecutor(max_workers=nproc) as ex:
            for res in ex.map(_worker, jobs):
                for d in res["traces"]:
                    if "error" in d:
                        print(d["error"])
                        continue
                    t = es.unpack(d)
                    ntr += 1
                    for mname, sig, what in _signatures(t, monitors_for(prop.split(":")[0], fam_)):
                        cnt[sig] += 1
                        first.setdefault(sig, {"spec": t.spec.to_json(), "ops": t.ops, "what": what, "monitor": mname, "meta": t.meta, "tag": t.tag,
                                               "respecting": t.respecting})
        print(f"{prop} seed {seed}: {ntr} traces")
        for sig, n in cnt.most_common():
            print(f"  {n:4d}  {sig}")
        Path(f"/tmp/synth_census_{prop.replace(':', '-')}_{seed}.json").write_text(json.dumps(first, indent=1, default=str))
        return
    if sys.argv[1] == "witness":
        # python -m harness.synth_suites witness <prop> <seed>: run the family with pending signatures REPORTED, minimise, dump
        os.environ["VERIF_SYNTH_PENDING"] = "1"
        prop, seed = sys.argv[2], int(sys.argv[3])
        ctx = core.Ctx(prop, "quick", seed)
        run_for(ctx, prop)
        out = Path(f"/tmp/synth_witness_{prop}_{seed}.json")
        out.write_text(json.dumps(ctx.monitor_hits, indent=1, default=str))
        for h in ctx.monitor_hits:
            rp = h["replay"]
            print(f"{h['count']:4d} {h['signature']}\n       spec {json.dumps(rp['spec'])}\n       ops {','.join(rp['ops'])}  [{rp['schedule_then_in_order_drain']}]")
        return
    prop = sys.argv[1]
    spec = Spec.from_json(json.loads(sys.argv[2]))
    ops = sys.argv[3].split(",")
    meta = json.loads(sys.argv[4]) if len(sys.argv) > 4 else ({"pause": {"unpaused": True}} if prop.endswith(":pause") else {"restart": True} if prop.endswith(":restart") else {})
    prop = prop.split(":")[0]
    print(replay(type("C", (), {"prop": prop})(), {"kind_synth": True, "exact": True, "prop": prop, "spec": spec.to_json(), "ops": ops, "meta": meta}))


if __name__ == "__main__":
    _cli()
