"""Compare a pytest junit xml with /root/.vp/BASELINE.json: every stable_pass test must still pass.

  python -m harness.baseline_cmp /tmp/junit.xml
"""
from __future__ import annotations

import ast
import json
import sys
import xml.etree.ElementTree as ET


def main() -> int:
    base = json.load(open("/root/.vp/BASELINE.json"))
    stable = base["stable_pass"]
    if isinstance(stable, str):
        stable = ast.literal_eval(stable)
    stable = set(stable)
    root = ET.parse(sys.argv[1]).getroot()
    passed = set()
    failed = set()
    for tc in root.iter("testcase"):
        tid = f"{tc.get('classname')}::{tc.get('name')}"
        bad = any(ch.tag in ("failure", "error") for ch in tc)
        skipped = any(ch.tag == "skipped" for ch in tc)
        if bad:
            failed.add(tid)
        elif not skipped:
            passed.add(tid)
    missing = sorted(stable - passed)
    print(f"baseline stable_pass={len(stable)} passed_now={len(passed)} failed_now={len(failed)} baseline_not_passing_now={len(missing)}")
    for m in missing[:40]:
        print("  NOT PASSING:", m, "(failed)" if m in failed else "(absent/skipped)")
    return 0 if not missing else 1


if __name__ == "__main__":
    sys.exit(main())
