"""C06 — completed is final; every durable status change is a legal transition."""
from __future__ import annotations

from harness import engine_pairs

RULE = ("table: all 12x12 status pairs through can_transition and the model (exhaustive); "
        "engine: every status-audit row (SQL trigger) of every explored engine trace is checked against the source table; "
        "a case is distinct by its canonical (workflow spec, op list) and non-trivial when it has a non-FIFO choice or an injected op; "
        "interleaving engine (Mode B, harness/engine_pairs.py): " + engine_pairs.RULE + "; for C06 the selection is join n=2 (DISCRIMINATOR, N_OF_M 2; "
        "thorough: also N_OF_M 1), signal x 2, cancel x 2 and cancelrun x 3 (CancelStage vs the RunTask result commit for success / "
        "running-with-context / terminal) and cancelstart x 3 (CancelStage vs StartStage of a NOT_STARTED stage: 1 / 2 tasks with the CancelStage "
        "pushed directly so that the workflow cancel flag is not set, and 1 task with the CancelStage fanned out by a CancelWorkflow handled in the "
        "prefix) and the two workflow-row pairs (StartWorkflow / CompleteWorkflow x CancelWorkflow, FIFO and newest-first drain) "
        "at EVERY legal injection point in both directions; every status change of a stage / task / workflow row "
        "committed during the pair and the following drain is checked against can_transition; "
        "PLUS the pause / resume dimension (harness/synth_suites.py, family 'pause', IMPLEMENTATION-ONLY: monitors on real-engine traces, no model line; signatures prefixed pause:): plain workflows (engine_suites.gen_spec w0, sometimes one suspending task) AND synthetic-stage ones; operator ops p = store.pause (only while the workflow is RUNNING), u = Orchestrator.unpause, r = store.resume injected at random steps into fifo | random | redelivery | starve schedules, combined with a cancel (often issued together with the un-pause, or while paused), signals and a second pause; every third unit is the directed 'parked' member (2-3 parallel stages all parked PAUSED, then un-pause or cancel + un-pause, random order); in 20 % of the runs nobody un-pauses, otherwise the operator keeps at it until nothing is paused (settle_pause: unpause, drain, store.resume if the row is still PAUSED with nothing parked); in 30 % of the runs an operator also pauses (and maybe resumes) the workflow AFTER it reached a final status; judged by the transition-table monitor on every durable status change of workflow, stage and task rows and by pmon_final (a durable final workflow status never changes); "
        "PLUS the operator restart dimension (harness/synth_suites.py, family 'restart', IMPLEMENTATION-ONLY: monitors on real-engine traces, no model line; signatures prefixed restart:): plain (gen_spec w0 / w1, no jumps) and synthetic-stage workflows are run to the drain (70 %) or for k random steps, then op R<i> = Orchestrator.restart (-> RestartStage, code RR.<s>) 1-2 times on a random COMPLETED top-level stage (15 %: on a stage that is not completed - must be ignored), sometimes a cancel before / after (restart inside a canceled workflow must be refused), fifo | random drain; judged by rmon_c06 + rmon_final = the transition-table monitor and 'a final workflow status never changes' with exactly the property's exception: what the RestartStage delivery ITSELF writes (the restarted stage, its tasks and the synthetic children that belong to it -> NOT_STARTED; a completed workflow -> RUNNING) is allowed")
ASSUMPTIONS = ["AFTER UPDATE OF status triggers observe exactly the durable changes (rows of a rolled-back transaction vanish)",
               "pause / resume dimension: 'un-paused' means the operator idiom of the repo's tests and demos (Orchestrator.unpause, then store.resume when the row is still PAUSED with nothing parked), repeated up to three times at quiescence; store.pause is only issued while the workflow row is RUNNING (store.pause() itself writes PAUSED over any status, also a final one: operator misuse, not generated); a message that raises on every delivery is dead-lettered after max_attempts deliveries (real check_and_move_expired) and the first such loss names the cause of what follows (`…@<msg>-dead-lettered:<exception>-while-workflow-<status>`)"] + engine_pairs.ASSUMPTIONS
TRUSTED_BASE = ["engine part: the hand-written Engine model is tied to the handlers by the Mode-A trace differential only",
                "pause / resume dimension: no model (pause / resume is outside Stab.Engine) - the oracle is the real can_transition on the audit rows of real-engine traces; trusted: generator, op semantics (Engine.pause / unpause / resume = the public store / Orchestrator calls), symbolic minimiser / replayer",
                "interleaving part: no model — the oracle is the real `stabilize.models.status.can_transition` applied to the rows of the Mode B audit "
                "triggers (`_mb_audit`, AFTER UPDATE OF status on stage_executions / task_executions / pipeline_executions); the transition table "
                "itself is the subject of the table suite and of the table theorems"]


def table_suite(ctx) -> None:
    from stabilize.models.status import WorkflowStatus, can_transition

    inputs, lines, impl = [], [], []
    for a in WorkflowStatus:
        inputs.append(["flags", a.name])
        lines.append(f"status flags {a.name}")
        from stabilize.models.status import ACTIVE_STATUSES, CONTINUABLE_STATUSES

        impl.append(" ".join(str(x).lower() for x in (a.is_complete, a.is_halt, a in CONTINUABLE_STATUSES, a in ACTIVE_STATUSES, a.is_failure)))
        ctx.count(["flags", a.name])
        for b in WorkflowStatus:
            inputs.append(["can", a.name, b.name])
            lines.append(f"status can {a.name} {b.name}")
            impl.append(str(can_transition(a, b)).lower())
            ctx.count(["can", a.name, b.name], nontrivial=(a != b))
            # monitor: the property itself on the source table
            if a.is_complete and a != b and can_transition(a, b):
                ctx.violation(f"table allows leaving completed status {a.name} -> {b.name}",
                              f"table:complete-not-final:{a.name}->{b.name}", {"from": a.name, "to": b.name})
    ctx.sample({"suite": "status-table", "line": lines[1], "impl": impl[1]})
    ctx.correspond("status-table", inputs, lines, impl)
    ctx.exhaustive = True


def run(ctx) -> None:
    pairs = engine_pairs.start(ctx, "C06")       # Mode B pairs run in worker processes while the trace suites run here
    try:
        table_suite(ctx)
        try:
            from harness import engine_suites
        except ImportError:
            engine_suites = None
        if engine_suites is not None:
            engine_suites.run_for(ctx, "C06")
            # pause / resume dimension: implementation-only (monitors on real-engine traces, no model line)
            from harness import synth_suites

            synth_suites.run_for(ctx, "C06", family="pause")
            synth_suites.run_for(ctx, "C06", family="restart")       # operator restart dimension (implementation-only)
    except BaseException:
        pairs["pool"].terminate()
        raise
    engine_pairs.finish(ctx, pairs)


def search(ctx) -> None:
    try:
        from harness import engine_suites
    except ImportError:
        return
    engine_suites.search_for(ctx, "C06")


def replay(ctx, body) -> int:
    rp = body.get("replay") or body
    if isinstance(rp, dict) and "enginepair" in rp:
        return engine_pairs.replay(ctx, body, "C06")
    from harness import engine_suites, synth_suites

    if synth_suites.is_synth_replay(body):
        return synth_suites.replay(ctx, body)

    return engine_suites.replay(ctx, body)
