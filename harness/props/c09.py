"""C09 — a message whose handling committed is never handled again, even after restart.

Three suites, all against real objects:
  bloom    BloomDeduplicator alone (arbitrary ids, tiny capacities) vs `Stab.Dedup` with the REAL hash positions
           passed as the model's `pos` parameter.
  proc     QueueProcessor._handle_message with a counting handler on a scratch store: deliveries with every handler
           outcome (commit+return, commit+raise, raise before commit, plain return), redeliveries, restart
           (reset_deduplicator + new processor -> hydrate), forced / age / fill rotation, peer marks, retention
           cleanup; both settings of dedup_trust_negative_cache.
  engine   real workflows through the real handlers; every handled message is redelivered at later points,
           across restarts and rotations; handler invocations are counted by wrappers around the real handlers.
"""
from __future__ import annotations

import copy
import json
import sqlite3
import logging
from pathlib import Path

from harness import core
from harness.procenv import ProcEnv, reset_globals, rmtree

RULE = ("bloom: random op strings (mark / query / hydrate / reset / fill) over 2-12 ids (numeric, uuid-like, unicode), "
        "expected_items 1-12 and fp rate 0.001-0.4 so that filters fill up; proc: random op strings over 1-6 message ids with "
        "all four handler outcomes, redelivery of earlier ids biased to 50%, restart / rotate / aged delivery / peer mark / "
        "cleanup, capacity 1-8, both trust settings; engine: 1-2 real linear workflows, each handled message kept and "
        "redelivered later with probability 0.5 per step, restart / rotation injected. A case is distinct by its canonical op "
        "string (+ filter geometry); non-trivial when it contains a redelivery of a committed id or a reset")
ASSUMPTIONS = [
    "hashlib.md5/sha1 are deterministic functions of the id (the model takes their output as the parameter `pos`)",
    "dedup_trust_negative_cache=True is documented as safe only when this process is the store's only writer: a peer's mark "
    "followed by a re-run is recorded as outside the contract, not as a violation",
    "retention: the guarantee holds for a message as long as its processed record exists; the sweep "
    "(cleanup_old_processed_messages) is part of the model and of the op strings (time advances by back-dating processed_at in "
    "30-minute units, sweeps use max ages of k*30+15 minutes so that no record is ever exactly at the cutoff); a record "
    "older than max_age is deleted by design and the message is open again",
    "age-based rotation (24 h) is triggered by moving the filter's creation time back, not by waiting",
]
TRUSTED_BASE = [
    "Stab.Dedup models BloomDeduplicator and the duplicate check of _handle_message / _hydrate_deduplicator; the handlers "
    "themselves are represented by their outcome (commit+return, commit+raise, raise, return)",
    "translate/txn_shapes.py reads `with ...transaction()` blocks and execute_atomic* keyword arguments lexically; a mark written "
    "through a helper function called inside a block would be missed (none exists today: every txn.* call in handlers/ is direct)",
]

# Which variant of `_handle_message` the model is asked to mirror: True = the code as it is (the filter is marked when
# the handler raises - repair of F7); False = the legacy behaviour before that repair.
MARK_ON_RAISE = True
import os as _os
if _os.environ.get("VERIF_C09_MARK_ON_RAISE") in ("0", "1"):   # for trying the patched copy without editing this file
    MARK_ON_RAISE = _os.environ["VERIF_C09_MARK_ON_RAISE"] == "1"

SIG_FALSE_NEG = "C09:bloom-false-negative"
SIG_RERUN = "C09:rerun-after-commit"
SIG_F7 = "C09:trust-negative-cache:commit-then-raise-rerun"
SIG_AUTH = "C09:authority-after-reset"


def b01(x) -> str:
    return "1" if x else "0"


def set_bits(dedup) -> int:
    return round(dedup.fill_ratio * dedup._size)


def pos_table(dedup, ids: list[str]) -> str:
    return ",".join(f"{i}:" + ".".join(str(p) for p in dedup._get_hash_positions(s)) for i, s in enumerate(ids)) or "-"


def random_ids(rng, n: int) -> list[str]:
    out = []
    while len(out) < n:
        kind = rng.randrange(4)
        if kind == 0:
            s = str(rng.randrange(1, 100000))
        elif kind == 1:
            s = "%08x-%04x-%04x" % (rng.getrandbits(32), rng.getrandbits(16), rng.getrandbits(16))
        elif kind == 2:
            s = "".join(rng.choice("abcxyzäöüλ中-_ ") for _ in range(rng.randint(1, 12)))
        else:
            s = "m" * rng.randint(1, 3) + str(len(out))
        if s not in out:
            out.append(s)
    return out


# ------------------------------------------------------------------------------------------------
# suite 1: the filter itself
# ------------------------------------------------------------------------------------------------

def bloom_suite(ctx) -> None:
    from stabilize.queue.dedup import BloomDeduplicator

    rng = ctx.rng
    inputs, lines, impl = [], [], []
    for _ in range(ctx.n(3000, 30000)):
        ids = random_ids(rng, rng.randint(2, 12))
        d = BloomDeduplicator(expected_items=rng.randint(1, 12), false_positive_rate=rng.choice([0.001, 0.01, 0.05, 0.2, 0.4]))
        ops, outs = [], []
        live: set[str] = set()          # ids the filter has been told about since the last reset
        had_reset = False
        for _ in range(rng.randint(3, 30)):
            k = rng.random()
            if k < 0.35:
                i = rng.randrange(len(ids))
                d.mark_seen(ids[i])
                live.add(ids[i])
                ops.append(f"m:{i}")
                outs.append(f"n={d.items_added}")
            elif k < 0.65:
                i = rng.randrange(len(ids))
                ops.append(f"q:{i}")
                outs.append(b01(d.maybe_seen(ids[i])))
            elif k < 0.78:
                sel = rng.sample(range(len(ids)), rng.randint(0, min(4, len(ids))))
                d.hydrate([ids[i] for i in sel])
                live.update(ids[i] for i in sel)
                ops.append("hyd:" + (",".join(map(str, sel)) or "-"))
                outs.append(f"auth={b01(d.authoritative)} n={d.items_added}")
            elif k < 0.88:
                d.reset()
                live.clear()
                had_reset = True
                ops.append("reset")
                outs.append(f"auth={b01(d.authoritative)} n={d.items_added}")
                if d.authoritative:
                    ctx.violation("reset() left the filter authoritative", SIG_AUTH, {"suite": "bloom", "ids": ids, "ops": ops})
            else:
                ops.append("f")
                outs.append(f"bits={set_bits(d)} sr={b01(d.should_reset(0.7))} auth={b01(d.authoritative)}")
            # monitor: the property itself, no model involved
            for s in live:
                if not d.maybe_seen(s):
                    ctx.violation(f"maybe_seen({s!r}) is False although the id was marked/hydrated since the last reset",
                                  SIG_FALSE_NEG, {"suite": "bloom", "expected_items": d.expected_items, "fp": d._fp_rate,
                                                  "ids": ids, "ops": list(ops)})
        canon = {"size": d._size, "k": d._num_hashes, "pos": pos_table(d, ids), "ops": ops}
        ctx.count(canon, nontrivial=had_reset or len(live) > 1)
        ctx.tag("bloom-reset" if had_reset else "bloom-noreset")
        inputs.append(canon)
        lines.append(f"dedup bloom size={d._size} pos={pos_table(d, ids)} ops={';'.join(ops)}")
        impl.append("|".join(outs))
    ctx.sample({"suite": "bloom", "driver_line": lines[0], "impl": impl[0]})
    ctx.correspond("dedup-bloom", inputs, lines, impl)


# ------------------------------------------------------------------------------------------------
# suite 2: _handle_message with a counting handler
# ------------------------------------------------------------------------------------------------

class ProcRig:
    """real store + queue + QueueProcessor (no default handlers) with one scripted handler for StartWorkflow"""

    def __init__(self, workdir: Path, name: str):
        from stabilize import SqliteQueue, SqliteWorkflowStore

        reset_globals()
        from harness.engine import install_kill_shim

        install_kill_shim()     # connections that can be made to fail one statement with "database is locked" (op hl)
        self.url = f"sqlite:///{Path(workdir) / (name + '.db')}"
        self.store = SqliteWorkflowStore(self.url, create_tables=True)
        self.queue = SqliteQueue(self.url)
        self.queue._create_table()
        self.counts: dict[str, int] = {}
        self.outcome = "pr"
        self.processor = None
        self.cap = self.fp = self.trust = None

    def begin(self, cap: int, fp: float, trust: bool) -> None:
        conn = self.store._get_connection()
        conn.execute("DELETE FROM processed_messages")
        conn.commit()
        self.counts = {}
        self.cap, self.fp, self.trust = cap, fp, trust
        self._cfg_n = (cap or 0) + (3 if trust else 0)      # which extra options the restarts of this case use: a function of the case
        self.restart()

    def restart(self) -> None:
        """what a new process does: fresh process-wide filter, QueueProcessor.__init__ hydrates it from the store"""
        from stabilize import QueueProcessor
        from stabilize.queue.dedup import get_deduplicator, reset_deduplicator
        from stabilize.queue.messages import StartWorkflow
        from stabilize.queue.processor.config import QueueProcessorConfig

        reset_deduplicator()
        get_deduplicator(expected_items=self.cap, false_positive_rate=self.fp)
        # the other processor options must not change what the dedup option means: they vary per (re)start
        self._cfg_n = getattr(self, "_cfg_n", 0) + 1
        extra = [{}, {"max_workers": 1}, {"max_workers": 2}, {"poll_frequency_ms": 5, "stop_on_error": True},
                 {"max_workers": 1, "enable_lock_heartbeat": False}][self._cfg_n % 5]
        cfg = QueueProcessorConfig(dedup_trust_negative_cache=self.trust, **extra)
        if cfg.dedup_trust_negative_cache != self.trust:
            self.config_flips = getattr(self, "config_flips", 0) + 1     # reported by the suite (the model gets the REQUESTED value)
        self.processor = QueueProcessor(self.queue, config=cfg, store=self.store)
        self.processor.register_handler_func(StartWorkflow, self._handler)

    def _handler(self, message) -> None:
        mid = message.message_id
        self.counts[mid] = self.counts.get(mid, 0) + 1
        if self.outcome in ("cr", "cx"):
            with self.store.transaction(self.queue) as txn:
                txn.mark_message_processed(mid, handler_type="scripted", execution_id="e")
        if self.outcome in ("cx", "rx"):
            raise RuntimeError("scripted handler failure")

    def dedup(self):
        from stabilize.queue.dedup import get_deduplicator

        return get_deduplicator()

    def deliver(self, mid: str, outcome: str, aged: bool) -> bool:
        """one delivery through the real _handle_message; returns whether the handler ran"""
        from stabilize.queue.messages import StartWorkflow

        if aged:
            self.dedup()._creation_time -= 10 ** 6
        m = StartWorkflow(execution_type="pipeline", execution_id="e")
        m.message_id = mid
        self.outcome = outcome
        before = self.counts.get(mid, 0)
        try:
            self.processor._handle_message(m)
        except RuntimeError:
            pass
        except sqlite3.OperationalError:
            pass            # the delivery failed before / while handling (lock timeout): the processor would retry it
        return self.counts.get(mid, 0) > before

    def close(self) -> None:
        try:
            self.store.close()
        except Exception:
            pass


def gen_proc_ops(rng, nids: int) -> list[str]:
    ops = []
    used: list[int] = []
    for _ in range(rng.randint(3, 28)):
        k = rng.random()
        if k < 0.6:
            i = rng.choice(used) if used and rng.random() < 0.5 else rng.randrange(nids)
            used.append(i)
            o = rng.choice(["cr", "cr", "pr", "pr", "cx", "rx"])
            ops.append(f"h:{i}:{o}" + (":a" if rng.random() < 0.08 else ""))
        elif k < 0.66 and used:
            # redelivery while the durable duplicate lookup hits a lock timeout ("database is locked"): the delivery must
            # fail and be retried - never be answered "new message"
            ops.append(f"hl:{rng.choice(used)}")
        elif k < 0.72:
            ops.append("restart")
        elif k < 0.82:
            ops.append("rot")
        elif k < 0.90:
            ops.append(f"peer:{rng.randrange(nids)}")
        elif k < 0.95:
            ops.append("clean:" + ",".join(map(str, sorted(rng.sample(range(nids), rng.randint(1, min(2, nids)))))))
        elif k < 0.975:
            ops.append(f"tick:{rng.randint(1, 6)}")
        else:
            ops.append(f"sweep:{rng.randint(0, 8)}")
    return ops


def run_proc_case(rig: ProcRig, ids: list[str], cap: int, fp: float, trust: bool, ops: list[str], verbose: bool = False) -> dict:
    """Execute an op string on the real processor. Returns outputs and monitor hits."""
    rig.begin(cap, fp, trust)
    outs = []
    hits: list[tuple[str, str]] = []
    via: dict[str, set] = {}      # how each id's mark got into the store: return / raise / peer
    notes: list[str] = []
    clock = 0                     # half-hours elapsed (time advances by back-dating the records)
    born: dict[str, int] = {}     # clock value at which the current record of an id was inserted

    def note_records() -> None:
        conn = rig.store._get_connection()
        present = {r[0] for r in conn.execute("SELECT message_id FROM processed_messages").fetchall()}
        for mid in list(born):
            if mid not in present:
                del born[mid]
        for mid in present:
            born.setdefault(mid, clock)

    def tail() -> str:
        d = rig.dedup()
        return f"auth={b01(d.authoritative)} n={d.items_added}"

    outs.append(tail())           # the implicit first `restart`
    model_ops: list[str] = []     # the op list the model is asked about: `hl` becomes a plain delivery, or nothing when it failed
    for op in ops:
        parts = op.split(":")
        if parts[0] != "hl":
            model_ops.append(op)
        if parts[0] == "h":
            mid = ids[int(parts[1])]
            o = parts[2]
            aged = len(parts) > 3
            committed_before = rig.store.is_message_processed(mid)
            ran = rig.deliver(mid, o, aged)
            d = rig.dedup()
            outs.append(f"{'run' if ran else 'skip'} {tail()} seen={b01(d.maybe_seen(mid))}")
            if committed_before and ran:
                how = via.get(mid, set())
                if not trust or "return" in how:
                    hits.append((f"handler ran again for message {mid!r} whose processed record was committed "
                                 f"(trust_negative_cache={trust}, record written by {sorted(how)})", SIG_RERUN))
                elif "raise" in how:
                    hits.append((f"dedup_trust_negative_cache=True: handler committed the processed record of {mid!r} and raised; "
                                 f"on redelivery the authoritative filter's negative skipped the durable check and the handler ran again",
                                 SIG_F7))
                else:
                    notes.append("rerun-after-peer-mark(trust-on)")
            if ran and o in ("cr", "pr"):
                via.setdefault(mid, set()).add("return")
            elif ran and o == "cx":
                via.setdefault(mid, set()).add("raise")
        elif parts[0] == "hl":
            from harness.engine import _KillState

            mid = ids[int(parts[1])]
            committed_before = rig.store.is_message_processed(mid)
            _KillState.fail_sql = "SELECT 1 FROM processed_messages WHERE message_id"
            try:
                ran = rig.deliver(mid, "pr", False)
            finally:
                fired = _KillState.fail_sql is None
                _KillState.fail_sql = None
            notes.append("locked-lookup-fired" if fired else "locked-lookup-not-reached")
            if committed_before and ran and fired:
                hits.append((f"the durable duplicate lookup of message {mid!r} failed with 'database is locked' and the handler ran again "
                             f"although the message's processed record is committed", SIG_RERUN + ":lookup-failed-open"))
            elif committed_before and ran:
                # the lookup was not even attempted (trusted bloom negative): judged exactly like a plain delivery
                how = via.get(mid, set())
                if not trust or "return" in how:
                    hits.append((f"handler ran again for message {mid!r} whose processed record was committed "
                                 f"(trust_negative_cache={trust}, record written by {sorted(how)})", SIG_RERUN))
                elif "raise" in how:
                    hits.append((f"dedup_trust_negative_cache=True: handler committed the processed record of {mid!r} and raised; "
                                 f"on redelivery the authoritative filter's negative skipped the durable check and the handler ran again", SIG_F7))
                else:
                    notes.append("rerun-after-peer-mark(trust-on)")
            if ran:
                via.setdefault(mid, set()).add("return")
            if fired and not ran:
                continue          # the delivery failed before anything happened: not an op of the model
            model_ops.append(f"h:{parts[1]}:pr")
            outs.append(f"{'run' if ran else 'skip'} {tail()} seen={b01(rig.dedup().maybe_seen(mid))}")
        elif parts[0] == "restart":
            rig.restart()
            outs.append(tail())
        elif parts[0] == "rot":
            d = rig.dedup()
            d.reset()
            if d.authoritative:
                hits.append(("reset() left the filter authoritative", SIG_AUTH))
            rig.processor._hydrate_deduplicator()
            outs.append(tail())
        elif parts[0] == "peer":
            mid = ids[int(parts[1])]
            # another worker: its own store object on the same file
            rig.store.mark_message_processed(mid, handler_type="peer", execution_id="e")
            via.setdefault(mid, set()).add("peer")
            outs.append(tail())
        elif parts[0] == "tick":
            n2 = int(parts[1])
            conn = rig.store._get_connection()
            conn.execute("UPDATE processed_messages SET processed_at = datetime(processed_at, ?)", (f"-{30 * n2} minutes",))
            conn.commit()
            clock += n2
            outs.append(tail())
        elif parts[0] == "sweep":
            h2 = int(parts[1])
            note_records()
            before = dict(born)
            rig.store.cleanup_old_processed_messages(max_age_hours=(30 * h2 + 15) / 60.0)
            for mid, t0 in before.items():
                if clock - t0 <= h2 and not rig.store.is_message_processed(mid):
                    hits.append((f"cleanup_old_processed_messages(max_age = {30 * h2 + 15} min) deleted the processed record of {mid!r}, "
                                 f"which is {30 * (clock - t0)} min old", SIG_RETENTION))
            for mid in list(via):
                if not rig.store.is_message_processed(mid):
                    via.pop(mid, None)
            outs.append(tail())
        elif parts[0] == "clean":
            sel = [ids[int(x)] for x in parts[1].split(",")]
            conn = rig.store._get_connection()
            for mid in sel:
                conn.execute("UPDATE processed_messages SET processed_at = '2000-01-01 00:00:00' WHERE message_id = ?", (mid,))
                via.pop(mid, None)
            conn.commit()
            rig.store.cleanup_old_processed_messages(max_age_hours=24 * 365)
            outs.append(tail())
        note_records()
        if verbose:
            print(f"   {op:14s} -> {outs[-1]}")
    return {"outs": outs, "hits": hits, "notes": notes, "model_ops": model_ops}


def shrink_proc(rig: ProcRig, case: dict, sig: str) -> dict:
    """greedy one-op-at-a-time minimisation of an op list that makes monitor `sig` fire"""
    def fires(ops: list[str]) -> bool:
        return any(s_ == sig for _, s_ in run_proc_case(rig, case["ids"], case["cap"], case["fp"], case["trust"], ops)["hits"])

    ops = list(case["ops"])
    changed = True
    while changed:
        changed = False
        for i in range(len(ops) - 1, -1, -1):
            cand = ops[:i] + ops[i + 1:]
            if cand and fires(cand):
                ops = cand
                changed = True
    return {**case, "ops": ops}


def proc_line(rig: ProcRig, ids: list[str], cap: int, trust: bool, ops: list[str]) -> str:
    d = rig.dedup()
    return f"dedup proc size={d._size} cap={cap} trust={b01(trust)} mor={b01(MARK_ON_RAISE)} pos={pos_table(d, ids)} ops={';'.join(['restart'] + ops)}"


def proc_suite(ctx, cases: list[dict] | None = None, n: int | None = None) -> None:
    rng = ctx.rng
    workdir = core.scratch_dir()
    rig = ProcRig(workdir, "proc")
    inputs, lines, impl = [], [], []
    try:
        todo = list(cases or [])
        for _ in range(n if n is not None else ctx.n(4000, 40000)):
            ids = random_ids(rng, rng.randint(1, 6))
            todo.append({"ids": ids, "cap": rng.randint(1, 8), "fp": rng.choice([0.001, 0.01, 0.2]), "trust": rng.random() < 0.5,
                         "ops": gen_proc_ops(rng, len(ids))})
        for case in todo:
            res = run_proc_case(rig, case["ids"], case["cap"], case["fp"], case["trust"], case["ops"])
            line = proc_line(rig, case["ids"], case["cap"], case["trust"], res["model_ops"])
            seen_ids: set[str] = set()
            redelivery = False
            for op in case["ops"]:
                if op.startswith("h:"):
                    i = op.split(":")[1]
                    redelivery |= i in seen_ids
                    seen_ids.add(i)
            ctx.count({"line": line}, nontrivial=redelivery)
            ctx.tag("proc-trust-on" if case["trust"] else "proc-trust-off")
            for t in res["notes"]:
                ctx.tag(t)
            for o in res["outs"]:
                ctx.tag("proc-" + o.split(" ")[0].split("=")[0])
            inputs.append(case)
            lines.append(line)
            impl.append("|".join(res["outs"]))
            for what, sig in res["hits"]:
                if any(h["signature"] == sig for h in ctx.monitor_hits):
                    ctx.violation(what, sig, {"suite": "proc", **case})
                    continue
                small = shrink_proc(rig, case, sig)
                what2 = next((w for w, s_ in run_proc_case(rig, small["ids"], small["cap"], small["fp"], small["trust"], small["ops"])["hits"]
                              if s_ == sig), what)
                ctx.violation(what2, sig, {"suite": "proc", **small})
    finally:
        rig.close()
        rmtree(workdir)
    if lines:
        ctx.sample({"suite": "proc", "driver_line": lines[-1], "impl": impl[-1]})
    ctx.correspond("dedup-proc", inputs, lines, impl)


# ------------------------------------------------------------------------------------------------
# suite 2a: the same decision at production scale - the process-wide filter with its DEFAULT capacity over a
# processed_messages table around that size (a restart over rows = cap-1 | cap | cap+1 | cap+20), trust option on
# ------------------------------------------------------------------------------------------------

SIG_BIG = "C09:big-table:handler-ran-again-for-committed-message"


def run_big_case(rig: "ProcRig", rows_over: int, tail_n: int = 5) -> dict:
    """rows = default capacity + rows_over processed records; the last `tail_n` are the ones redelivered after the restart"""
    from stabilize.queue.dedup import get_deduplicator, reset_deduplicator

    reset_deduplicator()
    cap = get_deduplicator()._expected_items
    rows = cap + rows_over
    conn = rig.store._get_connection()
    conn.execute("DELETE FROM processed_messages")
    conn.executemany("INSERT INTO processed_messages (message_id, processed_at, handler_type, execution_id) VALUES (?, datetime('now'), 'bulk', 'e')",
                     ((f"big-{i}",) for i in range(rows)))
    conn.commit()
    rig.counts = {}
    rig.cap, rig.fp, rig.trust = None, None, True
    # a new process with the default filter: QueueProcessor.__init__ hydrates it
    from stabilize import QueueProcessor
    from stabilize.queue.messages import StartWorkflow
    from stabilize.queue.processor.config import QueueProcessorConfig

    reset_deduplicator()
    rig.processor = QueueProcessor(rig.queue, config=QueueProcessorConfig(dedup_trust_negative_cache=True), store=rig.store)
    rig.processor.register_handler_func(StartWorkflow, rig._handler)
    d = get_deduplicator()
    out = f"auth={b01(d.authoritative)} n={d.items_added}"
    hits = []
    for i in list(range(rows - tail_n, rows)) + [0, rows // 2]:
        mid = f"big-{i}"
        if rig.deliver(mid, "pr", False):
            hits.append((f"{rows} processed records, default filter capacity {cap}, dedup_trust_negative_cache=True: after a restart the handler "
                         f"ran again for {mid!r} whose processed record is committed (filter authoritative={d.authoritative}, hydrated {d.items_added} ids)",
                         SIG_BIG))
            break
    conn.execute("DELETE FROM processed_messages")
    conn.commit()
    return {"cap": cap, "rows": rows, "out": out, "hits": hits}


def big_suite(ctx, overs=(-1, 0, 1, 20)) -> None:
    workdir = core.scratch_dir()
    rig = ProcRig(workdir, "big")
    inputs, lines, impl = [], [], []
    try:
        for over in overs:
            res = run_big_case(rig, over)
            case = {"suite": "big", "rows_over_capacity": over, "cap": res["cap"], "rows": res["rows"]}
            ctx.count({"big": over}, nontrivial=True)
            ctx.tag(f"big-table:rows-minus-cap={over}:{res['out'].split(' ')[0]}")
            inputs.append(case)
            lines.append(f"dedup big {res['cap']} {res['rows']}")
            impl.append(res["out"])
            for what, sig in res["hits"]:
                ctx.violation(what, sig, case)
    finally:
        rig.close()
        rmtree(workdir)
    ctx.correspond("dedup-big-table", inputs, lines, impl)


# ------------------------------------------------------------------------------------------------
# suite 2b: the retention sweep deletes only what is older than the configured age (monitor only)
# ------------------------------------------------------------------------------------------------

SIG_RETENTION = "C09:retention-deletes-record-younger-than-max-age"


def retention_suite(ctx) -> None:
    """cleanup_old_processed_messages(max_age_hours=H) must keep every record younger than H hours: those records are what
    the guarantee rests on while the operator's window is open."""
    workdir = core.scratch_dir()
    rig = ProcRig(workdir, "retention")
    try:
        ages_h = [0, 1, 5, 23, 25, 47]
        for H in (2, 6, 24, 48):
            conn = rig.store._get_connection()
            conn.execute("DELETE FROM processed_messages")
            conn.commit()
            for a in ages_h:
                rig.store.mark_message_processed(f"age-{a}h", handler_type="x", execution_id="e")
                conn.execute("UPDATE processed_messages SET processed_at = datetime('now', 'utc', ?) WHERE message_id = ?",
                             (f"-{a} hours", f"age-{a}h"))
            conn.commit()
            rig.store.cleanup_old_processed_messages(max_age_hours=H)
            for a in ages_h:
                alive = rig.store.is_message_processed(f"age-{a}h")
                ctx.count({"retention": [H, a]}, nontrivial=True)
                ctx.tag("retention-kept" if alive else "retention-deleted")
                if a < H and not alive:
                    ctx.violation(f"cleanup_old_processed_messages(max_age_hours={H}) deleted a processed record that is {a} h old",
                                  SIG_RETENTION, {"suite": "retention", "max_age_hours": H, "record_age_hours": a})
                if a > H and alive:
                    ctx.notes.append(f"retention: record {a} h old survived max_age_hours={H}")
    finally:
        rig.close()
        rmtree(workdir)


# ------------------------------------------------------------------------------------------------
# suite 3: the real handlers, every message redelivered later
# ------------------------------------------------------------------------------------------------

class Counting:
    """wraps a real handler; counts invocations per message id"""

    def __init__(self, inner, counts: dict):
        self.inner = inner
        self.counts = counts

    @property
    def message_type(self):
        return self.inner.message_type

    def handle(self, message) -> None:
        self.counts[message.message_id] = self.counts.get(message.message_id, 0) + 1
        self.inner.handle(message)


def engine_tasks():
    from stabilize import TaskResult
    from stabilize.tasks.interface import Task

    class Ok(Task):
        def execute(self, stage):  # noqa: ANN001
            return TaskResult.success(outputs={"x": 1})

    return {"ok": Ok}


def engine_case(ctx, workdir: Path, idx: int, rng, script: dict | None = None, verbose: bool = False) -> dict:
    from stabilize import Orchestrator
    from stabilize.models.stage import StageExecution
    from stabilize.models.task import TaskExecution
    from stabilize.models.workflow import Workflow
    from stabilize.queue.dedup import get_deduplicator, reset_deduplicator
    from stabilize.queue.processor.config import QueueProcessorConfig

    spec = script or {"cap": rng.choice([2, 4, 8, 64]), "fp": rng.choice([0.01, 0.2]), "trust": rng.random() < 0.5,
                      "stages": rng.randint(1, 3), "tasks": rng.randint(1, 2), "wfs": rng.randint(1, 2), "choices": None}
    cfg = QueueProcessorConfig(dedup_trust_negative_cache=spec["trust"])
    env = ProcEnv(workdir, f"eng{idx}", tasks=engine_tasks(), proc_config=cfg, dedup_items=None)
    counts: dict[str, int] = {}

    def wrap(proc) -> None:
        for t, h in list(proc._handlers.items()):
            proc._handlers[t] = Counting(h, counts)

    def restart() -> None:
        reset_deduplicator()
        get_deduplicator(expected_items=spec["cap"], false_positive_rate=spec["fp"])
        env.processor = env.new_processor(cfg)
        wrap(env.processor)

    restart()
    for w in range(spec["wfs"]):
        stages = []
        for s in range(spec["stages"]):
            tasks = [TaskExecution.create(name=f"t{j}", implementing_class="ok", stage_start=(j == 0), stage_end=(j == spec["tasks"] - 1))
                     for j in range(spec["tasks"])]
            stages.append(StageExecution(ref_id=f"s{s}", type="t", name=f"s{s}", requisite_stage_ref_ids=({f"s{s - 1}"} if s else set()),
                                         context={}, tasks=tasks))
        wf = Workflow.create(application="c09", name=f"w{w}", stages=stages)
        env.store.store(wf)
        Orchestrator(env.queue).start(wf)

    handled: list = []          # copies of delivered messages, in delivery order
    ordinal: dict[str, int] = {}
    ops: list[str] = ["restart"]
    outs: list[str] = []
    hits: list[tuple[str, str]] = []
    choices_in = spec.get("choices")
    choices_out: list = []
    d = get_deduplicator()
    outs.append(f"auth={b01(d.authoritative)} n={d.items_added}")
    step = 0
    try:
        while step < 400:
            rows = env.rows()
            if choices_in is not None:
                if step >= len(choices_in):
                    break
                kind, arg = choices_in[step]
            else:
                r = rng.random()
                if handled and r < 0.45:
                    kind, arg = "re", rng.randrange(len(handled))
                elif r < 0.52:
                    kind, arg = "restart", 0
                elif r < 0.58:
                    kind, arg = "rot", 0
                elif rows:
                    kind, arg = "next", int(rng.random() < 0.05)
                elif handled and step < 60:
                    kind, arg = "re", rng.randrange(len(handled))
                else:
                    break
            if kind == "next" and not rows:
                break
            step += 1
            choices_out.append([kind, arg])
            d = get_deduplicator()
            if kind == "restart":
                restart()
                d = get_deduplicator()
                ops.append("restart")
                outs.append(f"auth={b01(d.authoritative)} n={d.items_added}")
                continue
            if kind == "rot":
                d.reset()
                if d.authoritative:
                    hits.append(("reset() left the filter authoritative", SIG_AUTH))
                env.processor._hydrate_deduplicator()
                ops.append("rot")
                outs.append(f"auth={b01(d.authoritative)} n={d.items_added}")
                continue
            if kind == "next":
                m = env.poll_row(rows[0]["id"])
                if m is None:
                    break
                handled.append(copy.copy(m))
                aged = bool(arg)
            else:
                m = copy.copy(handled[arg % len(handled)])
                aged = False
            mid = m.message_id
            if mid not in ordinal:
                ordinal[mid] = len(ordinal)
            if aged:
                d._creation_time -= 10 ** 6
            committed_before = env.store.is_message_processed(mid)
            before = counts.get(mid, 0)
            env.processor._handle_message(m)
            if kind == "next":
                env.queue.ack(m)
            ran = counts.get(mid, 0) > before
            d = get_deduplicator()
            ops.append(f"h:{ordinal[mid]}:pr" + (":a" if aged else ""))
            outs.append(f"{'run' if ran else 'skip'} auth={b01(d.authoritative)} n={d.items_added} seen={b01(d.maybe_seen(mid))}")
            if verbose:
                print(f"   {type(m).__name__:18s} id={mid:4s} {kind:7s} -> {outs[-1]}")
            if committed_before and ran:
                hits.append((f"{type(m).__name__} (message {mid}) was handled again although its processed record was committed "
                             f"(trust_negative_cache={spec['trust']})", SIG_RERUN))
        d = get_deduplicator()
        ids = [None] * len(ordinal)
        for mid, i in ordinal.items():
            ids[i] = mid
        line = f"dedup proc size={d._size} cap={spec['cap']} trust={b01(spec['trust'])} mor={b01(MARK_ON_RAISE)} pos={pos_table(d, ids)} ops={';'.join(ops)}"
    finally:
        env.close()
        for suffix in ("", "-wal", "-shm"):
            Path(str(env.path) + suffix).unlink(missing_ok=True)
    canon = {k: spec[k] for k in ("cap", "fp", "trust", "stages", "tasks", "wfs")}
    canon["choices"] = choices_out
    return {"line": line, "impl": "|".join(outs), "hits": hits, "canon": canon, "redeliveries": sum(1 for k, _ in choices_out if k == "re")}


def engine_suite(ctx) -> None:
    rng = ctx.rng
    workdir = core.scratch_dir()
    inputs, lines, impl = [], [], []
    try:
        for i in range(ctx.n(200, 2000)):
            res = engine_case(ctx, workdir, i, rng)
            ctx.count(res["canon"], nontrivial=res["redeliveries"] > 0)
            ctx.tag("engine-trust-on" if res["canon"]["trust"] else "engine-trust-off")
            ctx.extra["engine_redeliveries"] = ctx.extra.get("engine_redeliveries", 0) + res["redeliveries"]
            inputs.append(res["canon"])
            lines.append(res["line"])
            impl.append(res["impl"])
            for what, sig in res["hits"]:
                ctx.violation(what, sig, {"suite": "engine", **res["canon"]})
    finally:
        rmtree(workdir)
    if lines:
        ctx.sample({"suite": "engine", "driver_line": lines[0][:600], "impl": impl[0][:600]})
    ctx.correspond("dedup-engine", inputs, lines, impl)


# ------------------------------------------------------------------------------------------------
# check interface
# ------------------------------------------------------------------------------------------------

def _corpus() -> list[dict]:
    d = core.VERIF / "replays" / "C09"
    out = []
    if d.is_dir():
        for f in sorted(d.glob("*.json")):
            body = json.loads(f.read_text())
            out.append(body.get("replay", body))
    return out


def run(ctx) -> None:
    logging.disable(logging.CRITICAL)
    corpus = [c for c in _corpus() if c.get("suite") == "proc"]
    bloom_suite(ctx)
    proc_suite(ctx, cases=[{k: c[k] for k in ("ids", "cap", "fp", "trust", "ops")} for c in corpus])
    engine_suite(ctx)
    retention_suite(ctx)
    big_suite(ctx)


def search(ctx) -> None:
    logging.disable(logging.CRITICAL)
    proc_suite(ctx, n=ctx.n(3000, 15000))


def replay(ctx, body) -> int:
    logging.disable(logging.CRITICAL)
    import random

    r = body.get("replay", body)
    suite = r.get("suite", "proc")
    workdir = core.scratch_dir()
    try:
        if suite == "proc":
            rig = ProcRig(workdir, "replay")
            print(f"replaying C09 proc case: ids={r['ids']} cap={r['cap']} trust={r['trust']}")
            print(f"   {'restart':14s} (implicit)")
            res = run_proc_case(rig, r["ids"], r["cap"], r["fp"], r["trust"], r["ops"], verbose=True)
            model = ctx.lean([proc_line(rig, r["ids"], r["cap"], r["trust"], res["model_ops"])])
            if model is not None:
                print("   model:", model[0])
                print("   impl :", "|".join(res["outs"]))
            rig.close()
            hits = res["hits"]
        elif suite == "big":
            rig = ProcRig(workdir, "replay")
            res = run_big_case(rig, r["rows_over_capacity"])
            model = ctx.lean([f"dedup big {res['cap']} {res['rows']}"])
            print(f"   default capacity {res['cap']}, {res['rows']} processed records, new process: {res['out']}" + (f"   model: {model[0]}" if model else ""))
            hits = res["hits"]
            if model is not None and model[0] != res["out"]:
                hits = hits + [("model and implementation disagree on the hydration decision", "corr")]
            rig.close()
        elif suite == "retention":
            rig = ProcRig(workdir, "replay")
            H, a = r["max_age_hours"], r["record_age_hours"]
            rig.store.mark_message_processed("rec", handler_type="x", execution_id="e")
            conn = rig.store._get_connection()
            conn.execute("UPDATE processed_messages SET processed_at = datetime('now', 'utc', ?) WHERE message_id = 'rec'", (f"-{a} hours",))
            conn.commit()
            print("   processed_at =", conn.execute("SELECT processed_at FROM processed_messages").fetchone()[0], f"({a} h old)")
            n = rig.store.cleanup_old_processed_messages(max_age_hours=H)
            alive = rig.store.is_message_processed("rec")
            print(f"   cleanup_old_processed_messages(max_age_hours={H}) removed {n}; record still there: {alive}")
            hits = [] if (alive or a >= H) else [(f"record {a} h old deleted by a sweep with max_age_hours={H}", SIG_RETENTION)]
            rig.close()
        elif suite == "engine":
            spec = dict(r)
            res = engine_case(ctx, workdir, 0, random.Random(0), script=spec, verbose=True)
            hits = res["hits"]
        else:
            from stabilize.queue.dedup import BloomDeduplicator

            d = BloomDeduplicator(expected_items=r["expected_items"], false_positive_rate=r["fp"])
            live: set[str] = set()
            hits = []
            for op in r["ops"]:
                parts = op.split(":")
                if parts[0] == "m":
                    d.mark_seen(r["ids"][int(parts[1])]); live.add(r["ids"][int(parts[1])])
                elif parts[0] == "hyd" and parts[1] != "-":
                    sel = [r["ids"][int(x)] for x in parts[1].split(",")]
                    d.hydrate(sel); live.update(sel)
                elif parts[0] == "reset":
                    d.reset(); live.clear()
                for s in live:
                    if not d.maybe_seen(s):
                        hits.append((f"after {op}: maybe_seen({s!r}) is False", SIG_FALSE_NEG))
                print(f"   {op:12s} live={sorted(live)}")
        for what, sig in hits:
            print(f"FAILS [{sig}]: {what}")
        return 1 if hits else 0
    finally:
        rmtree(workdir)
