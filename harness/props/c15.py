"""C15 — jump loops are bounded and always terminate (pure half: traversal functions + budget arithmetic).

Mode A:
  * `traversal`: the REAL get_resettable_downstream_stages / get_skippable_downstream_stages /
    get_downstream_stages / get_skipped_stages (+ the handler's backward test) on real Workflow /
    StageExecution objects versus `Stab.Jump` (driver token `jump`), every (source, target) pair.
  * `handler`: the REAL JumpToStageHandler.handle on a real SQLite store (no processor): which stages are
    re-armed / skipped / given `_jump_count`, whether the jump is accepted / rejected / ignored as stale (source not RUNNING),
    versus `jump effect` / `jump budget`.
Monitors (independent of the driver): set-based oracles for the property's sentences "a backward jump re-arms
exactly the target and the stages that depend only on it", "a forward jump marks the bypassed stages skipped",
"a stage can redirect only a bounded number of times (max_jumps)".
"""
from __future__ import annotations

import itertools
import json
import shutil
import sqlite3
from pathlib import Path

RULE = ("traversal: every graph (cyclic and dangling ones included) with <=3 stages exhaustively, named shapes (chain, diamond, "
        "diamond with outside fan-in, isolated stages, reversed listing order), random DAGs with 1..9 stages listed in random order, "
        "random cyclic/dangling graphs; for each graph every root and every (source,target) pair; "
        "handler: random DAGs <=6 stages x workflow/stage _max_jumps in {absent,0,1,2,3} x initial _jump_count in {absent,0..3} x "
        "sequences of <=7 jumps with forced pre-states (15% stale: source not RUNNING); distinct by canonical driver line; non-trivial when the graph has an edge")
ASSUMPTIONS = [
    "stage ref_ids are distinct; requisite_stage_ref_ids is a set (the model's prerequisite lists are order-insensitive)",
    "store_stage bumps stage_executions.version, so a changed version identifies the stages one jump rewrote",
    "user tasks / jump_context do not write the reserved keys _jump_count / _max_jumps",
]
TRUSTED_BASE = [
    "Stab.Jump (hand-written model of traversal.py and of the count/status writes of JumpToStageHandler) is tied to the code by this Mode-A differential only",
    "engine half (loops terminate on every schedule, re-armed stages run once per iteration) is in the Engine model / engine_suites",
]

FINDING_SIG = "stage-exceeds-max-jumps:count-lowered-by-incoming-jump"


# --------------------------------------------------------------------------------------
# graphs
# --------------------------------------------------------------------------------------

def gline(g) -> str:
    return ";".join(",".join(map(str, pre)) if pre else "-" for pre in g)


def nats(xs) -> str:
    xs = list(xs)
    return ",".join(str(x) for x in xs) if xs else "-"


def is_valid_dag(g) -> bool:
    n = len(g)
    if any(r >= n for pre in g for r in pre):
        return False
    state = [0] * n

    def visit(i) -> bool:
        if state[i] == 1:
            return False
        if state[i] == 2:
            return True
        state[i] = 1
        ok = all(visit(r) for r in g[i])
        state[i] = 2
        return ok

    return all(visit(i) for i in range(n))


def make_workflow(g, wf_ctx=None, stage_ctx=None):
    from stabilize.models.stage import StageExecution
    from stabilize.models.workflow import Workflow

    stages = [StageExecution(ref_id=f"s{i}", name=f"s{i}", context=dict((stage_ctx or {}).get(i, {})),
                             requisite_stage_ref_ids={f"s{r}" for r in pre}) for i, pre in enumerate(g)]
    if is_valid_dag(g) and g:
        wf = Workflow.create(application="verif", name="c15", stages=stages, context=dict(wf_ctx or {}))
    else:  # cyclic / dangling / empty: Workflow.create would reject it; the traversal functions do not care
        wf = Workflow(application="verif", name="c15", stages=stages)
        wf.context.update(wf_ctx or {})
    return wf, stages


SHAPES = {
    "chain4": [[], [0], [1], [2]],
    "chain4-reversed-listing": [[1], [2], [3], []],
    "diamond": [[], [0], [0], [1, 2]],
    "diamond-outside-fan-in": [[], [0], [0], [1, 2], [], [3, 4]],
    "isolated": [[], [], [0], []],
    "two-level-fan-in": [[], [], [0, 1], [0], [2, 3], [4]],
    "loop-side-branch": [[], [0], [1], [0], [2, 3]],
    "wide": [[], [0], [0], [0], [1, 2, 3], [4], [4], [5, 6]],
    "single": [[]],
    "self-cycle": [[0]],
    "two-cycle": [[1], [0]],
    "cycle-tail": [[2], [0], [1], [2]],
    "dangling": [[5], [0], [1, 7]],
}


def random_dag(rng, n):
    order = list(range(n))
    rng.shuffle(order)
    p = rng.choice([0.15, 0.3, 0.5, 0.8])
    g = [[] for _ in range(n)]
    for pos, i in enumerate(order):
        g[i] = sorted(r for r in order[:pos] if rng.random() < p)
        if len(g[i]) > 4:
            g[i] = sorted(rng.sample(g[i], 4))
    return g


def random_any(rng, n):
    p = rng.choice([0.15, 0.3, 0.5])
    g = [sorted(r for r in range(n + (1 if rng.random() < 0.2 else 0)) if rng.random() < p) for _ in range(n)]
    return g


def all_graphs(n):
    subsets = [list(s) for r in range(n + 1) for s in itertools.combinations(range(n), r)]
    for combo in itertools.product(subsets, repeat=n):
        yield [list(x) for x in combo]


# --------------------------------------------------------------------------------------
# independent oracles (sets; least fixed point by naive iteration / memoised recursion / BFS)
# --------------------------------------------------------------------------------------

def oracle_scope(g, root) -> set[int]:
    """Least set containing root and closed under: non-empty prerequisites all inside => inside."""
    n = len(g)
    if is_valid_dag(g):
        memo: dict[int, bool] = {}

        def inside(i) -> bool:  # top-down: on a DAG the closed set is determined recursively
            if i == root:
                return True
            if i not in memo:
                memo[i] = bool(g[i]) and all(inside(r) for r in g[i])
            return memo[i]

        return {i for i in range(n) if inside(i)} | {root}
    s = {root}
    while True:
        new = {i for i in range(n) if g[i] and set(g[i]) <= s} - s
        if not new:
            return s
        s |= new


def oracle_reach(g, root) -> set[int]:
    """Stages reachable from root by a non-empty path of 'is a prerequisite of' edges (BFS on successors)."""
    n = len(g)
    succ: dict[int, list[int]] = {}
    for i in range(n):
        for r in g[i]:
            succ.setdefault(r, []).append(i)
    seen: set[int] = set()
    todo = list(succ.get(root, []))
    while todo:
        i = todo.pop()
        if i in seen:
            continue
        seen.add(i)
        todo.extend(succ.get(i, []))
    return seen


def oracle_skipped(g, s, t) -> set[int]:
    return (oracle_scope(g, s) - {s}) - ({t} | oracle_reach(g, t))


# --------------------------------------------------------------------------------------
# traversal suite
# --------------------------------------------------------------------------------------

def traversal_graph(ctx, g, kind, inputs, lines, impl) -> None:
    from stabilize.handlers.jump_to_stage import traversal as T

    wf, stages = make_workflow(g)
    n = len(g)
    idx = {s.ref_id: i for i, s in enumerate(stages)}
    nontrivial = any(g)
    roots = list(range(n)) + ([n + 1] if kind in ("cyclic", "shape") else [])
    res_cache = {}
    for r in roots:
        ref = f"s{r}"
        res = [idx[s.ref_id] for s in T.get_resettable_downstream_stages(wf, ref)]
        skp = [idx[s.ref_id] for s in T.get_skippable_downstream_stages(wf, ref)]
        down = [idx[s.ref_id] for s in T.get_downstream_stages(wf, ref)]
        res_cache[r] = (res, down)
        for tok, val in (("resettable", res), ("downstream", sorted(down))):
            inputs.append({"kind": "traversal", "g": g, "fn": tok, "root": r})
            lines.append(f"jump {tok} {r} {gline(g)}")
            impl.append(nats(val))
            ctx.count(lines[-1], nontrivial)
        # monitors ------------------------------------------------------------------
        rep = {"kind": "traversal", "g": g, "src": r, "tgt": r}
        if skp != res:
            ctx.violation(f"skippable != resettable for root {r} in {gline(g)}", "skippable-differs-from-resettable", rep)
        if len(set(res)) != len(res) or r in res:
            ctx.violation(f"resettable has duplicates or contains the target: root {r}, {res}, graph {gline(g)}", "resettable-dup-or-root", rep)
        want = oracle_scope(g, r) - {r}
        if set(res) != want:
            ctx.violation(f"backward jump to s{r} would re-arm {sorted(res)} but the stages that depend only on it are {sorted(want)} "
                          f"(graph {gline(g)})", "rearm-set-not-least-closed-set", rep)
        if len(set(down)) != len(down) or set(down) != oracle_reach(g, r):
            ctx.violation(f"get_downstream_stages(s{r}) = {sorted(down)} but reachable set is {sorted(oracle_reach(g, r))} (graph {gline(g)})",
                          "downstream-not-reachability", rep)
        ctx.tag(f"resettable-size:{min(len(res), 4)}")
    for s in range(n):
        for t in range(n):
            sk = [idx[x.ref_id] for x in T.get_skipped_stages(wf, stages[s], stages[t])]
            back = (stages[s].id == stages[t].id) or (stages[s] in T.get_downstream_stages(wf, stages[t].ref_id))
            inputs.append({"kind": "traversal", "g": g, "fn": "skipped", "src": s, "tgt": t})
            lines.append(f"jump skipped {s} {t} {gline(g)}")
            impl.append(nats(sk))
            ctx.count(lines[-1], nontrivial)
            inputs.append({"kind": "traversal", "g": g, "fn": "backward", "src": s, "tgt": t})
            lines.append(f"jump backward {s} {t} {gline(g)}")
            impl.append(str(bool(back)).lower())
            ctx.count(lines[-1], nontrivial)
            rep = {"kind": "traversal", "g": g, "src": s, "tgt": t}
            want = oracle_skipped(g, s, t)
            if set(sk) != want or sk != sorted(sk):
                ctx.violation(f"get_skipped_stages(s{s} -> s{t}) = {sk} but the stages that depend only on the source, minus the target and "
                              f"everything downstream of it, are {sorted(want)} (graph {gline(g)})",
                              "skipped-set-wrong", rep)
            if back != (s == t or s in oracle_reach(g, t)):
                ctx.violation(f"jump s{s}->s{t} classified backward={back} (graph {gline(g)})", "backward-classification", rep)
            ctx.tag("pair:backward" if back else ("pair:forward-skips" if sk else "pair:forward-noskip"))
    ctx.tag(f"graph:{kind}", f"n:{n}")


def traversal_suite(ctx) -> None:
    inputs, lines, impl = [], [], []

    def flush(force=False):
        nonlocal inputs, lines, impl
        if lines and (force or len(lines) > 60_000):
            ctx.correspond("traversal", inputs, lines, impl)
            inputs, lines, impl = [], [], []

    for name, g in SHAPES.items():
        traversal_graph(ctx, g, "shape", inputs, lines, impl)
    ex_n = 3
    for n in range(0, ex_n + 1):
        for g in all_graphs(n):
            if n:
                traversal_graph(ctx, g, "exhaustive", inputs, lines, impl)
            flush()
    ctx.extra["traversal_exhaustive"] = f"all graphs (self/cyclic edges included) with <= {ex_n} stages: {sum((2 ** n) ** n for n in range(1, ex_n + 1))}"
    for _ in range(ctx.n(1500, 20000)):
        n = ctx.rng.choice([2, 3, 4, 5, 5, 6, 6, 7, 8, 9])
        traversal_graph(ctx, random_dag(ctx.rng, n), "dag", inputs, lines, impl)
        flush()
    for _ in range(ctx.n(500, 5000)):
        traversal_graph(ctx, random_any(ctx.rng, ctx.rng.choice([2, 3, 4, 5, 6])), "cyclic", inputs, lines, impl)
        flush()
    flush(True)
    ctx.sample({"suite": "traversal", "line": f"jump resettable 0 {gline(SHAPES['diamond-outside-fan-in'])}", "impl": "1,2,3"})


# --------------------------------------------------------------------------------------
# handler suite (real JumpToStageHandler on a real SQLite store)
# --------------------------------------------------------------------------------------

class HandlerRig:
    def __init__(self) -> None:
        from datetime import timedelta

        from harness import core
        from stabilize import SqliteQueue, SqliteWorkflowStore
        from stabilize.handlers.jump_to_stage.handler import JumpToStageHandler

        reset_globals()
        self.dir = core.scratch_dir()
        self.path = Path(self.dir) / "c15.db"
        url = f"sqlite:///{self.path}"
        self.store = SqliteWorkflowStore(url, create_tables=True)
        self.queue = SqliteQueue(url, lock_duration=timedelta(hours=1))
        self.queue._create_table()
        self.handler = JumpToStageHandler(self.queue, self.store)
        self.ro = sqlite3.connect(str(self.path), isolation_level=None)
        self.msg_seq = 0

    def close(self) -> None:
        try:
            self.ro.close()
        finally:
            reset_globals()
            shutil.rmtree(self.dir, ignore_errors=True)

    def rows(self, ids):
        out = []
        for sid in ids:
            st, ver, c = self.ro.execute("SELECT status, version, context FROM stage_executions WHERE id=?", (sid,)).fetchone()
            c = json.loads(c or "{}")
            out.append((st, ver, c.get("_jump_count"), bool(c.get("_jump_bypass"))))
        return out

    def run(self, sc) -> dict:
        """sc = {g, wf, st, cs, jumps:[[s,t],..], pre:[[status per stage] per jump]} -> per-jump observations"""
        from stabilize.queue.messages import JumpToStage

        g = sc["g"]
        stage_ctx = {}
        for i in range(len(g)):
            c = {}
            if sc["st"][i] is not None:
                c["_max_jumps"] = sc["st"][i]
            if sc["cs"][i] is not None:
                c["_jump_count"] = sc["cs"][i]
            stage_ctx[i] = c
        wf, stages = make_workflow(g, {} if sc["wf"] is None else {"_max_jumps": sc["wf"]}, stage_ctx)
        self.store.store(wf)
        ids = [s.id for s in stages]
        obs = []
        for (s, t), pre in zip(sc["jumps"], sc["pre"]):
            for sid, st in zip(ids, pre):
                self.ro.execute("UPDATE stage_executions SET status=? WHERE id=?", (st, sid))
            before = self.rows(ids)
            self.msg_seq += 1
            m = JumpToStage(execution_type=wf.type.value, execution_id=wf.id, stage_id=ids[s], target_stage_ref_id=f"s{t}")
            m.message_id = f"c15-{self.msg_seq}"
            self.handler.handle(m)
            after = self.rows(ids)
            obs.append({"before": before, "after": after, "processed": bool(self.store.is_message_processed(m.message_id))})
        self.ro.execute("DELETE FROM queue_messages")
        return {"obs": obs}


def reset_globals() -> None:
    from stabilize import RunTaskHandler
    from stabilize.events import reset_event_bus, reset_event_migrator, reset_event_recorder
    from stabilize.persistence.connection import ConnectionManager, SingletonMeta
    from stabilize.queue.dedup import reset_deduplicator
    from stabilize.resilience.cancellation import reset_cancellation_state

    SingletonMeta.reset(ConnectionManager)
    RunTaskHandler._executing_tasks.clear()
    reset_cancellation_state()
    reset_event_bus()
    reset_event_recorder()
    reset_event_migrator()
    reset_deduplicator()


def effective_max(sc, s) -> int:
    if sc["wf"] is not None:
        return sc["wf"]
    if sc["st"][s] is not None:
        return sc["st"][s]
    return 10


def handler_scenario(rng, uniform_pre: bool):
    n = rng.choice([1, 2, 2, 3, 3, 4, 5, 6])
    g = random_dag(rng, n) if rng.random() < 0.8 else [list(x) for x in rng.choice(list(SHAPES.values())[:8])]
    n = len(g)
    wf = rng.choice([None, None, None, 0, 1, 2, 3, 4, 5])
    st = [rng.choice([None, None, None, None, 0, 1, 2, 3, 12]) for _ in range(n)]
    cs = [rng.choice([None, None, None, 0, 0, 1, 2, 3]) for _ in range(n)]
    k = rng.randint(1, 7)
    # bias: few distinct sources/targets so that counts interact (ping-pong, fan of sources into one target)
    hot = [rng.randrange(n) for _ in range(rng.choice([1, 2, 2, 3]))]
    jumps = [[rng.choice(hot), rng.choice(hot) if rng.random() < 0.7 else rng.randrange(n)] for _ in range(k)]
    pre = []
    for s, _ in jumps:
        if uniform_pre:
            p = ["NOT_STARTED"] * n
        else:
            p = [rng.choice(["NOT_STARTED", "SUCCEEDED", "SUCCEEDED", "RUNNING", "TERMINAL", "SKIPPED"]) for _ in range(n)]
        # the source is RUNNING (a task of it asked for the jump) unless the message is stale
        p[s] = "RUNNING" if rng.random() < 0.85 else rng.choice(["NOT_STARTED", "SUCCEEDED", "CANCELED", "TERMINAL", "PAUSED", "SKIPPED"])
        pre.append(p)
    return {"kind": "handler", "g": g, "wf": wf, "st": st, "cs": cs, "jumps": jumps, "pre": pre, "uniform": uniform_pre}


def check_handler_scenario(ctx, rig: HandlerRig, sc, inputs, lines, impl) -> None:
    g = sc["g"]
    n = len(g)
    res = rig.run(sc)
    flags = []
    counts = [0 if c is None else c for c in sc["cs"]]
    per_source_accepts: dict[int, int] = {}
    lowered: set[int] = set()
    for j, ((s, t), pre, ob) in enumerate(zip(sc["jumps"], sc["pre"], res["obs"])):
        before, after = ob["before"], ob["after"]
        untouched = all(after[i] == before[i] for i in range(n))
        stale = pre[s] != "RUNNING"
        ignored = untouched and stale
        rejected = (not ignored) and after[s][0] == "TERMINAL" and all(after[i][1] == before[i][1] for i in range(n) if i != s)
        accepted = not rejected and not ignored
        flags.append("I" if ignored else "A" if accepted else "R")
        src_count = 0 if before[s][2] is None else before[s][2]
        mx = effective_max(sc, s)
        rep = dict(sc, upto=j + 1)
        # monitor: a JumpToStage is requested by a task of a RUNNING stage; a stale one must change nothing
        if stale and not untouched:
            ctx.violation(f"stale JumpToStage s{s}->s{t} (source {pre[s]}, not RUNNING) was applied: "
                          f"{[(b[0], a[0]) for b, a in zip(before, after) if a != b]}", "stale-jump-applied", rep)
        if not ob.get("processed", True):
            ctx.violation(f"JumpToStage s{s}->s{t} (source {pre[s]}) handled but not marked processed", "jump-message-not-marked-processed", rep)
        if ignored:
            ctx.tag("jump:ignored-stale")
            if sc["uniform"]:
                inputs.append(dict(sc, upto=j + 1, what="effect"))
                lines.append(f"jump effect 0 {s} {t} {gline(g)}")
                impl.append("IGNORED")
                ctx.count(lines[-1] + f"#{j}", any(g))
            continue
        # monitor: budget as stated
        if accepted and src_count >= mx:
            ctx.violation(f"jump s{s}->s{t} accepted although the source's _jump_count {src_count} >= max_jumps {mx}", "jump-accepted-beyond-budget", rep)
        if rejected and src_count < mx:
            ctx.violation(f"jump s{s}->s{t} rejected although the source's _jump_count {src_count} < max_jumps {mx}", "jump-rejected-within-budget", rep)
        if accepted:
            per_source_accepts[s] = per_source_accepts.get(s, 0) + 1
            cnt = lambda row: 0 if row[2] is None else row[2]  # noqa: E731
            lowered_now = {i for i in range(n) if cnt(after[i]) < cnt(before[i])}
            lowered |= lowered_now
            # monitor: an accepted jump consumes the source's budget (the mechanism that bounds loops)
            want_t = cnt(before[s]) + 1 if s == t else max(cnt(before[t]), cnt(before[s]) + 1)
            if cnt(after[s]) != cnt(before[s]) + 1 or cnt(after[t]) != want_t:
                ctx.violation(f"accepted jump s{s}->s{t} did not consume budget: source count {cnt(before[s])}->{cnt(after[s])}, "
                              f"target count {cnt(before[t])}->{cnt(after[t])}", "accepted-jump-does-not-consume-budget", rep)
            if sc["cs"][s] in (None, 0) and per_source_accepts[s] > max(mx, 0):
                if s in lowered:
                    ctx.violation(f"stage s{s} was granted {per_source_accepts[s]} jumps with max_jumps={mx} (its _jump_count was overwritten "
                                  f"by an incoming jump from a stage with a lower count)", FINDING_SIG, rep)
                else:
                    ctx.violation(f"stage s{s} was granted {per_source_accepts[s]} jumps with max_jumps={mx}", "stage-exceeds-max-jumps", rep)
            changed = {i for i in range(n) if after[i][1] != before[i][1]}
            rearm_obs = sorted(i for i in changed if after[i][0] == "NOT_STARTED")
            skip_obs = sorted(i for i in changed if after[i][0] == "SKIPPED")
            src_succ = after[s][0] == "SUCCEEDED" and s in changed
            backward = s == t or s in oracle_reach(g, t)
            # monitor: re-arm / skip sets (property sentence), independent oracle
            want_rearm = {t} | (oracle_scope(g, t) - {t}) | ({s} if backward else set())
            if set(rearm_obs) != want_rearm:
                ctx.violation(f"jump s{s}->s{t} re-armed {rearm_obs}, expected target + stages depending only on it"
                              f"{' + source' if backward else ''} = {sorted(want_rearm)} (graph {gline(g)})", "handler-rearm-set", rep)
            want_skip = set() if backward else {i for i in oracle_skipped(g, s, t) if pre[i] == "NOT_STARTED"}
            if set(skip_obs) != want_skip:
                ctx.violation(f"forward jump s{s}->s{t} skipped {skip_obs}, expected {sorted(want_skip)} (graph {gline(g)})", "handler-skip-set", rep)
            if src_succ != (not backward):
                ctx.violation(f"jump s{s}->s{t}: source SUCCEEDED={src_succ}, backward={backward}", "handler-source-status", rep)
            if not after[t][3]:
                ctx.violation(f"jump s{s}->s{t}: target has no _jump_bypass", "handler-no-bypass", rep)
            ctx.tag("jump:backward" if backward else "jump:forward", "jump:self" if s == t else "jump:other")
            if sc["uniform"]:
                inputs.append(dict(sc, upto=j + 1, what="effect"))
                lines.append(f"jump effect 1 {s} {t} {gline(g)}")
                impl.append(f"{'B' if src_succ is False else 'F'} rearm={nats(rearm_obs)} skip={nats(skip_obs)} src={'S' if src_succ else '-'}")
                ctx.count(lines[-1] + f"#{j}", any(g))
            if lowered_now:
                ctx.violation(f"jump s{s}->s{t} LOWERED the _jump_count of stage(s) {sorted(lowered_now)}: "
                              f"{[cnt(b) for b in before]} -> {[cnt(a) for a in after]}", "jump-count-lowered", rep)
        else:
            ctx.tag("jump:rejected")
        counts = [0 if a[2] is None else a[2] for a in after]
    inputs.append(dict(sc, what="budget"))
    opt = lambda x: "none" if x is None else str(x)  # noqa: E731
    lines.append(f"jump budget {opt(sc['wf'])} {','.join(opt(x) for x in sc['st'])} "
                 f"{','.join(str(0 if c is None else c) for c in sc['cs'])} {';'.join(f'{s}:{t}' + ('' if p[s] == 'RUNNING' else ':x') for (s, t), p in zip(sc['jumps'], sc['pre']))}")
    impl.append("".join(flags) + "|" + ",".join(str(c) for c in counts))
    ctx.count(lines[-1], True)


def handler_suite(ctx) -> None:
    rig = HandlerRig()
    inputs, lines, impl = [], [], []
    try:
        for k in range(ctx.n(800, 10000)):
            sc = handler_scenario(ctx.rng, uniform_pre=(k % 5 != 0))
            check_handler_scenario(ctx, rig, sc, inputs, lines, impl)
    finally:
        rig.close()
    ctx.correspond("handler", inputs, lines, impl)


# --------------------------------------------------------------------------------------
# the finding on the full real engine (store + queue + QueueProcessor + scripted tasks)
# --------------------------------------------------------------------------------------

def engine_loop(body) -> dict:
    """Two (or more) stages in a chain; each task follows a script of 'J<k>' (jump to stage k) / 'S' (succeed).
    Returns accepted/rejected jumps per source as seen by the real `_check_jump_count`, and the final state."""
    from datetime import timedelta

    from harness import core
    from stabilize import QueueProcessor, SqliteQueue, SqliteWorkflowStore, TaskRegistry
    from stabilize.handlers.jump_to_stage.handler import JumpToStageHandler
    from stabilize.models.stage import StageExecution
    from stabilize.models.task import TaskExecution
    from stabilize.models.workflow import Workflow
    from stabilize.queue.messages import StartWorkflow
    from stabilize.resilience.config import HandlerConfig
    from stabilize.tasks.interface import Task
    from stabilize.tasks.result import TaskResult

    scripts = body["scripts"]
    g = body.get("g") or [[] if i == 0 else [i - 1] for i in range(len(scripts))]
    reset_globals()
    d = core.scratch_dir()
    calls: list[tuple[str, int, bool]] = []
    execs = [0] * len(scripts)
    orig = JumpToStageHandler._check_jump_count

    def wrapped(self, message, execution, source_stage):
        ok = orig(self, message, execution, source_stage)
        calls.append((source_stage.ref_id, source_stage.context.get("_jump_count", 0), ok))
        return ok

    try:
        JumpToStageHandler._check_jump_count = wrapped
        url = f"sqlite:///{d}/loop.db"
        store = SqliteWorkflowStore(url, create_tables=True)
        queue = SqliteQueue(url, lock_duration=timedelta(hours=1))
        queue._create_table()
        reg = TaskRegistry()

        def mk(i):
            class Scripted(Task):
                def execute(self, stage):  # noqa: ANN001
                    k = execs[i]
                    execs[i] += 1
                    oc = scripts[i][min(k, len(scripts[i]) - 1)]
                    return TaskResult.jump_to(f"s{int(oc[1:])}") if oc[0] == "J" else TaskResult.success()
            return Scripted()

        stages = []
        for i, pre in enumerate(g):
            reg.register(f"C15_{i}", mk(i))
            stages.append(StageExecution(ref_id=f"s{i}", type="scripted", name=f"s{i}", context={},
                                         tasks=[TaskExecution.create(name="t", implementing_class=f"C15_{i}", stage_start=True, stage_end=True)],
                                         requisite_stage_ref_ids={f"s{r}" for r in pre}))
        wf = Workflow.create(application="verif", name="c15-loop", stages=stages,
                             context={} if body.get("max") is None else {"_max_jumps": body["max"]})
        store.store(wf)
        hc = HandlerConfig(task_backoff_min_delay_ms=1, task_backoff_max_delay_ms=2, handler_retry_delay_seconds=0.001)
        proc = QueueProcessor(queue, store=store, task_registry=reg, handler_config=hc)
        with store.transaction(queue) as txn:
            txn.push_message(StartWorkflow(execution_type=wf.type.value, execution_id=wf.id))
        proc.process_all(timeout=120)
        final = store.retrieve(wf.id)
        return {"calls": calls, "executions": execs, "workflow": final.status.name,
                "stages": [s.status.name for s in final.stages], "counts": [s.context.get("_jump_count") for s in final.stages]}
    finally:
        JumpToStageHandler._check_jump_count = orig
        reset_globals()
        shutil.rmtree(d, ignore_errors=True)


def check_engine_loop(ctx, body, verbose=False) -> bool:
    r = engine_loop(body)
    mx = 10 if body.get("max") is None else body["max"]
    accepted = [c for c in r["calls"] if c[2]]
    per_src: dict[str, int] = {}
    for ref, _, _ in accepted:
        per_src[ref] = per_src.get(ref, 0) + 1
    if verbose:
        print("real engine, _max_jumps =", mx)
        for ref, cnt, ok in r["calls"]:
            print(f"  JumpToStage from {ref}: source _jump_count={cnt} -> {'accepted' if ok else 'REJECTED'}")
        print("  task executions per stage:", r["executions"], " workflow:", r["workflow"], " stages:", r["stages"], " final counts:", r["counts"])
    # what the model says about the same request sequence
    idx = lambda ref: int(ref[1:])  # noqa: E731
    bad = False
    last: dict[str, int] = {}
    lowered = set()
    for ref, cnt, ok in r["calls"]:
        if ref in last and cnt < last[ref]:
            lowered.add(ref)
        if ok:
            last[ref] = cnt + 1
    for ref, k in per_src.items():
        if k > max(mx, 0) and ref not in lowered:
            bad = True
            ctx.violation(f"real engine: stage {ref} was granted {k} jumps with _max_jumps={mx}", "stage-exceeds-max-jumps", body)
        elif k > max(mx, 0):
            bad = True
            ctx.violation(f"real engine: stage {ref} was granted {k} jumps (workflow total {len(accepted)}) with _max_jumps={mx}: an incoming "
                          f"jump overwrites the target's _jump_count with source count + 1, lowering it", FINDING_SIG, body)
    if len(accepted) > len(body["scripts"]) * max(mx, 0):
        bad = True
        ctx.violation(f"real engine: {len(accepted)} accepted jumps in a workflow of {len(body['scripts'])} stages with _max_jumps={mx} "
                      f"(bound n*M = {len(body['scripts']) * max(mx, 0)})", "workflow-exceeds-n-times-max-jumps", body)
    ctx.extra.setdefault("engine_loops", []).append({"max": mx, "accepted_total": len(accepted), "per_source": per_src,
                                                     "workflow": r["workflow"], "executions": r["executions"]})
    ctx.count(body, True)
    _ = idx
    return bad


def regression_corpus(ctx) -> None:
    from harness import core

    d = core.VERIF / "replays" / "C15"
    if not d.is_dir():
        return
    for f in sorted(d.glob("*.json")):
        body = json.loads(f.read_text())
        body = body.get("replay", body)
        if body.get("kind") == "engine-loop":
            check_engine_loop(ctx, body)
            ctx.tag("corpus:engine-loop")
        elif body.get("kind") == "traversal":
            inputs, lines, impl = [], [], []
            traversal_graph(ctx, body["g"], "corpus", inputs, lines, impl)
            ctx.correspond("traversal-corpus", inputs, lines, impl)
        elif body.get("kind") == "handler":
            rig = HandlerRig()
            try:
                inputs, lines, impl = [], [], []
                check_handler_scenario(ctx, rig, body, inputs, lines, impl)
                ctx.correspond("handler-corpus", inputs, lines, impl)
            finally:
                rig.close()


def model_loop_suite(ctx) -> None:
    """The counter-example sequences of Props/C15 through the driver and through the real handler."""
    rig = HandlerRig()
    inputs, lines, impl = [], [], []
    try:
        for mx in ([1, 2, 3] if not ctx.thorough else [1, 2, 3, 4, 10]):
            jumps = []
            for k in range(mx, 0, -1):
                jumps += [[0, 0]] * k + [[1, 0]]
            sc = {"kind": "handler", "g": [[], [0]], "wf": mx, "st": [None, None], "cs": [None, None], "jumps": jumps,
                  "pre": [["RUNNING", "NOT_STARTED"] if s == 0 else ["SUCCEEDED", "RUNNING"] for s, _ in jumps], "uniform": False}
            check_handler_scenario(ctx, rig, sc, inputs, lines, impl)
            ctx.tag("loop:ping-all")
    finally:
        rig.close()
    ctx.correspond("handler-ping", inputs, lines, impl)
    if ctx.thorough:
        # the default budget (no _max_jumps anywhere => 10) on the full real engine; before the fix of the jump-count
        # finding this loop was granted 65 jumps (55 from s0), now s0 is TERMINAL at its 11th request
        a = []
        for k in range(10, 0, -1):
            a += ["J0"] * k + ["S"]
        check_engine_loop(ctx, {"kind": "engine-loop", "max": None, "scripts": [a + ["S"], ["J0"] * 10 + ["S"]]})


def run(ctx) -> None:
    import logging

    logging.getLogger("stabilize").setLevel(logging.CRITICAL)  # the handler logs every rejected jump as an error
    regression_corpus(ctx)
    traversal_suite(ctx)
    handler_suite(ctx)
    model_loop_suite(ctx)
    try:
        from harness import engine_suites
    except ImportError:
        return
    engine_suites.run_for(ctx, "C15")


def search(ctx) -> None:
    import logging

    logging.getLogger("stabilize").setLevel(logging.CRITICAL)
    for _ in range(ctx.n(3000, 20000)):
        n = ctx.rng.choice([3, 4, 5, 6, 7, 8, 9])
        g = random_dag(ctx.rng, n) if ctx.rng.random() < 0.8 else random_any(ctx.rng, n)
        traversal_graph(ctx, g, "search", [], [], [])
    rig = HandlerRig()
    try:
        for _ in range(ctx.n(500, 3000)):
            check_handler_scenario(ctx, rig, handler_scenario(ctx.rng, False), [], [], [])
    finally:
        rig.close()
    try:
        from harness import engine_suites
    except ImportError:
        return
    engine_suites.search_for(ctx, "C15")


def replay(ctx, body) -> int:
    if body.get("kind_engine") or (isinstance(body.get("replay"), dict) and body["replay"].get("kind_engine")):
        from harness import engine_suites

        return engine_suites.replay(ctx, body)
    import logging

    logging.getLogger("stabilize").setLevel(logging.CRITICAL)
    body = body.get("replay", body)
    kind = body.get("kind")
    inputs, lines, impl = [], [], []
    if kind == "engine-loop":
        check_engine_loop(ctx, body, verbose=True)
    elif kind == "traversal":
        g = body["g"]
        print("graph (prerequisites per stage):", gline(g), " source:", body.get("src"), " target:", body.get("tgt"))
        traversal_graph(ctx, g, "replay", inputs, lines, impl)
    elif kind == "handler":
        sc = dict(body)
        if "upto" in sc:
            sc["jumps"], sc["pre"] = sc["jumps"][: sc["upto"]], sc["pre"][: sc["upto"]]
        print("graph:", gline(sc["g"]), " workflow max:", sc["wf"], " stage max:", sc["st"], " initial counts:", sc["cs"], " jumps:", sc["jumps"])
        rig = HandlerRig()
        try:
            check_handler_scenario(ctx, rig, sc, inputs, lines, impl)
        finally:
            rig.close()
    else:
        print("unknown replay kind", kind)
        return 2
    model = ctx.lean(lines) if lines else []
    rc = 0
    if model is not None:
        for l, a, b in zip(lines, impl, model):
            if a != b:
                print(f"FAILS : {l}\n        impl  = {a}\n        model = {b}")
                rc = 1
    for h in ctx.monitor_hits:
        print("FAILS :", h["what"])
        rc = 1
    if rc == 0:
        print("holds on this input")
    return rc
