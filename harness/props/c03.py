"""C03 — a stage never runs before its dependencies allow it (pure half: `evaluate_readiness`).

Mode A: the REAL `stabilize.dag.readiness.evaluate_readiness` on real `StageExecution` objects
versus the Lean model `Stab.Ready.evaluate` (driver token `ready`); phase, failed ids and active ids
are compared.  Monitors (independent of the driver): the property as stated (READY while the join
condition over the upstream statuses is unmet) and the documented phase contract of the function.
"""
from __future__ import annotations

import itertools
import json

RULE = ("evaluate_readiness: cartesian product join type (5) x upstream status tuples (12 statuses, 0..k upstreams) x "
        "join_threshold {-1,0,1,2,3,5} x _join_fired x _activated_branches {absent, every subset of the upstream refs, a foreign ref} "
        "x jump_bypass; thorough = complete for k<=3 plus sampled 4/5-upstream cases, quick = complete for k<=2 plus >=20000 sampled "
        "3/4-upstream cases; a case is distinct by its canonical driver line and non-trivial when bypass is off and it has upstreams")
ASSUMPTIONS = [
    "the upstream list handed to evaluate_readiness contains no None entries (the SQLite store returns rows only); "
    "`[None]` would take the join-specific branch while the model treats it as no upstreams",
    "upstream ids are distinct; `_activated_branches` holds ref_ids (the model uses one ordinal for id and ref_id of an upstream)",
    "status classification sets (CONTINUABLE/HALT/ACTIVE) are the ones proved equal to the source tables in C06",
]
TRUSTED_BASE = [
    "Stab.Ready (hand-written model of dag/readiness.py) is tied to the code by this Mode-A differential only",
    "engine half (claims only in READY states on every schedule) is in the Engine model / engine_suites",
]

JOINS = ["AND", "OR", "MULTI_MERGE", "DISCRIMINATOR", "N_OF_M"]
THRESHOLDS = [-1, 0, 1, 2, 3, 5]
CONT = {"SUCCEEDED", "FAILED_CONTINUE", "SKIPPED", "REDIRECT"}
HALT = {"TERMINAL", "CANCELED", "STOPPED"}
FOREIGN = 9


# --------------------------------------------------------------------------------------
# real objects
# --------------------------------------------------------------------------------------

class Impl:
    """Builds real StageExecution objects once and re-uses them (ids are fixed, so no ULID cost)."""

    def __init__(self) -> None:
        from stabilize.dag.readiness import evaluate_readiness
        from stabilize.models.stage import JoinType, StageExecution
        from stabilize.models.status import WorkflowStatus

        self.evaluate = evaluate_readiness
        self.Stage = StageExecution
        self.join = {j.name: j for j in JoinType}
        self.status = {s.name: s for s in WorkflowStatus}
        self.names = [s.name for s in WorkflowStatus]
        self.ups = {}
        for k in range(6):
            for s in WorkflowStatus:
                self.ups[(k, s.name)] = StageExecution(id=f"id{k}", ref_id=f"u{k}", status=s)
        # the same upstreams carrying every control-flow attribute the readiness of a DOWNSTREAM stage must not depend on
        # (the model has no such inputs): members of a deferred-choice group / mutex / cancel region, milestones, OR-split
        self.ups_deco = {}
        from stabilize.models.stage import SplitType

        for k in range(6):
            for s in WorkflowStatus:
                self.ups_deco[(k, s.name)] = StageExecution(
                    id=f"id{k}", ref_id=f"u{k}", status=s, deferred_choice_group="dc", mutex_key="mx", cancel_region="cr",
                    milestone_ref_id="S", milestone_status="SUCCEEDED", split_type=SplitType.OR, split_conditions={"S": "False"},
                    context={"stageEnabled": False, "continuePipelineOnFailure": True, "_jump_count": 2})
        self.idmap = {f"id{k}": k for k in range(6)}

    def run(self, case) -> tuple[str, list[int], list[int]]:
        join, thr, fired, act, byp, ups = case
        ctx = {}
        if fired:
            ctx["_join_fired"] = True
        if act is not None:
            ctx["_activated_branches"] = [f"u{k}" for k in act]
        # context keys evaluate_readiness must NOT depend on (the model has no such inputs): adversarial bookkeeping
        # that disagrees with the durable upstream statuses, plus unrelated engine keys
        if (len(ups) + thr + (1 if fired else 0)) % 2 == 0:
            ctx["_completed_branches"] = [f"u{k}" for k in range(len(ups))]
            ctx["_jump_count"] = 3
            ctx["_buffered_signals"] = [{"signal_name": "x", "signal_data": {}}]
        st = self.Stage(id="idS", ref_id="S", context=ctx, join_type=self.join[join],
                        requisite_stage_ref_ids={f"u{k}" for k in range(len(ups))})
        st.join_threshold = thr  # set after construction: __post_init__ rejects negative N_OF_M thresholds
        try:
            table = self.ups_deco if (len(ups) + 2 * thr + (1 if byp else 0)) % 3 == 1 else self.ups
            r = self.evaluate(st, [table[(k, s)] for k, s in enumerate(ups)], jump_bypass=bool(byp))
        except Exception as e:  # noqa: BLE001
            return (f"EXC:{type(e).__name__}", [], [])
        return (r.phase.name, [self.idmap[x] for x in r.failed_upstream_ids], [self.idmap[x] for x in r.active_upstream_ids])


def nats(xs) -> str:
    return ",".join(str(x) for x in xs) if xs else "-"


def driver_line(case) -> str:
    join, thr, fired, act, byp, ups = case
    a = "none" if act is None else nats(act)
    u = ",".join(f"{k}:{s}" for k, s in enumerate(ups)) if ups else "-"
    return f"ready {join} {thr} {int(fired)} {a} {int(byp)} {u}"


def out_line(res) -> str:
    ph, failed, active = res
    return f"{ph} failed={nats(failed)} active={nats(active)}"


# --------------------------------------------------------------------------------------
# independent oracle (written from the property sentence / the documented contract, by counting)
# --------------------------------------------------------------------------------------

def oracle(case) -> tuple[bool, str]:
    """(join condition met?, expected phase) — counts per class instead of the code's scans."""
    join, thr, fired, act, byp, ups = case
    if byp or not ups:
        return True, "READY"
    counted = list(enumerate(ups))
    mode = join
    if join == "OR":
        if act is not None:
            counted = [(k, s) for k, s in counted if k in set(act)]
            if not counted:
                return True, "READY"
        mode = "AND"
    if join == "N_OF_M" and thr <= 0:
        mode = "AND"
    n = len(counted)
    n_cont = sum(1 for _, s in counted if s in CONT)
    n_halt = sum(1 for _, s in counted if s in HALT)
    if mode == "AND":
        met = n_cont == n
        return met, ("SKIP" if n_halt else "READY" if met else "NOT_READY")
    if mode == "MULTI_MERGE" or mode == "DISCRIMINATOR":
        if mode == "DISCRIMINATOR" and fired:
            return False, "NOT_READY"
        met = n_cont >= 1
        return met, ("READY" if met else "SKIP" if n_halt == n else "NOT_READY")
    # N_OF_M, positive threshold
    if fired:
        return False, "NOT_READY"
    met = n_cont >= thr
    return met, ("READY" if met else "SKIP" if n - n_halt < thr else "NOT_READY")


def replay_obj(case) -> dict:
    join, thr, fired, act, byp, ups = case
    return {"kind": "readiness", "join": join, "threshold": thr, "fired": bool(fired),
            "activated": None if act is None else list(act), "bypass": bool(byp), "ups": list(ups)}


def case_of(body) -> tuple:
    return (body["join"], body["threshold"], body["fired"], None if body["activated"] is None else tuple(body["activated"]),
            body["bypass"], tuple(body["ups"]))


def monitor(ctx, case, res) -> None:
    met, expected = oracle(case)
    ph = res[0]
    join = case[0]
    if ph == "READY" and not met:
        ctx.violation(f"evaluate_readiness answered READY for a {join} join whose condition over the upstream statuses is unmet: "
                      f"{driver_line(case)}", f"ready-unmet:{join}", replay_obj(case))
    elif ph != expected:
        ctx.violation(f"evaluate_readiness answered {ph}, documented contract says {expected}: {driver_line(case)}",
                      f"phase-contract:{join}:{expected}->{ph}", replay_obj(case))
    else:
        # reported ids name upstreams with the stated statuses
        ups = case[5]
        for k in res[1]:
            if ups[k] not in HALT:
                ctx.violation(f"failed_upstream_ids names a non-halted upstream: {driver_line(case)}", f"failed-id-not-halted:{join}", replay_obj(case))
        for k in res[2]:
            if ups[k] in CONT:
                ctx.violation(f"active_upstream_ids names a continuable upstream: {driver_line(case)}", f"active-id-continuable:{join}", replay_obj(case))


# --------------------------------------------------------------------------------------
# enumeration
# --------------------------------------------------------------------------------------

def activations(n: int):
    yield None
    for r in range(n + 1):
        for sub in itertools.combinations(range(n), r):
            yield sub
    yield (FOREIGN,)
    if n:
        yield (0, FOREIGN)


def exhaustive_cases(names, max_n: int):
    for n in range(max_n + 1):
        acts = list(activations(n))
        for ups in itertools.product(names, repeat=n):
            for join in JOINS:
                for thr in THRESHOLDS:
                    for fired in (0, 1):
                        for act in acts:
                            for byp in (0, 1):
                                yield (join, thr, fired, act, byp, ups)


def random_case(rng, names, n: int):
    # bias toward completed statuses so thresholds / all-continuable conditions are actually reached
    pool = names if rng.random() < 0.4 else ["SUCCEEDED", "SKIPPED", "FAILED_CONTINUE", "REDIRECT", "TERMINAL", "STOPPED", "CANCELED", "RUNNING", "NOT_STARTED"]
    ups = tuple(rng.choice(pool) for _ in range(n))
    r = rng.random()
    if r < 0.3:
        act = None
    else:
        act = tuple(k for k in range(n) if rng.random() < 0.5)
        if rng.random() < 0.15:
            act = act + (FOREIGN,)
    return (rng.choice(JOINS), rng.choice(THRESHOLDS + [4]), int(rng.random() < 0.3), act, int(rng.random() < 0.1), ups)


def flush(ctx, suite, cases, impl_res) -> None:
    if not cases:
        return
    lines = [driver_line(c) for c in cases]
    ctx.correspond(suite, [replay_obj(c) for c in cases] if len(cases) < 2000 else lines, lines, [out_line(r) for r in impl_res])


def run_cases(ctx, impl: Impl, suite: str, cases_iter, chunk: int = 100_000) -> int:
    cases, results, total = [], [], 0
    for case in cases_iter:
        res = impl.run(case)
        monitor(ctx, case, res)
        join, thr, fired, act, byp, ups = case
        ctx.count(driver_line(case), nontrivial=bool(ups) and not byp)
        ctx.tag(f"phase:{res[0]}", f"join:{join}")
        if ups and not byp:
            ctx.tag(f"{join}:{res[0]}")
        cases.append(case)
        results.append(res)
        total += 1
        if len(cases) >= chunk:
            flush(ctx, suite, cases, results)
            cases, results = [], []
    flush(ctx, suite, cases, results)
    return total


def regression_corpus(ctx, impl: Impl) -> None:
    from harness import core

    d = core.VERIF / "replays" / "C03"
    if not d.is_dir():
        return
    cases = []
    for f in sorted(d.glob("*.json")):
        body = json.loads(f.read_text())
        body = body.get("replay", body)
        if body.get("kind") == "readiness":
            cases.append(case_of(body))
    run_cases(ctx, impl, "readiness-corpus", cases)


def run(ctx) -> None:
    impl = Impl()
    regression_corpus(ctx, impl)
    names = impl.names
    max_n = 3 if ctx.thorough else 2
    n_ex = run_cases(ctx, impl, f"readiness-exhaustive-le{max_n}", exhaustive_cases(names, max_n))
    ctx.extra["exhaustive_cases"] = n_ex
    ctx.extra["exhaustive_scope"] = f"all join types x statuses^(0..{max_n}) x thresholds {THRESHOLDS} x fired x activated(None, all subsets, foreign) x bypass"
    ctx.exhaustive = True
    n_s = ctx.n(24_000, 400_000)
    sizes = [3, 4] if not ctx.thorough else [4, 5]
    sampled = (random_case(ctx.rng, names, ctx.rng.choice(sizes)) for _ in range(n_s))
    ctx.extra["sampled_cases"] = run_cases(ctx, impl, "readiness-sampled", sampled)
    ctx.sample({"suite": "readiness", "line": driver_line(("N_OF_M", 2, 0, None, 0, ("SUCCEEDED", "SKIPPED", "RUNNING"))),
                "impl": out_line(impl.run(("N_OF_M", 2, 0, None, 0, ("SUCCEEDED", "SKIPPED", "RUNNING"))))})
    try:
        from harness import engine_suites
    except ImportError:
        return
    engine_suites.run_for(ctx, "C03")


def search(ctx) -> None:
    """Proof/correspondence broke without a monitor hit: larger sampled hunt with the monitors only."""
    impl = Impl()
    for _ in range(ctx.n(200_000, 1_000_000)):
        case = random_case(ctx.rng, impl.names, ctx.rng.choice([1, 2, 3, 4, 5]))
        monitor(ctx, case, impl.run(case))
    try:
        from harness import engine_suites
    except ImportError:
        return
    engine_suites.search_for(ctx, "C03")


def replay(ctx, body) -> int:
    if body.get("kind_engine") or (isinstance(body.get("replay"), dict) and body["replay"].get("kind_engine")):
        from harness import engine_suites

        return engine_suites.replay(ctx, body)
    body = body.get("replay", body)
    impl = Impl()
    case = case_of(body)
    res = impl.run(case)
    met, expected = oracle(case)
    print("input :", driver_line(case))
    print("impl  :", out_line(res))
    print("oracle: join condition met =", met, " expected phase =", expected)
    model = ctx.lean([driver_line(case)])
    if model is not None:
        print("model :", model[0])
    monitor(ctx, case, res)
    if ctx.monitor_hits:
        for h in ctx.monitor_hits:
            print("FAILS :", h["what"])
        return 1
    if model is not None and model[0] != out_line(res):
        print("FAILS : model and implementation disagree")
        return 1
    print("holds on this input")
    return 0
