"""C19 — what is stored or queued is read back unchanged."""
from __future__ import annotations

import dataclasses
import hashlib
import json
import shutil
import sqlite3
import typing
from typing import Any

from harness import core

RULE = (
    "store: random workflows built with the plain dataclass constructors — every persisted Workflow / StageExecution / "
    "TaskExecution field set (every member of WorkflowStatus, WorkflowType, JoinType, SplitType, SyntheticStageOwner; unicode, "
    "nested, empty and large JSON values in context/outputs/trigger/split_conditions/task_exception_details; None for every "
    "optional field; 0-4 tasks per stage; DAG requisites; reducers; mi_config) -> store() -> retrieve() / retrieve_stage() / "
    "get_upstream_stages(), compared field by field with the identity prediction (normalisations stated in ASSUMPTIONS); "
    "store_stage: a reloaded stage with a random subset of ALL its fields modified is saved through the store or through an "
    "AtomicTransaction, the raw row before/after is compared with the model's applyUpdate over the generated SET list, and every "
    "field the caller did not touch must read back unchanged; messages: every registered type x random field values (every enum "
    "member, nested JSON) through SqliteQueue.push and through AtomicTransaction.push_message, polled with poll_one, compared field "
    "by field with the model's deserialize(serialize(m)); the registry from runtime introspection is compared with the translator's table. "
    "A case is distinct by its canonical content hash; non-trivial when it has >= 2 stages (store) / a non-default field (message).")
ASSUMPTIONS = [
    "JSON-representable values only: str (any unicode), int, finite float, bool, None, list, dict with str keys; excluded: NaN/inf, "
    "non-str dict keys, tuples/sets (json turns them into lists / fails), datetime or Enum objects inside context dicts",
    "documented normalisations (not violations): Workflow.origin '' reads back 'unknown'; TaskExecution.version is written as 0 by the "
    "INSERT; Workflow.config_version, StageExecution.cleanup_on_failure / finalizer_names have no column (read by no engine code); "
    "requisite_stage_ref_ids is a set (order irrelevant); stages of a workflow are compared as a ref_id-keyed mapping",
    "message metadata (message_id, created_at, attempts, max_attempts) is owned by the queue and not compared",
    "task ids (ULIDs) are strictly increasing in creation order within a process (python-ulid)",
]
TRUSTED_BASE = [
    "SQLite stores and returns TEXT / INTEGER values unchanged; json.dumps/loads round-trip on the value space above",
    "the row codec is verified at table level (generated column / key / SET lists) plus this field-by-field correspondence; "
    "the per-field conversions inside insert_stage / row_to_stage (json, enum .value/.name, bool<->0/1) are exercised, not proved",
]


def h(x: Any) -> str:
    return hashlib.sha1(json.dumps(x, sort_keys=True, default=str, ensure_ascii=True).encode()).hexdigest()[:12]


# ------------------------------------------------------------------------------------------------
# generators
# ------------------------------------------------------------------------------------------------

UNI = ["", "a", "ünïcödé", "日本語", "emoji😀", "quote\"'\\", "new\nline\ttab", " ", "null", "RUNNING", "x" * 3000, "\u0000z", "a,b;c|d=e"]


def gen_str(rng) -> str:
    return rng.choice(UNI) if rng.random() < 0.6 else "".join(rng.choice("abcXYZ019_-. ") for _ in range(rng.randint(1, 12)))


def gen_json(rng, depth=0) -> Any:
    r = rng.random()
    if depth >= 3 or r < 0.45:
        return rng.choice([None, True, False, 0, -1, 7, 2 ** 63 + 5, -(10 ** 25), 1.5, -0.25, 1e300, gen_str(rng), gen_str(rng)])
    if r < 0.7:
        return [gen_json(rng, depth + 1) for _ in range(rng.randint(0, 4))]
    return {gen_str(rng): gen_json(rng, depth + 1) for _ in range(rng.randint(0, 4))}


def gen_obj(rng, big=False) -> dict:
    n = rng.randint(0, 5) if not big else 200
    d = {}
    for i in range(n):
        k = gen_str(rng)
        if k.startswith("_output_reducers"):
            continue
        d[k if not big else f"{k}{i}"] = gen_json(rng, 1)
    return d


def opt(rng, f, p=0.35):
    return None if rng.random() < p else f()


def gen_workflow(rng, ctx):
    from stabilize.models.multi_instance import MultiInstanceConfig
    from stabilize.models.stage import JoinType, SplitType, StageExecution, SyntheticStageOwner
    from stabilize.models.status import WorkflowStatus
    from stabilize.models.task import TaskExecution
    from stabilize.models.workflow import PausedDetails, Trigger, Workflow, WorkflowType

    statuses = list(WorkflowStatus)
    n = rng.randint(0, 6)
    refs = []
    while len(refs) < n:
        r = gen_str(rng) + str(len(refs))
        refs.append(r)
    stages = []
    for i in range(n):
        tasks = []
        for _ in range(rng.randint(0, 4)):
            tasks.append(TaskExecution(
                name=gen_str(rng), implementing_class=gen_str(rng), status=rng.choice(statuses),
                start_time=opt(rng, lambda: rng.randint(0, 2 ** 40)), end_time=opt(rng, lambda: rng.randint(0, 2 ** 40)),
                stage_start=rng.random() < 0.5, stage_end=rng.random() < 0.5, loop_start=rng.random() < 0.5, loop_end=rng.random() < 0.5,
                task_exception_details=gen_obj(rng), version=rng.choice([0, 0, 3])))
        reducers = {gen_str(rng) + "k": rng.choice(["sum", "collect", "last"]) for _ in range(rng.randint(0, 2))} if rng.random() < 0.3 else {}
        jt = rng.choice(list(JoinType))
        stages.append(StageExecution(
            ref_id=refs[i], type=gen_str(rng), name=gen_str(rng), status=rng.choice(statuses),
            context=gen_obj(rng, big=rng.random() < 0.03), outputs=gen_obj(rng), tasks=tasks,
            requisite_stage_ref_ids={refs[j] for j in range(i) if rng.random() < 0.4},
            parent_stage_id=opt(rng, lambda: gen_str(rng), 0.6), synthetic_stage_owner=opt(rng, lambda: rng.choice(list(SyntheticStageOwner)), 0.5),
            start_time=opt(rng, lambda: rng.randint(0, 2 ** 40)), end_time=opt(rng, lambda: rng.randint(0, 2 ** 40)),
            start_time_expiry=opt(rng, lambda: rng.randint(0, 2 ** 40)), scheduled_time=opt(rng, lambda: rng.randint(0, 2 ** 40)),
            version=rng.choice([0, 0, 1, 17]), cleanup_on_failure=rng.random() < 0.2, finalizer_names=[gen_str(rng)] if rng.random() < 0.2 else [],
            join_type=jt, join_threshold=rng.randint(0, 5), split_type=rng.choice(list(SplitType)),
            split_conditions={gen_str(rng): gen_str(rng) for _ in range(rng.randint(0, 3))},
            mi_config=opt(rng, lambda: MultiInstanceConfig(count=rng.randint(0, 4), count_from_context=gen_str(rng), sync_on_complete=rng.random() < 0.5,
                                                           allow_dynamic=rng.random() < 0.5, collection_from_context=gen_str(rng),
                                                           join_threshold=rng.randint(0, 3), cancel_remaining=rng.random() < 0.5), 0.7),
            deferred_choice_group=opt(rng, lambda: gen_str(rng)), milestone_ref_id=opt(rng, lambda: gen_str(rng)),
            milestone_status=opt(rng, lambda: rng.choice(statuses).name), mutex_key=opt(rng, lambda: gen_str(rng)),
            cancel_region=opt(rng, lambda: gen_str(rng)), output_reducers=reducers))
        ctx.tag(f"join={jt.name}")
    wf = Workflow(
        type=rng.choice(list(WorkflowType)), application=gen_str(rng), name=gen_str(rng), status=rng.choice(statuses), stages=stages,
        context=gen_obj(rng), trigger=Trigger(type=gen_str(rng), user=gen_str(rng), parameters=gen_obj(rng), artifacts=[gen_obj(rng) for _ in range(rng.randint(0, 2))], payload=gen_obj(rng)),
        start_time=opt(rng, lambda: rng.randint(0, 2 ** 40)), end_time=opt(rng, lambda: rng.randint(0, 2 ** 40)), start_time_expiry=opt(rng, lambda: rng.randint(0, 2 ** 40)),
        is_canceled=rng.random() < 0.3, canceled_by=opt(rng, lambda: gen_str(rng)), cancellation_reason=opt(rng, lambda: gen_str(rng)),
        paused=opt(rng, lambda: PausedDetails(paused_by=gen_str(rng), pause_time=opt(rng, lambda: rng.randint(0, 9999)), resume_time=opt(rng, lambda: rng.randint(0, 9999)), paused_ms=rng.randint(0, 99)), 0.6),
        pipeline_config_id=opt(rng, lambda: gen_str(rng)), is_limit_concurrent=rng.random() < 0.3, max_concurrent_executions=rng.randint(0, 9),
        keep_waiting_pipelines=rng.random() < 0.3, origin=rng.choice(["api", "deck", "unknown", gen_str(rng) or "x", ""]),
        config_version=opt(rng, lambda: "cfg" + gen_str(rng), 0.7))
    ctx.tag(f"wf-status={wf.status.name}", f"stages={n}")
    return wf


# ------------------------------------------------------------------------------------------------
# canonical views (the identity prediction with the stated normalisations)
# ------------------------------------------------------------------------------------------------

def task_view(t, predicted: bool) -> dict:
    return {"id": t.id, "name": t.name, "implementing_class": t.implementing_class, "status": t.status.name, "start_time": t.start_time,
            "end_time": t.end_time, "stage_start": t.stage_start, "stage_end": t.stage_end, "loop_start": t.loop_start, "loop_end": t.loop_end,
            "task_exception_details": t.task_exception_details, "version": 0 if predicted else t.version}


def stage_view(s, predicted: bool = False, with_tasks: bool = True) -> dict:
    d = {"id": s.id, "ref_id": s.ref_id, "type": s.type, "name": s.name, "status": s.status.name, "context": s.context, "outputs": s.outputs,
         "requisite_stage_ref_ids": sorted(s.requisite_stage_ref_ids), "parent_stage_id": s.parent_stage_id,
         "synthetic_stage_owner": s.synthetic_stage_owner.name if s.synthetic_stage_owner else None, "start_time": s.start_time,
         "end_time": s.end_time, "start_time_expiry": s.start_time_expiry, "scheduled_time": s.scheduled_time, "version": s.version,
         "join_type": s.join_type.name, "join_threshold": s.join_threshold, "split_type": s.split_type.name, "split_conditions": s.split_conditions,
         "mi_config": s.mi_config.to_dict() if s.mi_config else None, "deferred_choice_group": s.deferred_choice_group,
         "milestone_ref_id": s.milestone_ref_id, "milestone_status": s.milestone_status, "mutex_key": s.mutex_key, "cancel_region": s.cancel_region,
         "output_reducers": s.output_reducers}
    if with_tasks:
        d["tasks"] = [task_view(t, predicted) for t in s.tasks]
    return d


def workflow_view(w, predicted: bool = False) -> dict:
    return {"id": w.id, "type": w.type.name, "application": w.application, "name": w.name, "status": w.status.name, "context": w.context,
            "trigger": w.trigger.to_dict(), "start_time": w.start_time, "end_time": w.end_time, "start_time_expiry": w.start_time_expiry,
            "is_canceled": w.is_canceled, "canceled_by": w.canceled_by, "cancellation_reason": w.cancellation_reason,
            "paused": dataclasses.asdict(w.paused) if w.paused else None, "pipeline_config_id": w.pipeline_config_id,
            "is_limit_concurrent": w.is_limit_concurrent, "max_concurrent_executions": w.max_concurrent_executions,
            "keep_waiting_pipelines": w.keep_waiting_pipelines, "origin": (w.origin or "unknown") if predicted else w.origin,
            "stages": {s.ref_id: stage_view(s, predicted) for s in w.stages}}


def diff(a: Any, b: Any, path: str = "") -> list[str]:
    """paths at which two canonical views differ (type-strict: 1 != True, 1 != 1.0)"""
    if isinstance(a, dict) and isinstance(b, dict):
        out = []
        for k in sorted(set(a) | set(b), key=str):
            if k not in a or k not in b:
                out.append(f"{path}.{k}(missing)")
            else:
                out += diff(a[k], b[k], f"{path}.{k}")
        return out
    if isinstance(a, list) and isinstance(b, list):
        if len(a) != len(b):
            return [f"{path}(len {len(a)} != {len(b)})"]
        out = []
        for i, (x, y) in enumerate(zip(a, b)):
            out += diff(x, y, f"{path}[{i}]")
        return out
    if type(a) is not type(b) or a != b:
        return [path or "."]
    return []


# ------------------------------------------------------------------------------------------------
# environment
# ------------------------------------------------------------------------------------------------

class Env:
    def __init__(self):
        from stabilize import SqliteQueue, SqliteWorkflowStore

        self.dir = core.scratch_dir()
        self.path = f"{self.dir}/c19.db"
        self.cs = f"sqlite:///{self.path}"
        self.store = SqliteWorkflowStore(connection_string=self.cs, create_tables=True)
        self.queue = SqliteQueue(connection_string=self.cs, table_name="queue_messages")
        self.queue._create_table()

    def raw_stage_row(self, stage_id: str) -> dict:
        con = sqlite3.connect(self.path)
        con.row_factory = sqlite3.Row
        try:
            r = con.execute("SELECT * FROM stage_executions WHERE id = ?", (stage_id,)).fetchone()
            return {k: r[k] for k in r.keys()}
        finally:
            con.close()

    def close(self):
        from harness.props.c16 import reset_singletons

        try:
            self.store.close()
        except Exception:
            pass
        reset_singletons()
        shutil.rmtree(self.dir, ignore_errors=True)


# ------------------------------------------------------------------------------------------------
# store round trip
# ------------------------------------------------------------------------------------------------

def field_sig(paths: list[str]) -> str:
    """stable and specific: the NAME of the first differing field (stage refs, list indices and nested keys stripped)"""
    import re

    p = paths[0]
    m = re.match(r"^\.stages\.(?:.*?)\.(tasks)\[\d+\]\.(\w+)", p) or re.match(r"^\.stages\..*?\.(\w+)(?:$|[.\[(])", p)
    if p.startswith(".stages"):
        known = ["tasks", "id", "ref_id", "type", "name", "status", "context", "outputs", "requisite_stage_ref_ids", "parent_stage_id",
                 "synthetic_stage_owner", "start_time_expiry", "start_time", "end_time", "scheduled_time", "version", "join_type", "join_threshold",
                 "split_type", "split_conditions", "mi_config", "deferred_choice_group", "milestone_ref_id", "milestone_status", "mutex_key",
                 "cancel_region", "output_reducers"]
        for k in known:
            if f".{k}" in p:
                return "stage." + k
        return "stage"
    return re.sub(r"[\[(.].*$", "", p.lstrip(".")) or "workflow"


def store_suite(ctx, env: Env):
    rng = ctx.rng
    for _ in range(ctx.n(400, 4000)):
        wf = gen_workflow(rng, ctx)
        want = workflow_view(wf, predicted=True)
        env.store.store(wf)
        got_wf = env.store.retrieve(wf.id)
        got = workflow_view(got_wf)
        ctx.count(h(want), nontrivial=len(wf.stages) >= 2)
        d = diff(want, got)
        if d:
            ctx.violation(f"store()/retrieve(): fields read back differently: {d[:6]}", "store:retrieve:" + field_sig(d),
                          {"kind": "store", "workflow": want, "read_back": got, "differs_at": d[:20]})
        if wf.config_version is not None and got_wf.config_version is None:
            ctx.tag("exempt:config_version-dropped")
        if wf.origin == "":
            ctx.tag("normalised:origin-empty->unknown")
        # retrieve_stage and get_upstream_stages return the same stage content (tasks in the same order)
        for s in wf.stages[:3]:
            one = env.store.retrieve_stage(s.id)
            d1 = diff(want["stages"][s.ref_id], stage_view(one))
            if d1:
                ctx.violation(f"retrieve_stage(): fields read back differently: {d1[:6]}", "store:retrieve_stage:" + field_sig([".stages.x" + d1[0]]),
                              {"kind": "store", "workflow": want, "stage": s.ref_id, "differs_at": d1[:20]})
            if any(x.cleanup_on_failure or x.finalizer_names for x in [s]) and not (one.cleanup_on_failure or one.finalizer_names):
                ctx.tag("exempt:finalizer-fields-dropped")
            for u in env.store.get_upstream_stages(wf.id, s.ref_id):
                d2 = diff(want["stages"][u.ref_id], stage_view(u))
                if d2:
                    ctx.violation(f"get_upstream_stages(): fields read back differently: {d2[:6]}", "store:get_upstream_stages:" + field_sig([".stages.x" + d2[0]]),
                                  {"kind": "store", "workflow": want, "stage": u.ref_id, "differs_at": d2[:20]})
        if rng.random() < 0.5:
            store_stage_case(ctx, env, wf)
        env.store.delete(wf.id)


SET_COLS = ["status", "context", "outputs", "start_time", "end_time", "version"]


def store_stage_case(ctx, env: Env, wf):
    """reload a stage, change a random subset of ALL its fields, save it; the row changes exactly in the SET columns and
    every field the caller did not touch reads back unchanged"""
    from stabilize.models.stage import JoinType, SplitType
    from stabilize.models.status import WorkflowStatus

    rng = ctx.rng
    if not wf.stages:
        return
    target = rng.choice(wf.stages)
    stage = env.store.retrieve_stage(target.id)
    before_view = stage_view(stage)
    before_row = env.raw_stage_row(stage.id)
    mutators = {
        "status": lambda: setattr(stage, "status", rng.choice(list(WorkflowStatus))),
        "context": lambda: stage.context.update({gen_str(rng) + "n": gen_json(rng)}),
        "outputs": lambda: stage.outputs.update({gen_str(rng) + "n": gen_json(rng)}),
        # value -> None as well (what a jump re-arm / lost mutex claim writes): a cleared timestamp must read back cleared
        "start_time": lambda: setattr(stage, "start_time", None if rng.random() < 0.4 else rng.randint(0, 2 ** 40)),
        "end_time": lambda: setattr(stage, "end_time", None if rng.random() < 0.4 else rng.randint(0, 2 ** 40)),
        "name": lambda: setattr(stage, "name", stage.name + "-renamed"),
        "join_type": lambda: setattr(stage, "join_type", rng.choice(list(JoinType))),
        "join_threshold": lambda: setattr(stage, "join_threshold", stage.join_threshold + 1),
        "split_type": lambda: setattr(stage, "split_type", rng.choice(list(SplitType))),
        "requisite_stage_ref_ids": lambda: setattr(stage, "requisite_stage_ref_ids", set()),
        "mutex_key": lambda: setattr(stage, "mutex_key", "changed"),
        "scheduled_time": lambda: setattr(stage, "scheduled_time", 42),
    }
    touched = [k for k in mutators if rng.random() < 0.3]
    for k in touched:
        mutators[k]()
    task_touched = False
    if stage.tasks and rng.random() < 0.5:
        t = rng.choice(stage.tasks)
        t.status = rng.choice(list(WorkflowStatus))
        t.task_exception_details = gen_obj(rng)
        task_touched = True
    new_vals = {"status": stage.status.name, "context": json.dumps(stage.context, default=str), "outputs": json.dumps(stage.outputs, default=str),
                "start_time": stage.start_time, "end_time": stage.end_time, "version": before_row["version"] + 1}
    expected_tasks = [task_view(t, predicted=False) for t in stage.tasks]
    via = rng.choice(["store", "txn", "txn-phase"])
    if via == "store":
        env.store.store_stage(stage)
    else:
        with env.store.transaction(env.queue) as txn:
            txn.store_stage(stage, expected_phase=before_row["status"] if via == "txn-phase" else None)
    after_row = env.raw_stage_row(stage.id)
    after = env.store.retrieve_stage(stage.id)
    after_view = stage_view(after)
    ctx.tag(f"store_stage-via={via}", *[f"touched={k}" for k in touched])
    # model: applyUpdate over the SET list
    enc = lambda row: ",".join(f"{k}={h(v)}" for k, v in row.items())
    line = f"codec update {','.join(SET_COLS)} {enc(new_vals)} {enc(before_row)}"
    ctx._c19_lines.append(line)
    ctx._c19_inputs.append({"suite": "store_stage", "stage": before_view["ref_id"], "touched": touched, "via": via})
    ctx._c19_impl.append(enc(after_row))
    ctx.count(line, nontrivial=bool(touched))
    # oracle: fields the caller did not change are unchanged
    for k, v in before_view.items():
        if k in touched or k in ("version", "tasks"):
            continue
        if diff(v, after_view[k]):
            ctx.violation(f"store_stage ({via}) altered field {k!r} the caller did not change: {v!r} -> {after_view[k]!r} (caller changed {touched})",
                          f"store_stage:altered-untouched:{k}", {"kind": "store_stage", "before": before_view, "touched": touched, "after": after_view})
    for k in touched:
        if k in SET_COLS and diff(stage_view(stage, with_tasks=False)[k], after_view[k]):
            ctx.violation(f"store_stage ({via}) did not save the changed field {k!r}", f"store_stage:not-saved:{k}",
                          {"kind": "store_stage", "before": before_view, "touched": touched, "after": after_view})
    got_tasks = [dict(t, version=None) for t in after_view["tasks"]]
    want_tasks = [dict(t, version=None) for t in expected_tasks]
    if diff(want_tasks, got_tasks):
        ctx.violation(f"store_stage ({via}): tasks read back differently (task changed by caller: {task_touched}): {diff(want_tasks, got_tasks)[:5]}",
                      "store_stage:tasks", {"kind": "store_stage", "before": before_view, "after": after_view})


# ------------------------------------------------------------------------------------------------
# messages
# ------------------------------------------------------------------------------------------------

POPPED = ["message_id", "created_at", "attempts", "max_attempts"]


def runtime_registry() -> list[tuple[str, list[tuple[str, str]]]]:
    """MESSAGE_TYPES by runtime introspection: (type name, [(field, kind)]) in `__dict__` order"""
    import datetime as dt

    from stabilize.models.stage import SyntheticStageOwner
    from stabilize.models.status import WorkflowStatus
    from stabilize.queue import messages as M

    out = []
    for name, cls in M.MESSAGE_TYPES.items():
        hints = typing.get_type_hints(cls)
        fields = []
        for f in dataclasses.fields(cls):
            t = hints[f.name]
            if t is WorkflowStatus:
                k = "status"
            elif t == (WorkflowStatus | None):
                k = "optStatus"
            elif t is SyntheticStageOwner:
                k = "phase"
            elif t is dt.datetime:
                k = "datetime"
            else:
                k = "plain"
            fields.append((f.name, k))
        out.append((name, fields))
    return out


def tok(v: Any) -> str:
    import datetime as dt
    from enum import Enum

    from stabilize.models.status import WorkflowStatus

    if v is None:
        return "N"
    if isinstance(v, WorkflowStatus):
        return "ES" + v.name
    if isinstance(v, Enum):
        return "EP" + v.name
    if isinstance(v, dt.datetime):
        return "Ttime"
    if isinstance(v, str):
        return "S" + v.encode().hex()
    return ("O1" if v else "O0") + type(v).__name__ + h(v)


def gen_field_value(rng, cls, name: str, kind: str, hint) -> Any:
    from stabilize.models.stage import SyntheticStageOwner
    from stabilize.models.status import WorkflowStatus

    if kind == "status":
        return rng.choice(list(WorkflowStatus))
    if kind == "optStatus":
        return opt(rng, lambda: rng.choice(list(WorkflowStatus)), 0.3)
    if kind == "phase":
        return rng.choice(list(SyntheticStageOwner))
    if hint is int:
        return rng.choice([0, 1, 7, 2 ** 40])
    if hint is bool:
        return rng.random() < 0.5
    if hint is str:
        return gen_str(rng)
    if hint == (str | None):
        return opt(rng, lambda: gen_str(rng))
    return gen_obj(rng, big=rng.random() < 0.02)   # dict[str, Any]


def message_suite(ctx, env: Env):
    import datetime as dt

    from stabilize.queue import messages as M

    rng = ctx.rng
    # registry: runtime introspection vs the translator's table (what the theorems are about)
    import translate.schema as ts

    rt = runtime_registry()
    try:
        gen = [(n, [tuple(f) for f in fs]) for n, fs in ts.extract()["messageTypes"]]
    except Exception as e:  # the translator no longer understands the source: a broken tie (reported by core), not infra
        ctx.notes.append(f"translate.schema.extract failed inside the message suite: {type(e).__name__}: {e}")
        gen = rt
    if gen != rt:
        ctx.corr_failures.append({"suite": "registry", "input": "MESSAGE_TYPES", "driver_line": "-", "impl": str(rt)[:400], "model": str(gen)[:400]})
    ctx.corr_suites["registry"] += len(rt)
    shape = "skip:_+datetime:isoformat+Enum:name+else:id"
    lines, inputs, impl = [], [], []
    reps = ctx.n(15, 120)
    for name, fields in rt:
        cls = M.MESSAGE_TYPES[name]
        hints = typing.get_type_hints(cls)
        spec = ",".join(f"{f}:{k}" for f, k in fields)
        for rep in range(reps):
            kwargs = {}
            for f, k in fields:
                if f in POPPED:
                    continue
                if rep == 0 and rng.random() < 0.5:
                    continue  # leave the default
                kwargs[f] = gen_field_value(rng, cls, f, k, hints[f])
            for path in ("queue", "txn"):
                msg = cls(**kwargs)
                original = {f: getattr(msg, f) for f, _ in fields}
                env.queue.clear()
                if path == "queue":
                    env.queue.push(msg)
                else:
                    with env.store.transaction(env.queue) as txn:
                        txn.push_message(msg)
                try:
                    got = env.queue.poll_one()
                except Exception as e:  # the deserialiser raised instead of returning a message
                    got = None
                    ctx.tag(f"poll-raised={type(e).__name__}")
                line = f"codec roundtrip {shape} {spec} " + ",".join(f"{f}={tok(original[f])}" for f, _ in fields)
                lines.append(line)
                inputs.append({"suite": "message-" + path, "type": name, "fields": {f: tok(original[f]) for f, _ in fields}})
                ctx.count(line + path, nontrivial=bool(kwargs))
                ctx.tag(f"msg={name}")
                if got is None:
                    impl.append("undeserializable")
                    ctx.violation(f"{name} pushed via {path} was not delivered by poll_one", f"msg:{path}:{name}:not-delivered",
                                  {"kind": "message", "type": name, "path": path, "fields": {k: repr(v)[:200] for k, v in kwargs.items()}})
                    continue
                env.queue.ack(got)
                impl.append(",".join(f"{f}=" + ("<default>" if f in POPPED else tok(getattr(got, f, "<missing>"))) for f, _ in fields))
                # oracle: same type, same field values
                if type(got) is not cls:
                    ctx.violation(f"{name} pushed via {path} delivered as {type(got).__name__}", f"msg:{path}:{name}:type",
                                  {"kind": "message", "type": name, "path": path})
                for f, _k in fields:
                    if f in POPPED:
                        continue
                    a, b = original[f], getattr(got, f, "<missing>")
                    if type(a) is not type(b) or a != b:
                        ctx.violation(f"{name}.{f} pushed via {path} as {a!r:.120} delivered as {b!r:.120}", f"msg:{path}:{name}.{f}",
                                      {"kind": "message", "type": name, "path": path, "field": f, "sent": repr(a)[:300], "got": repr(b)[:300]})
    ctx.sample({"suite": "message", "line": lines[0][:600], "impl": impl[0][:300]})
    ctx.correspond("message-roundtrip", inputs, lines, impl)


# ------------------------------------------------------------------------------------------------
# entry points
# ------------------------------------------------------------------------------------------------

def run(ctx) -> None:
    core.ensure_repo_on_path()
    ctx._c19_lines, ctx._c19_inputs, ctx._c19_impl = [], [], []
    env = Env()
    try:
        store_suite(ctx, env)
        if ctx._c19_lines:
            ctx.sample({"suite": "store_stage", "line": ctx._c19_lines[0][:400], "impl": ctx._c19_impl[0][:300]})
        ctx.correspond("store_stage-update", ctx._c19_inputs, ctx._c19_lines, ctx._c19_impl)
        message_suite(ctx, env)
    finally:
        env.close()


def search(ctx) -> None:
    core.ensure_repo_on_path()
    ctx._c19_lines, ctx._c19_inputs, ctx._c19_impl = [], [], []
    env = Env()
    try:
        for _ in range(6):
            store_suite(ctx, env)
            if ctx.monitor_hits:
                return
        message_suite(ctx, env)
    finally:
        env.close()


def replay(ctx, body) -> int:
    """the replay of a C19 violation names the operation and the differing fields; re-running the suites with the recorded
    seed reproduces it (the generators are deterministic in VERIF_SEED)"""
    core.ensure_repo_on_path()
    seed, tier = int(body.get("seed", ctx.seed)), body.get("tier", "quick")
    body = body.get("replay", body)
    print("recorded failing input:", json.dumps(body, default=str)[:2000])
    ctx2 = core.Ctx("C19", tier, seed)
    run(ctx2)
    for hit in ctx2.monitor_hits:
        print("PROPERTY FAILS:", hit["what"][:400])
    return 1 if ctx2.monitor_hits else 0
