"""C18 — persistent signals are never lost; a suspended stage resumes once per signal.

Two parts:
  1. engine level (whole messages, atomic handlers): Mode-A trace differential + monitors, harness/engine_suites.py;
  2. the two-worker races INSIDE the handlers (signal handler vs. the task result that suspends the stage, and signal handler
     vs. StartStage's claim / plan commits), at read / CAS granularity: Mode B (harness/modeb.py) on the real engine, every schedule compared with the Lean model
     `Stab.SignalRace` (driver token `sigrace`, theorems in lean/Stab/Props/C18.lean section `race`), plus
     implementation-only monitors.
"""
from __future__ import annotations

import json
import logging
import os
import shutil
import time
from dataclasses import asdict, dataclass
from typing import Any

from harness import dstatus_suite, engine_suites, synth_suites

RULE = ("random workflows (1-5 stages, every join type, scripted task outcomes incl. polling / transient / jump / suspend) x "
        "delivery schedules (fifo | random order | random + redelivery of unacknowledged messages | arbitrary incl. early re-polls), "
        "one stage suspends k times, m persistent/transient signals are sent at random moments (before start, while running, after suspension); every op is applied to the REAL engine and the Lean model, the state line after every op is compared; "
        "a trace is distinct by (spec, op list) and non-trivial when it has >= 8 ops and a non-FIFO choice or an injected op. "
        "PLUS the signal-vs-suspend race (Mode B, exhaustive per scenario): a workflow g -> d whose task in g answers 'suspend' on its first K executions "
        "(K in {0,1,2}; K=1 is LedgerTask script 'U'), brought to the state 'RunTask(g) pending, stage RUNNING', with b0 in {0,1} persistent signals already buffered, "
        "one raced SignalStage (persistent or transient, the real message class) and optionally further pending signals; worker A handles the signal (resp. the RunTask) "
        "and worker B handles the RunTask (resp. the signal) atomically at EVERY legal DB-call point of A (before A's read, every point between A's read of the stage row "
        "and its version-checked UPDATE, after A) in BOTH directions, then the queue is drained FIFO; a schedule is distinct by (scenario, direction, injection point) "
        "and non-trivial when B was really injected inside A; where two signals are pending also signal-vs-signal (lost update on the mailbox) and, thorough tier, "
        "the nested three-worker family RunTask > signal > signal (monitors only). "
        "THIRD direction (scenario keys S…): the stage still NOT_STARTED with its StartStage row pending and 0/1/2 persistent signals already buffered, K in {1,2,3}; "
        "A = the StartStage delivery with a persistent / transient SignalStage injected at every legal DB-call point (before the claim read, between the read and the "
        "claim UPDATE, between the claim commit and the plan UPDATE, after), and the reverse direction (A = signal, B = StartStage); nested StartStage > signal > signal "
        "at every legal point of both for one scenario (all such scenarios in the thorough tier, monitors only). "
        "PLUS signals for synthetic CHILD stages (harness/synth_suites.py, IMPLEMENTATION-ONLY, no model line): 1-2 top-level stages, one parent with a before- or after-stage whose task "
        "suspends k in {1,2} times (script U^k S), optionally a sibling child and a child of the other kind; 0-3 persistent / transient signals for that child sent before its parent started, "
        "before the child started, while it runs, after it suspended, or only once nothing else is deliverable; fifo | random | redelivery | kill of the signal or of the suspending RunTask "
        "followed by restart + sweep + late redelivery; judged by mon_c18 (unchanged) and the transition-table monitor. "
        "PLUS the pause / resume dimension (harness/synth_suites.py, family 'pause', IMPLEMENTATION-ONLY: monitors on real-engine traces, no model line; signatures prefixed pause:): plain workflows (engine_suites.gen_spec w0, sometimes one suspending task) AND synthetic-stage ones; operator ops p = store.pause (only while the workflow is RUNNING), u = Orchestrator.unpause, r = store.resume injected at random steps into fifo | random | redelivery | starve schedules, combined with a cancel (often issued together with the un-pause, or while paused), signals and a second pause; every third unit is the directed 'parked' member (2-3 parallel stages all parked PAUSED, then un-pause or cancel + un-pause, random order); in 20 % of the runs nobody un-pauses, otherwise the operator keeps at it until nothing is paused (settle_pause: unpause, drain, store.resume if the row is still PAUSED with nothing parked); the signal workloads (one suspending target: top-level stage or synthetic child; 1-3 persistent / transient signals before, WHILE and after the pause, preferably pausing once the target is suspended); judged by pmon_c18 = mon_c18, except that a target parked PAUSED in a run nobody un-paused is only judged on 'left SUSPENDED by something else'"
        " PLUS the stage-status rule in isolation (harness/dstatus_suite.py): the real StageExecution.determine_status() against the model's determineStatus on EVERY task-status list of length <= 3 (thorough: 4) over the 12 statuses x continuePipelineOnFailure x failPipeline x current status, plus random longer lists; oracle = theorem waiting_task_keeps_stage_waiting restated on the code (a SUSPENDED / PAUSED / BUFFERED task and no halted one => the rule answers a waiting status)")
ASSUMPTIONS = ["delays are abstracted: budget-respecting schedules deliver a delayed message only when no immediate one is pending",
               "per-workflow circuit breaker disabled in the harness (volatile state outside the model)",
               "pause / resume dimension: 'un-paused' means the operator idiom of the repo's tests and demos (Orchestrator.unpause, then store.resume when the row is still PAUSED with nothing parked), repeated up to three times at quiescence; store.pause is only issued while the workflow row is RUNNING (store.pause() itself writes PAUSED over any status, also a final one: operator misuse, not generated); a message that raises on every delivery is dead-lettered after max_attempts deliveries (real check_and_move_expired) and the first such loss names the cause of what follows (`…@<msg>-dead-lettered:<exception>-while-workflow-<status>`)",
               "child-stage signals: 'explicitly waiting' is the child's own SUSPENDED status (its parent stays RUNNING); a workflow that reaches a final status while the signalled child is SUSPENDED "
               "and no cancel was accepted is mon_c18's suspended-stage-abandoned (the F46 / F47 regression net)",
               "race suite: Mode B explores the interleavings SQLite's single-writer locking permits at transaction granularity plus all read / CAS windows "
               "(B atomic inside a window of A, nested to depth 2 in the thorough tier), not every statement-level interleaving of free-running workers (harness/modeb.py)",
               "race suite: handler_config.concurrency_max_retries has its default (3); backoff delays are shortened through the engine's own environment knobs",
               "race suite: the task's decision to suspend depends only on how often it ran (executions 1..K suspend)",
               "race suite, StartStage direction: the started stage has predefined tasks, no mutex key, no deferred-choice group, no synthetic stages (zombie re-plan and "
               "claim rows are C04 / C11)"]
TRUSTED_BASE = ["Engine model (lean/Stab/Model/Engine.lean) is hand-written; tied to handlers/* by the trace differential on generated schedules only",
                "signals for synthetic child stages: IMPLEMENTATION-ONLY (harness/synth_suites.py), neither Stab.Engine nor Stab.SignalRace has child stages; Mode B races are not run on children",
                "pause / resume (store.pause, PauseTask, Orchestrator.unpause / ResumeStage, store.resume): IMPLEMENTATION-ONLY family (synth_suites family 'pause'), no theorem, no model line",
                "not modelled: synthetic stages, mutex/deferred choice, OR-split conditions, pause/resume, timeouts, PostgreSQL backend",
                "SignalRace model (lean/Stab/Model/SignalRace.lean) is hand-written from handlers/signal_stage.py, handlers/run_task/handler.py (_process_result_safely), "
                "handlers/run_task/result.py (_handle_suspended, _handle_success_like), persistence/sqlite/transaction.py (store_stage CAS), handlers/base.py "
                "(retry_on_concurrency_error) and persistence/transaction.py (execute_atomic's inner retry); tied to the code by the per-schedule comparison "
                "(stage status, version delta, mailbox length, queued RunTasks, task executions, each worker's outcome and number of rolled-back transactions, "
                "and the quiescent state after the drain) on the enumerated schedules only",
                "the window abstraction in harness/props/c18.py `window_of`: window k of an injection point = number of `SELECT * FROM stage_executions WHERE id` "
                "reads A has issued + 1 if A has issued its first INSERT/UPDATE/DELETE; for the StartStage worker `window_of_start`: its read of the stage row + the "
                "version-checked UPDATEs of that row (claim, plan) issued so far",
                "StartStage worker of the SignalRace model (`startStep`, hand-written from handlers/start_stage/handler.py `_start_if_ready`: claim commit with "
                "expected_phase, plan commit, plan-conflict re-read + context merge) for a stage with predefined tasks and no mutex / deferred-choice group; the stage "
                "context is abstracted to the mailbox length (the only key another worker writes in this race; 'key present' = non-empty), the StartTask -> RunTask "
                "chain to one queued RunTask; tied to the code by the same per-schedule comparison (+ number of plan commits)",
                "the model collapses the task row into the stage row (both are written in the same commits by these handlers) and the completion chain after a "
                "non-suspending result into one status `finished`"]

RACE_SUITE = "signal-race-modeb"
SIG_LOST = "race:persistent-signal-lost"
SIG_TWICE = "race:signal-applied-twice"
SIG_MAILBOX = "race:mailbox-not-conserved"
SIG_STUCK = "race:no-quiescence"
ROW_READ = "SELECT * FROM stage_executions WHERE id = :id"
DML = ("INSERT", "INSERT-OR-IGNORE", "UPDATE", "DELETE")


# --------------------------------------------------------------------------------------
# scenarios
# --------------------------------------------------------------------------------------

@dataclass(frozen=True)
class Scn:
    K: int = 1                   # executions 1..K of g's task answer "suspend"
    pre: int = 0                 # persistent signals handled (buffered) before the race
    p: bool = True               # the raced signal is persistent
    post: tuple = ()             # further signals pending during the race, handled after it in FIFO order (True = persistent)
    down: bool = True            # downstream stage d
    phase: str = "run"           # "run": RunTask(g) pending, stage RUNNING | "start": StartStage(g) pending, stage NOT_STARTED

    def key(self) -> str:
        return (f"{'S' if self.phase == 'start' else ''}K{self.K}b{self.pre}{'P' if self.p else 'T'}"
                f"{''.join('p' if x else 't' for x in self.post)}{'d' if self.down else ''}")

    def persistent_total(self) -> int:
        return self.pre + (1 if self.p else 0) + sum(1 for x in self.post if x)

    def transient_total(self) -> int:
        return (0 if self.p else 1) + sum(1 for x in self.post if not x)


def scn_from(d: dict) -> Scn:
    return Scn(K=int(d["K"]), pre=int(d["pre"]), p=bool(d["p"]), post=tuple(bool(x) for x in d.get("post", ())), down=bool(d.get("down", True)),
               phase=d.get("phase", "run"))


def scenarios(thorough: bool) -> list[Scn]:
    s = [Scn(1, 0, True), Scn(1, 0, False), Scn(1, 1, True), Scn(1, 1, False, down=False), Scn(1, 0, True, (True,)),
         Scn(2, 0, True, down=False), Scn(2, 0, True, (True,)), Scn(2, 1, True), Scn(0, 0, True), Scn(2, 0, False, (True,), down=False)]
    # the stage is still NOT_STARTED, its StartStage is pending: signal vs. StartStage's claim / plan commits
    s += [Scn(1, 0, True, phase="start"), Scn(2, 1, True, phase="start"), Scn(3, 2, True, phase="start"), Scn(2, 0, True, (True,), phase="start"),
          Scn(2, 1, False, phase="start"), Scn(1, 0, False, down=False, phase="start"), Scn(3, 1, True, (True,), phase="start"),
          Scn(2, 2, True, down=False, phase="start")]
    if thorough:
        s += [Scn(1, 1, True, phase="start"), Scn(1, 2, True, phase="start"), Scn(2, 0, True, phase="start"), Scn(3, 0, True, (True, True), phase="start"),
              Scn(3, 1, True, phase="start"), Scn(2, 1, True, (False,), phase="start"), Scn(3, 2, False, (True,), phase="start"),
              Scn(2, 1, True, (True,), down=False, phase="start")]
    if thorough:
        s += [Scn(1, 0, True, down=False), Scn(1, 0, True, (False,)), Scn(1, 0, False, (True,)), Scn(1, 2, True), Scn(2, 1, False),
              Scn(2, 1, True, (True,)), Scn(3, 1, True, (True,)), Scn(3, 0, True, (True, True)), Scn(0, 1, True), Scn(0, 0, False), Scn(2, 2, True, (False,))]
    return s


# --------------------------------------------------------------------------------------
# worker-process side: real engine under Mode B
# --------------------------------------------------------------------------------------

def _setup_process() -> None:
    from harness import core

    core.ensure_repo_on_path()
    logging.disable(logging.CRITICAL)


_ENV_CLS = None


def _env_class():
    """modeb.Env + a task type `c18k` that suspends on its first K executions (K from the stage context)."""
    global _ENV_CLS
    if _ENV_CLS is not None:
        return _ENV_CLS
    from harness import modeb as mb
    from stabilize.queue.messages import RunTask
    from stabilize.tasks.interface import Task
    from stabilize.tasks.result import TaskResult

    class SuspendK(Task):
        def execute(self, stage):  # noqa: ANN001
            mb.LEDGER.append((stage.ref_id, "t"))
            n = sum(1 for x in mb.LEDGER if x[0] == stage.ref_id)
            if n <= int(stage.context.get("_k", 1)):
                return TaskResult.suspend()
            return TaskResult.success(outputs={f"o_{stage.ref_id}": n})

    class Env18(mb.Env):
        def open(self, create: bool = False):
            super().open(create)
            self.processor._handlers[RunTask].task_registry.register("c18k", SuspendK())
            return self

    _ENV_CLS = Env18
    return Env18


class Lab:
    def __init__(self) -> None:
        from harness import core
        from harness import modeb as mb

        self.mb = mb
        self.dir = core.scratch_dir()
        self.env = None

    def close(self) -> None:
        if self.env is not None:
            self.env.close()
        shutil.rmtree(self.dir, ignore_errors=True)

    def base(self, scn: Scn):
        """RunTask(g) pending, stage RUNNING with `pre` buffered signals, the raced signal and the `post` signals pushed."""
        from pathlib import Path

        from stabilize.models.stage import StageExecution
        from stabilize.models.task import TaskExecution
        from stabilize.queue.messages import SignalStage

        mb = self.mb
        if self.env is not None:
            self.env.close()
        p = Path(self.dir) / f"{scn.key()}.db"
        for suf in mb.SUFFIXES:
            q = Path(str(p) + suf)
            if q.exists():
                q.unlink()
        mb.LEDGER.clear()
        env = _env_class()(p).open(create=True)
        if scn.K <= 1:
            g = mb.stage("g", context={"_script": "U" if scn.K == 1 else "S"})
        else:
            g = StageExecution(ref_id="g", type="noop", name="g", context={"_k": scn.K},
                               tasks=[TaskExecution.create(name="t", implementing_class="c18k", stage_start=True, stage_end=True)],
                               requisite_stage_ref_ids=set())
        env.create_workflow([g] + ([mb.stage("d", {"g"})] if scn.down else []))
        env.start()
        first, st0 = ("SS(g)", "NOT_STARTED") if scn.phase == "start" else ("RT(g)", "RUNNING")
        env.drain(max_steps=20, hold=lambda c: c.startswith(first))
        if [c for _, c in env.pending()] != [first] or env.stage_row("g")["status"] != st0:
            raise RuntimeError(f"base state not reached: {env.state_line()}")

        def signal(n: int, persistent: bool):
            return SignalStage(execution_type=env.wf_type, execution_id=env.wf_id, stage_id=env.ids["g"], signal_name=f"s{n}",
                               signal_data={"n": n}, persistent=persistent)

        for i in range(scn.pre):
            env.push(signal(i, True))
            env.deliver(env.find("SG(g)")[0])
        env.push(signal(scn.pre, scn.p))
        for j, pp in enumerate(scn.post):
            env.push(signal(scn.pre + 1 + j, pp))
        row = env.stage_row("g")
        if row["buffered"] != scn.pre or row["status"] != st0 or mb.LEDGER:
            raise RuntimeError(f"base state not reached (mailbox): {env.state_line()}")
        meta = {"ids": dict(env.ids), "refs": dict(env.refs), "wf_id": env.wf_id, "wf_type": env.wf_type, "v0": row["version"], "b0": row["buffered"]}
        snap = mb.snapshot(env)
        self.env = env
        return env, snap, meta


def _fix(e, meta) -> None:
    e.refs, e.ids, e.wf_id, e.wf_type = meta["refs"], meta["ids"], meta["wf_id"], meta["wf_type"]


def _norm(sql: str) -> str:
    return " ".join((sql or "").split())


def window_of(calls, at: int) -> int:
    """Model window of the injection point `at` of worker A: micro-steps A has completed before that DB call
    (each read of the stage row is one; the first DML — the version-checked UPDATE, or the plain mark — is the act)."""
    reads = sum(1 for c in calls if c.idx < at and c.kind == "exec" and _norm(c.sql).startswith(ROW_READ))
    acted = any(c.idx < at and c.kind == "exec" and c.tag.split(".")[0] in DML for c in calls)
    return reads + (1 if acted else 0)


def window_of_start(calls, at: int, gid: str) -> int:
    """Window of an injection point of the StartStage worker: its read of the stage row, its claim UPDATE and its plan UPDATE
    (the version-checked UPDATEs of THIS stage's row) issued before that DB call."""
    def mine(c) -> bool:
        return isinstance(c.params, dict) and c.params.get("id") == gid

    reads = sum(1 for c in calls if c.idx < at and c.kind == "exec" and _norm(c.sql).startswith(ROW_READ) and mine(c))
    writes = sum(1 for c in calls if c.idx < at and c.kind == "exec" and c.tag == "UPDATE.stage_executions" and mine(c))
    return min(reads, 1) + writes


def start_outcome(op) -> tuple[str, int]:
    """(outcome.r<rollbacks>, number of plan commits) of a StartStage delivery"""
    rb = _rollbacks(op)
    commits = [d for k, d in op.txns if k == "commit" and "UPDATE.stage_executions" in d]
    plans = sum(1 for d in commits if "INSERT.queue_messages" in d)
    if isinstance(op.result, str) and op.result.startswith("raised"):
        return f"raised.r{rb}", plans
    out = "started" if plans else ("claimedOnly" if commits else "notStarted")
    return f"{out}.r{rb}", plans


def _rollbacks(op) -> int:
    return sum(1 for k, d in op.txns if k == "rollback" and "UPDATE.stage_executions" in d)


def _stage_commit(op):
    for k, d in op.txns:
        if k == "commit" and "UPDATE.stage_executions" in d:
            return d
    return None


def sig_outcome(op) -> str:
    if isinstance(op.result, str) and op.result.startswith("raised"):
        return f"raised.r{_rollbacks(op)}"
    d = _stage_commit(op)
    out = "dropped" if d is None else ("delivered" if "INSERT.queue_messages" in d else "buffered")
    return f"{out}.r{_rollbacks(op)}"


def run_outcome(op, executed: bool) -> str:
    if isinstance(op.result, str) and op.result.startswith("raised"):
        return f"raised.r{_rollbacks(op)}"
    d = _stage_commit(op)
    if d is None:
        out = "stale" if executed else "ignored"
    else:
        pushed = [(c.params or {}).get("message_type") for c in op.calls if c.tag == "INSERT.queue_messages" and isinstance(c.params, dict)]
        out = "consumed" if "RunTask" in pushed else ("finished" if "CompleteTask" in pushed else "suspended")
    return f"{out}.r{_rollbacks(op)}"


def _abs_status(env) -> str:
    """stage status as the model sees it: `finished` (printed SUCCEEDED) once the non-suspending result is recorded
    (CompleteTask pushed) — the completion chain is not part of the race model"""
    st = env.stage_row("g")["status"]
    if st == "RUNNING" and any(c.startswith("CT(g)") or c.startswith("CS(g)") for _, c in env.pending()):
        return "SUCCEEDED"
    return st


def _execs() -> int:
    from harness import modeb as mb

    return sum(1 for x in mb.LEDGER if x[0] == "g")


def final_monitors(scn: Scn, reason: str, st: str, buffered: int, execs: int, wf: str, npending: int) -> list[tuple[str, str]]:
    """Implementation-only oracles of C18 at quiescence (no model involved); signatures of the StartStage family end in `:start`."""
    v = _final_monitors(scn, reason, st, buffered, execs, wf, npending)
    return [(what, sig + ":start") for what, sig in v] if scn.phase == "start" else v


def _final_monitors(scn: Scn, reason: str, st: str, buffered: int, execs: int, wf: str, npending: int) -> list[tuple[str, str]]:
    v: list[tuple[str, str]] = []
    P, T = scn.persistent_total(), scn.transient_total()
    desc = f"scenario {scn.key()}: stage {st}, mailbox {buffered}, task executed {execs}x, workflow {wf}, drain {reason}, {npending} message(s) pending"
    if reason != "empty" or npending:
        v.append((f"the engine did not reach quiescence — {desc}", SIG_STUCK))
        return v
    if st == "SUSPENDED" and buffered > 0:
        v.append((f"a persistent signal sits in the mailbox of a SUSPENDED stage and nothing is queued: the signal is lost — {desc}", SIG_LOST))
    need = 1 + min(scn.K, P)
    if execs < need and not (st == "SUSPENDED" and buffered > 0):
        v.append((f"{P} persistent signal(s) were sent but the task ran only {execs}x (expected at least {need}) — {desc}", SIG_LOST))
    if P >= scn.K and (wf != "SUCCEEDED" or st != "SUCCEEDED" or execs != scn.K + 1) and not any(s == SIG_LOST for _, s in v):
        v.append((f"{P} persistent signal(s) cover the task's {scn.K} suspension(s) but the workflow did not complete with exactly {scn.K + 1} executions — {desc}",
                  SIG_LOST if execs <= scn.K else SIG_TWICE))
    if execs > 1 + P + T or execs > scn.K + 1:
        v.append((f"the task ran {execs}x with {P + T} signal(s) and {scn.K} suspension(s): a signal was applied twice — {desc}", SIG_TWICE))
    applied = execs - 1
    if not any(s in (SIG_LOST, SIG_TWICE) for _, s in v) and not (0 <= buffered - (P - applied) <= T):
        v.append((f"mailbox accounting broken: {P} persistent signal(s), {applied} resume(s), {buffered} left in the mailbox — {desc}", SIG_MAILBOX))
    return v


def run_sched(lab: Lab, scn: Scn, snap, meta, direction: str, at: int, k: int, nest_at: int | None = None) -> dict:
    """One schedule: A armed with B at DB call `at` (B optionally armed with C = the next signal at `nest_at`), then drain."""
    mb = lab.mb
    env = lab.env
    a_code, b_code = {"sig": ("SG(g)", "RT(g)"), "run": ("RT(g)", "SG(g)"), "sig2": ("SG(g)", "SG(g)"),
                      "start": ("SS(g)", "SG(g)"), "sigS": ("SG(g)", "SS(g)")}[direction]

    def mk(e):
        _fix(e, meta)
        sgs = e.find("SG(g)")
        a_row = e.find(a_code)[0]
        b_row = sgs[1] if direction == "sig2" else e.find(b_code)[0]
        arm_b = {}
        if nest_at is not None:
            arm_b = {nest_at: e.deliver_op("C", sgs[1])}
        return e.deliver_op("A", a_row, {at: e.deliver_op("B", b_row, arm_b)})

    out = mb.run_schedule(env, snap, mk)
    sched = {"scn": asdict(scn), "dir": direction, "at": at, "k": k}
    if nest_at is not None:
        sched["nest_at"] = nest_at
    res: dict[str, Any] = {"sched": sched, "blocked": bool(out.blocked), "skipped": bool(out.skipped), "trace": out.trace,
                           "injected": len(out.ops) > 1 and bool(out.ops[0].injected), "inside": False, "violations": [], "impl": None, "b_calls": []}
    if out.blocked:
        return res
    A, B = out.ops[0], out.ops[1]
    res["inside"] = bool(A.injected) and at < len(A.calls)
    res["b_calls"] = [c.idx for c in B.calls if c.legal] + [len(B.calls)]
    row = env.stage_row("g")
    execs = _execs()
    pend = env.pending()
    q = sum(1 for _, c in pend if c in ("RT(g)", "ST(g)"))
    if direction in ("start", "sigS") and nest_at is None:
        sig_op, start_op = (B, A) if direction == "start" else (A, B)
        so, plans = start_outcome(start_op)
        race = (f"race st={_abs_status(env)} dv={row['version'] - meta['v0']} b={row['buffered']} q={q} e={execs} pl={plans} "
                f"sig={sig_outcome(sig_op)} start={so}")
    elif direction in ("sig", "run") and nest_at is None:
        sig_op, run_op = (A, B) if direction == "sig" else (B, A)
        race = (f"race st={_abs_status(env)} dv={row['version'] - meta['v0']} b={row['buffered']} q={q} e={execs} "
                f"sig={sig_outcome(sig_op)} run={run_outcome(run_op, execs > 0)}")
    else:
        race = f"race st={_abs_status(env)} dv={row['version'] - meta['v0']} b={row['buffered']} q={q} e={execs}"
    res["post_race"] = env.state_line()
    reason, steps = env.drain(max_steps=80)
    row = env.stage_row("g")
    execs = _execs()
    wf = env.wf_status()
    npend = len(env.pending())
    fin = f"fin st={row['status']} b={row['buffered']} q={npend} e={execs} wf={wf}"
    res["impl"] = race + " | " + fin
    res["final"] = {"drain": [reason, steps], "state": env.state_line(), "executions": execs}
    res["violations"] = final_monitors(scn, reason, row["status"], row["buffered"], execs, wf, npend)
    return res


def points_of(lab: Lab, scn: Scn, snap, meta, direction: str) -> tuple[list, list[int]]:
    mb = lab.mb
    a_code = {"run": "RT(g)", "start": "SS(g)"}.get(direction, "SG(g)")

    def mk(e):
        _fix(e, meta)
        return e.deliver_op("A", e.find(a_code)[0])

    calls = mb.enumerate_points(lab.env, snap, mk)
    return calls, [c.idx for c in calls if c.legal] + [len(calls)]


def window_at(calls, at: int, direction: str, meta: dict) -> int:
    return window_of_start(calls, at, meta["ids"]["g"]) if direction == "start" else window_of(calls, at)


def unit(args: dict) -> dict:
    """One (scenario, direction, shard): enumerate A's legal points, run the shard's schedules."""
    _setup_process()
    if "replay" in args:
        return replay_race(args["replay"])
    scn = scn_from(args["scn"])
    direction = args["dir"]
    shard = args.get("shard") or [1, 0]
    lab = Lab()
    res = {"schedules": [], "points": 0, "illegal_points": 0, "scn": asdict(scn), "dir": direction, "reads": 0}
    try:
        env, snap, meta = lab.base(scn)
        res["v0"], res["b0"] = meta["v0"], meta["b0"]
        calls, legal = points_of(lab, scn, snap, meta, direction)
        res["reads"] = sum(1 for c in calls if c.kind == "exec" and _norm(c.sql).startswith(ROW_READ))
        if shard[1] == 0:
            res["points"] = len(legal)
            res["illegal_points"] = len(calls) + 1 - len(legal)
            res["calls"] = [c.text() for c in calls]
        for n_k, at in enumerate(legal):
            if n_k % shard[0] != shard[1]:
                continue
            k = window_at(calls, at, direction, meta)
            r = run_sched(lab, scn, snap, meta, direction, at, k)
            if args.get("nested"):
                # third worker (the next pending signal) at every legal point of B as it ran inside A at `at`
                for j in ([] if r["blocked"] else r["b_calls"]):
                    res["schedules"].append(run_sched(lab, scn, snap, meta, direction, at, k, nest_at=j))
            else:
                res["schedules"].append(r)
    finally:
        lab.close()
    return res


# --------------------------------------------------------------------------------------
# parent side
# --------------------------------------------------------------------------------------

def model_line(scn: Scn, direction: str, k: int, v0: int, b0: int) -> str:
    post = ",".join("1" if x else "0" for x in scn.post) or "-"
    if scn.phase == "start":
        return f"sigrace start cas K={scn.K} dir={'start' if direction == 'start' else 'sig'} k={k} p={1 if scn.p else 0} v={v0} b={b0} post={post}"
    return f"sigrace cas K={scn.K} dir={direction} k={k} p={1 if scn.p else 0} v={v0} b={b0} post={post}"


def _pool(n: int):
    import multiprocessing as mp

    return mp.get_context("spawn").Pool(n)


def plan_units(scns: list[Scn], thorough: bool) -> list[dict]:
    units: list[dict] = []
    nested_start = 0
    for scn in scns:
        d = asdict(scn)
        if scn.phase == "start":
            units.append({"scn": d, "dir": "start"})
            units.append({"scn": d, "dir": "sigS"})
            if any(scn.post) and scn.p and scn.pre > 0 and (thorough or nested_start == 0):
                # StartStage > signal > signal, nested at every legal point of both (monitors only)
                nested_start += 1
                for r in range(4):
                    units.append({"scn": d, "dir": "start", "shard": [4, r], "nested": True})
            continue
        units.append({"scn": d, "dir": "sig"})
        # a persistent signal injected between the RunTask worker's reload and its CAS costs ~3 s of real backoff
        # (execute_atomic's hard-coded inner retry): one such point per unit
        n = 6 if scn.p else 1
        for r in range(n):
            units.append({"scn": d, "dir": "run", "shard": [n, r]})
        if any(scn.post) and scn.p:
            units.append({"scn": d, "dir": "sig2"})
            if thorough:
                for r in range(6):
                    units.append({"scn": d, "dir": "run", "shard": [6, r], "nested": True})
    units.sort(key=lambda u: (0 if u.get("nested") and u["dir"] == "run" else 1, 0 if u["dir"] == "run" else 1))
    return units


def digest(ctx, results: list[dict]) -> None:
    mbx = ctx.extra.setdefault("modeb_race", {"points": 0, "illegal_points": 0, "schedules": 0, "blocked": 0, "compared": 0})
    inputs, lines, impl = [], [], []
    allsched = []
    for res in results:
        mbx["points"] += res["points"]
        mbx["illegal_points"] += res["illegal_points"]
        if "calls" in res:
            mbx.setdefault("calls", {})[f"{Scn(**{**res['scn'], 'post': tuple(res['scn']['post'])}).key()}/{res['dir']}"] = " ".join(res["calls"])
        for r in res["schedules"]:
            allsched.append((res, r))
    # simplest schedules first: a monitor keeps the first witness per signature
    allsched.sort(key=lambda x: ("nest_at" in x[1]["sched"], x[1]["sched"]["dir"] == "sig2", len(x[1]["sched"]["scn"]["post"]),
                                 x[1]["sched"]["scn"]["pre"], json.dumps(x[1]["sched"], sort_keys=True)))
    for res, r in allsched:
        sched = r["sched"]
        scn = scn_from(sched["scn"])
        ctx.count({"race": sched}, nontrivial=r["inside"])
        mbx["schedules"] += 1
        ctx.tag("race:dir=" + sched["dir"] + ("+nested" if "nest_at" in sched else ""))
        if r["blocked"]:
            mbx["blocked"] += 1
            ctx.tag("race:blocked")
            continue
        if r["skipped"]:
            ctx.tag("race:skipped-intxn")
        ctx.tag(f"race:scn={scn.key()}")
        ctx.tag(f"race:{sched['dir']}:k={sched['k']}" + (":inside" if r["inside"] else ""))
        replay_obj = {"modeb": sched, "trace": r["trace"], "post_race": r.get("post_race"), "final": r.get("final"), "observed": r["impl"]}
        for what, sig in r["violations"]:
            ctx.violation(f"{what}; schedule: direction {sched['dir']}, B injected before DB call {sched['at']} of A (window k={sched['k']})", sig, replay_obj)
        if r["inside"]:
            ctx.sample({"schedule": sched, "observed": r["impl"]})
        if sched["dir"] in ("sig", "run", "start", "sigS") and "nest_at" not in sched:
            for part in r["impl"].split(" "):
                if part.startswith(("sig=", "run=", "start=")):
                    ctx.tag("race:" + part.split(".")[0])
            inputs.append(sched)
            lines.append(model_line(scn, sched["dir"], sched["k"], res["v0"], res["b0"]))
            impl.append(r["impl"])
    if lines:
        bad = ctx.correspond(RACE_SUITE, inputs, lines, impl)
        mbx["compared"] += len(lines)
        mbx["mismatches"] = mbx.get("mismatches", 0) + bad


def replay_units() -> list[dict]:
    """committed Mode B witnesses replays/C18/*.json (files whose replay object has a `modeb` schedule): run first"""
    from harness import core

    d = core.VERIF / "replays" / "C18"
    out = []
    for f in sorted(d.glob("*.json")) if d.is_dir() else []:
        body = json.loads(f.read_text())
        rp = body.get("replay") or body
        if isinstance(rp, dict) and "modeb" in rp:
            out.append({"replay": rp["modeb"], "file": f.name})
    return out


def run_race(ctx) -> None:
    os.environ.setdefault("STABILIZE_MAX_STAGE_WAIT_RETRIES", "2")
    t0 = time.time()
    units = replay_units() + plan_units(scenarios(ctx.thorough), ctx.thorough)
    with _pool(min(16, os.cpu_count() or 4)) as pool:
        results = pool.map(unit, units, chunksize=1)
    for u, r in zip(units, results):
        if "replay" in u:
            ctx.count({"replay": u["file"]}, nontrivial=True)
            ctx.tag("race:replay")
            for what, sig in r["violations"]:
                ctx.violation(f"{what} (regression corpus {u['file']})", sig,
                              {"modeb": r["sched"], "trace": r["trace"], "final": r.get("final"), "observed": r.get("impl"), "replay_file": u["file"]})
    digest(ctx, [r for u, r in zip(units, results) if "replay" not in u])
    mbx = ctx.extra.setdefault("modeb_race", {})
    mbx["units"] = len(units)
    mbx["scenarios"] = [s.key() for s in scenarios(ctx.thorough)]
    mbx["wall_s"] = round(time.time() - t0, 1)


def run(ctx) -> None:
    engine_suites.run_for(ctx, "C18")
    # signals for synthetic CHILD stages: implementation-only family (monitors on real-engine traces, no model line)
    synth_suites.run_for(ctx, "C18")
    # pause / resume dimension: signals handled while the workflow is PAUSED (implementation-only)
    synth_suites.run_for(ctx, "C18", family="pause")
    # the stage-status rule alone (real determine_status vs the model, every short task list; theorem waiting_task_keeps_stage_waiting)
    dstatus_suite.run_for(ctx, "C18")
    run_race(ctx)


def search(ctx) -> None:
    engine_suites.search_for(ctx, "C18")
    if not ctx.monitor_hits:
        ctx.tier = "thorough"
        run_race(ctx)


# --------------------------------------------------------------------------------------
# replay
# --------------------------------------------------------------------------------------

def replay_race(sched: dict) -> dict:
    """Re-run one Mode B schedule {scn, dir, at, k[, nest_at]} against the implementation.  The exact DB-call index is used
    when it is still a legal point of that window; otherwise the first legal point of window `k`."""
    _setup_process()
    scn = scn_from(sched["scn"])
    lab = Lab()
    try:
        env, snap, meta = lab.base(scn)
        calls, legal = points_of(lab, scn, snap, meta, sched["dir"])
        at, k = sched.get("at"), sched.get("k")
        window_of_ = lambda cs, i: window_at(cs, i, sched["dir"], meta)  # noqa: E731
        if at not in legal or (k is not None and window_of_(calls, at) != k):
            cands = [i for i in legal if k is None or window_of_(calls, i) == k]
            if not cands:
                return {"sched": sched, "violations": [], "trace": [], "note": f"no legal injection point in window {k}", "calls": [c.text() for c in calls]}
            at = cands[0]
        r = run_sched(lab, scn, snap, meta, sched["dir"], at, window_of_(calls, at), nest_at=sched.get("nest_at"))
        r["calls"] = [c.text() for c in calls]
        return r
    finally:
        lab.close()


def replay(ctx, body) -> int:
    rp = body.get("replay") or body
    if dstatus_suite.is_replay(body):
        return dstatus_suite.replay(ctx, body, "C18")
    if synth_suites.is_synth_replay(body):
        return synth_suites.replay(ctx, body)
    if isinstance(rp, dict) and "modeb" in rp:
        r = replay_race(rp["modeb"])
        s = r["sched"]
        who = {"run": "RunTask handler", "start": "StartStage handler"}.get(s["dir"], "signal handler")
        print(f"scenario {scn_from(s['scn']).key()}: direction {s['dir']} (A = {who}), "
              f"B injected before DB call {s.get('at')} of A, window k={s.get('k')}")
        print("  DB calls of A (un-armed; * = inside a write transaction):", " ".join(r.get("calls", [])))
        for line in r.get("trace", []):
            print("  ", line)
        if r.get("note"):
            print("  note:", r["note"])
        if r.get("blocked"):
            print("  schedule blocked by SQLite locking (not a legal interleaving)")
        print("  after the race :", r.get("post_race"))
        print("  after the drain:", (r.get("final") or {}).get("state"), (r.get("final") or {}).get("drain"))
        print("  observed       :", r.get("impl"))
        out = ctx.lean([model_line(scn_from(s["scn"]), s["dir"], s["k"], 0, scn_from(s["scn"]).pre)]) if s["dir"] in ("sig", "run", "start", "sigS") and "nest_at" not in s else None
        if out:
            print("  model (v=0)    :", out[0])
        for what, sig in r["violations"]:
            print(f"FAILS: {what}  [{sig}]")
        if not r["violations"]:
            print("replay: property held on this input")
        return 1 if r["violations"] else 0
    return engine_suites.replay(ctx, body)
