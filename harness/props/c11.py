"""C11 — a mutex admits one running stage; a deferred choice has exactly one winner (Mode B + sequential op scripts)."""
from __future__ import annotations

import json
import logging
import os
import re
import shutil
import time
from dataclasses import asdict, dataclass
from typing import Any

RULE = ("sibling stages s1..sn (n in {2,3}) sharing a mutex key, a deferred-choice group, or both; the real engine handles StartStage(s_a) with "
        "StartStage(s_b) (or the claim retention sweep) injected at EVERY legal DB-call point (thorough: a third worker nested at every legal point of "
        "the second); the race is mapped to Claims-model ops (peekM/peekC at the fast-path reads, claim at the claim transaction) and then continued by "
        "a seeded random script of sequential engine actions (deliver a waiting StartStage, run a started stage to completion, deliver a CancelStage / "
        "CompleteWorkflow, run the claim sweep) with the model state compared after every action; monitors replay the status-audit trigger log: never two "
        "live stages per mutex key after any commit, every mutex waiter eventually runs, exactly one member of a choice group ever starts and the others "
        "end CANCELED. Family bump-retry (three actors, one worker armed twice): a persistent SignalStage(s_a) is pending; worker A handles StartStage(s_a), "
        "the real SignalStageHandler buffers the signal into s_a's row (a non-claim write: version bump) at a legal point k1 between A's own-row read "
        "and A's claim transaction, so A's claim transaction loses the version CAS, is rolled back (claim row included) and A retries in-handler; "
        "StartStage(s_b) is injected at EVERY legal point k2 > k1 of A as it runs with the bump (rest of the first attempt, the re-read, the retry's "
        "fast-path reads, the retry's claim window, planning, after A); k1 = every legal point of the window (quick: every point for the 2-stage "
        "workflows, first / last / one seeded point for the 3-stage ones), every ordered pair (a, b) of every workflow; a rolled-back-and-retried claim "
        "attempt is no model op and its peeks are superseded by the retry's; model comparison, continuation and monitors as for the other schedules. "
        "Plus two fixed regression scenarios: a retry loop whose stages share a mutex (jump re-arm of the owner, F30) and the sweep "
        "of a terminal execution while the holder is SUSPENDED (F31); and one liveness scenario over a LONG wait: the waiter's StartStage is polled 14 times "
        "through the real poll_one (attempt limit, DLQ sweep after every round) while the holder is SUSPENDED, then the holder finishes - the waiter must run.")
ASSUMPTIONS = [
    "Mode B explores the interleavings SQLite's single-writer locking permits at transaction granularity plus all read windows, nested to depth 2 (harness/modeb.py)",
    "the bump-retry family has one foreign non-claim write per StartStage (one in-handler retry, _claim_retry = 1 of at most 5) and one sibling start placed "
    "after it; two or more bumps (retries 2..5, the re-queue after the retry limit), a bump by another writer than persistent-signal buffering (join tracking, "
    "a context-only store_stage: the same version CAS from A's side) and a third StartStage or the sweep inside the retry are not enumerated",
    "the deferred-choice theorems are about executions that are not terminal (nothing should start in a terminal execution: C17); the mutex theorems "
    "and the exclusiveness monitor have no such restriction",
    "delays are treated as elapsed only when nothing else is deliverable (a waiting StartStage is re-delivered when the queue is otherwise idle)",
]
TRUSTED_BASE = [
    "Claims models _is_mutex_blocked / _is_deferred_choice_claimed (as possibly stale reads), acquire_claim, the claim transaction of _start_if_ready, "
    "CancelStageHandler, reset_stage_for_retry, CompleteWorkflowHandler._determine_final_status (only as 'execution becomes terminal') and "
    "cleanup_completed_stage_claims; tied to the code by the per-schedule / per-action comparison only",
    "the trace abstraction in harness/props/c11.py (which DB call is which fast-path read / claim transaction; a write transaction rolled back after the "
    "claim mark and followed by a re-read of the worker's own stage row = a superseded attempt whose peeks and claim are dropped, a rolled-back claim "
    "transaction NOT followed by a re-read = acquire_claim refused = the model's claim op answering requeued / cancelSelf); Op.rollbacks of harness/modeb.py",
    "the version bump of the bump-retry family is not an op of the Claims model (it touches neither statuses nor claim rows); that the bump leaves the "
    "Claims state unchanged is checked per schedule by the state comparison after the race",
    "the PostgreSQL implementations of acquire_claim / cleanup_completed_stage_claims are not exercised",
]

F30_SIG = "mutex-deadlock:claim-owner-rearmed-by-jump"
F31_SIG = "mutex-two-live:sweep-of-terminal-execution-freed-live-claim"


@dataclass(frozen=True)
class Wf:
    n: int
    mutex: bool
    choice: bool
    holder_done: bool = False      # s1 already ran to completion holding the claim: the others race on the steal path

    def key(self) -> str:
        return f"n{self.n}{'m' if self.mutex else ''}{'g' if self.choice else ''}{'-steal' if self.holder_done else ''}"

    def prefix_ops(self) -> list[str]:
        return ["T0", "F0:SUCCEEDED"] if self.holder_done else []

    def racers(self) -> list[int]:
        return list(range(1 if self.holder_done else 0, self.n))

    def spec(self) -> str:
        one = ("m0" if self.mutex else "") + ("g0" if self.choice else "")
        return ",".join([one or "-"] * self.n)


def workflows(thorough: bool) -> list[Wf]:
    ws = [Wf(2, True, False), Wf(2, False, True), Wf(3, True, False), Wf(3, False, True), Wf(2, True, True), Wf(3, True, False, holder_done=True)]
    if thorough:
        ws += [Wf(3, True, True)]
    return ws


def _setup_process() -> None:
    from harness import core

    core.ensure_repo_on_path()
    logging.disable(logging.CRITICAL)


def _norm(sql: str) -> str:
    return " ".join(sql.split())


DML = ("INSERT", "INSERT-OR-IGNORE", "UPDATE", "DELETE")


ROW_READ = "SELECT * FROM stage_executions WHERE id = :id"
FAST_READ = "SELECT * FROM stage_executions WHERE execution_id = :execution_id"
NOT_CLAIM_DML = ("INSERT-OR-IGNORE.processed_messages", "DELETE.queue_messages")


def abstract_start(op, idx: int, wf: Wf, sid: str, info: dict | None = None) -> tuple[list[tuple[int, str]], str]:
    """StartStage(s_idx) trace -> [(call idx, model op)], outcome class.

    One ATTEMPT = own-row read, fast-path reads (PM / PC), first DML (C: the claim transaction, or the re-queue / self-cancel push of a
    blocked fast path).  A claim transaction that lost the stage-row CAS against a foreign non-claim write is rolled back as a whole
    (claim row included) and the handler retries in-handler: it re-reads its own row and runs the fast paths and the claim transaction
    again.  Such a rolled-back attempt changed nothing durable and decided nothing: it is not a model op, and its peeks are superseded
    by the retry's peeks.  It is recognised by: a write transaction of this worker rolled back (Op.rollbacks) after the attempt's C mark,
    followed by a re-read of the worker's own stage row.  (A claim transaction rolled back because acquire_claim REFUSED is followed by
    the re-queue / self-cancel push, never by a re-read: it stays the attempt's C op, the model's `claim` answering requeued / cancelSelf.)
    """
    marks: list[tuple[int, str]] = []
    peeks = 0
    want = (["PM"] if wf.mutex else []) + (["PC"] if wf.choice else [])
    claimed_at = None
    out = "ignored"
    seen_row = False
    superseded = 0
    retry_from = None
    rollbacks = list(getattr(op, "rollbacks", []) or [])
    for c in op.calls:
        if c.kind != "exec":
            continue
        s = _norm(c.sql)
        p = c.params if isinstance(c.params, dict) else {}
        if s.startswith(ROW_READ) and p.get("id") == sid:
            if seen_row and claimed_at is not None and any(claimed_at < r <= c.idx for r in rollbacks):
                # in-handler retry after a rolled-back claim attempt: forget the attempt
                retry_from = max(r for r in rollbacks if claimed_at < r <= c.idx)
                marks, peeks, claimed_at, out = [], 0, None, "ignored"
                superseded += 1
            seen_row = True
        if claimed_at is None and s == FAST_READ and peeks < len(want):
            marks.append((c.idx, f"{want[peeks]}{idx}"))
            peeks += 1
        verb = c.tag.split(".")[0]
        if verb in DML and claimed_at is None and seen_row and c.tag not in NOT_CLAIM_DML:
            claimed_at = c.idx
            marks.append((c.idx, f"C{idx}"))
        if c.tag == "UPDATE.stage_executions" and p.get("id") == sid and c.rowcount == 1 and out == "ignored":
            out = "started?"
        if c.tag == "INSERT.queue_messages":
            mt = p.get("message_type") or p.get("type")
            if mt == "StartStage" and out in ("ignored",):
                out = "requeued"
            if mt == "CancelStage" and out in ("ignored",) :
                out = "cancelSelf"
    if out == "started?":
        # committed iff the write transaction that contains the stage update committed
        committed = any(k == "commit" and "UPDATE.stage_executions" in d for k, d in op.txns)
        out = "started" if committed else "ignored"
    if not seen_row:
        out = "dedup"
    if info is not None:
        info["superseded"] = superseded
        info["retry_from"] = retry_from      # call index right after the (last) superseded attempt's rollback
    return marks, out


def claim_window(calls, sid: str) -> tuple[int | None, int | None]:
    """(index of the own-row read, index of the first DML after it = start of the claim transaction) of an un-armed StartStage run."""
    row = claim = None
    for c in calls:
        if c.kind != "exec":
            continue
        p = c.params if isinstance(c.params, dict) else {}
        if row is None and _norm(c.sql).startswith(ROW_READ) and p.get("id") == sid:
            row = c.idx
        elif row is not None and c.tag.split(".")[0] in DML and c.tag not in NOT_CLAIM_DML:
            claim = c.idx
            break
    return row, claim


class Lab:
    def __init__(self) -> None:
        from harness import core
        from harness import modeb as mb

        self.mb = mb
        self.dir = core.scratch_dir()
        self.env = None

    def close(self) -> None:
        if self.env is not None:
            self.env.close()
        shutil.rmtree(self.dir, ignore_errors=True)

    def base(self, wf: Wf, bump: int | None = None):
        """bump = i: additionally a persistent SignalStage(s_i) is pending (the non-claim writer of the bump-retry family: its real
        handler buffers the signal into the NOT_STARTED stage's context, which bumps the row version)."""
        mb = self.mb
        if self.env is not None:
            self.env.close()
        env = mb.fresh_env(self.dir, wf.key() + ("" if bump is None else f"-sg{bump}"))
        mb.build_siblings(env, wf.n, mutex_key="m" if wf.mutex else None, choice_group="g" if wf.choice else None, tail=False)
        env.start()
        env.deliver(env.find("SW")[0])
        codes = sorted(c for _, c in env.pending())
        if codes != [f"SS(s{i + 1})" for i in range(wf.n)]:
            raise RuntimeError(f"S0 not reached: {codes}")
        if wf.holder_done:
            env.deliver(env.find("SS(s1)")[0])
            env.drain(max_steps=12, hold=lambda c: not c.endswith("(s1)") and not c.startswith("CT(s1)"))
            if env.stage_row("s1")["status"] != "SUCCEEDED":
                raise RuntimeError(f"holder did not complete: {env.state_line()}")
        if bump is not None:
            from stabilize.queue.messages import SignalStage

            env.push(SignalStage(execution_type=env.wf_type, execution_id=env.wf_id, stage_id=env.ids[f"s{bump + 1}"], signal_name="go",
                                 signal_data={"x": 1}, persistent=True))
            if not env.find(f"SG(s{bump + 1})"):
                raise RuntimeError(f"signal not pending: {env.state_line()}")
        meta = {"ids": dict(env.ids), "refs": dict(env.refs), "wf_id": env.wf_id, "wf_type": env.wf_type}
        snap = mb.snapshot(env)
        self.env = env
        return env, snap, meta


def observe(env, wf: Wf) -> str:
    """`statuses ; claims ; wf=<terminal>` in the model's format"""
    sts = ",".join(env.stage_row(f"s{i + 1}")["status"] for i in range(wf.n))
    cl = []
    for r in env.q("SELECT claim_key, stage_id FROM stage_claims ORDER BY claim_key"):
        k = r["claim_key"]
        name = "m0" if k.startswith("mutex:") else "g0"
        cl.append(f"{name}>{int(env.ref(r['stage_id'])[1:]) - 1}")
    wfs = env.wf_status()
    return f"{sts} ; {','.join(sorted(cl)) or '-'} ; wf={1 if wfs in env_final() else 0}"


def env_final() -> set[str]:
    from harness import modeb as mb

    return mb.FINAL_WF


LIVE = {"RUNNING", "SUSPENDED", "PAUSED"}


def audit_monitors(env, wf: Wf, allow_terminal_overlap: bool = False) -> list[tuple[str, str]]:
    """Replay the status-audit log: live stages per mutex key after every commit; starts per choice group."""
    v: list[tuple[str, str]] = []
    status = {f"s{i + 1}": "NOT_STARTED" for i in range(wf.n)}
    starts: dict[str, int] = {}
    wf_terminal = False
    for kind, ent, old, new in env.audit():
        if kind == "W" and new in env_final():
            wf_terminal = True
        if kind != "S" or ent not in status:
            continue
        status[ent] = new
        if old == "NOT_STARTED" and new == "RUNNING":
            starts[ent] = starts.get(ent, 0) + 1
        if wf.mutex:
            livenow = sorted(r for r, s in status.items() if s in LIVE)
            if len(livenow) > 1:
                sig = F31_SIG if wf_terminal else "mutex-two-live"      # F31_SIG: the regression signature of the fixed finding
                v.append((f"stages {livenow} are live together under one mutex key (execution terminal: {wf_terminal})", sig))
    if wf.choice:
        winners = sorted(starts)
        if len(winners) > 1:
            v.append((f"choice group started {winners}", "choice-two-winners"))
    return v


def final_monitors(env, wf: Wf, reason: str) -> list[tuple[str, str]]:
    v: list[tuple[str, str]] = []
    sts = {f"s{i + 1}": env.stage_row(f"s{i + 1}")["status"] for i in range(wf.n)}
    wfs = env.wf_status()
    if reason != "empty" or wfs not in env_final():
        v.append((f"queue {reason}, workflow {wfs}, stages {sts}", f"no-quiescence:{reason}"))
        return v
    if wf.choice:
        run = [r for r, s in sts.items() if s == "SUCCEEDED"]
        canc = [r for r, s in sts.items() if s == "CANCELED"]
        if len(run) != 1 or len(canc) != wf.n - 1:
            v.append((f"choice group ended {sts}", "choice-not-one-winner-rest-canceled"))
    elif wf.mutex:
        if any(s != "SUCCEEDED" for s in sts.values()):
            v.append((f"a mutex waiter never ran: {sts}", "mutex-waiter-starved"))
    return v


# --------------------------------------------------------------------------------------
# one schedule: race (Mode B) + random sequential continuation, both compared with the model
# --------------------------------------------------------------------------------------

def continuation(env, wf: Wf, rng, model_ops: list[str], impl_states: list[str], max_actions: int = 60) -> str:
    """Seeded random sequential actions until quiescence; appends the model op and the observed state per action."""
    from harness import modeb as mb

    for _ in range(max_actions):
        pend = env.pending()
        if not pend:
            return "empty"
        acts: list[tuple[str, Any]] = []
        undelayed = [(i, c) for i, c in pend if not re.search(r"r\d+$", c)]
        for i, c in pend:
            m = re.match(r"^(SS|XS)\(s(\d+)\)(r\d+)?$", c)
            if m and (not m.group(3) or not undelayed):
                acts.append((("T" if m.group(1) == "SS" else "X") + str(int(m.group(2)) - 1), i))
            m = re.match(r"^CW(r(\d+))?$", c)
            if m and (not m.group(1) or not undelayed):
                if int(m.group(2) or 0) < int(os.environ["STABILIZE_MAX_STAGE_WAIT_RETRIES"]) or env.wf_status() in mb.FINAL_WF:
                    acts.append(("E", i))
        for k in range(wf.n):
            ref = f"s{k + 1}"
            if env.stage_row(ref)["status"] == "RUNNING" and any(re.match(rf"^(ST|RT|CT|CS)\({ref}\)", c) for _, c in pend):
                acts.append((f"F{k}:SUCCEEDED", ref))
        acts.append(("W", None))
        real = [a for a in acts if a[0] != "W"]
        if not real:
            return "stuck"
        name, arg = rng.choice(acts if rng.random() < 0.25 else real)
        if name == "W":
            env.store.cleanup_completed_stage_claims()
        elif name.startswith("F"):
            for _ in range(12):
                rows = [i for i, c in env.pending() if re.match(rf"^(ST|RT|CT|CS)\({arg}\)", c)]
                if not rows:
                    break
                env.deliver(rows[0])
        else:
            env.deliver(arg)
        model_ops.append(name)
        impl_states.append(observe(env, wf))
    return "bound"


@dataclass
class Result:
    sched: dict
    nontrivial: bool
    blocked: bool
    driver_line: str | None
    impl_line: str | None
    violations: list
    tags: list


def op_tree(ops: list[dict]) -> tuple[dict[str, str | None], dict[str, list[dict]]]:
    """parent name and children (ordered by injection index) of every op: ops[k] is injected into the op named ops[k]["into"],
    by default into ops[k-1] (a chain: A, B inside A, C inside B)."""
    parent: dict[str, str | None] = {}
    kids: dict[str, list[dict]] = {o["name"]: [] for o in ops}
    for i, o in enumerate(ops):
        parent[o["name"]] = o.get("into", ops[i - 1]["name"] if i else None) if i else None
        if i:
            kids[parent[o["name"]]].append(o)
    for k in kids.values():
        k.sort(key=lambda o: o["at"])
    return parent, kids


def bump_stage(ops: list[dict]) -> int | None:
    return next((o["stage"] for o in ops if o["kind"] == "G"), None)


def run_one(lab: Lab, wf: Wf, ops: list[dict], snap, meta, seed: int) -> Result:
    """ops[k] = {"name", "kind": "SS"|"W"|"G", "stage": idx, "at"[, "into"]}; ops[k] is injected at call index `at` of the op named
    `into` (default: ops[k-1]).  kind G = deliver the pending persistent SignalStage(s_stage) (a non-claim write to the stage row)."""
    import random

    mb = lab.mb
    env = lab.env
    _, kids = op_tree(ops)

    def mk(e):
        e.refs, e.ids, e.wf_id, e.wf_type = meta["refs"], meta["ids"], meta["wf_id"], meta["wf_type"]

        def build(o):
            arm = {c["at"]: build(c) for c in kids[o["name"]]}
            if o["kind"] == "W":
                return e.fn_op(o["name"], "sweep", lambda e=e: e.store.cleanup_completed_stage_claims(), arm)
            code = ("SG" if o["kind"] == "G" else "SS") + f"(s{o['stage'] + 1})"
            return e.deliver_op(o["name"], e.find(code)[0], arm)

        return build(ops[0])

    out = mb.run_schedule(env, snap, mk)
    sched = {"wf": asdict(wf), "ops": ops, "seed": seed}
    if out.blocked:
        return Result(sched, False, True, None, None, [], ["blocked"])
    ran = {o.name: o for o in out.ops}
    nontrivial = len(out.ops) > 1 and all(c["at"] in ran[n].injected for n, cs in kids.items() for c in cs)
    # ---- model ops of the race ---------------------------------------------------------------
    abss: dict[str, tuple[list[tuple[int, str]], str]] = {}
    infos: dict[str, dict] = {}
    for od in ops:
        o = ran[od["name"]]
        if od["kind"] == "W":
            first = next((c.idx for c in o.calls if c.kind == "exec"), 0)
            abss[od["name"]] = ([(first, "W")], "swept")
        elif od["kind"] == "G":
            abss[od["name"]] = ([], "bumped")         # not an op of the Claims model: it touches neither statuses nor claims
        else:
            infos[od["name"]] = {}
            abss[od["name"]] = abstract_start(o, od["stage"], wf, meta["ids"][f"s{od['stage'] + 1}"], infos[od["name"]])

    def flatten(name: str) -> list[str]:
        res: list[str] = []
        marks, _ = abss[name]
        todo = [c for c in kids[name] if c["at"] in ran[name].injected]
        for idx, mark in marks:
            while todo and idx >= todo[0]["at"]:
                res += flatten(todo.pop(0)["name"])
            res.append(mark)
        for c in todo:
            res += flatten(c["name"])
        return res

    model_ops = wf.prefix_ops() + flatten(ops[0]["name"])
    race_len = len(model_ops)
    race_out = {od["name"]: abss[od["name"]][1] for od in ops}
    impl_states = [observe(env, wf)]
    pendx = sorted(int(c[4:-1]) - 1 for _, c in env.pending() if c.startswith("XS("))
    tags: list[str] = []
    if bump_stage(ops) is not None:
        tags.append("family:bump-retry")
        inf = infos.get(ops[0]["name"], {})
        if inf.get("superseded"):
            tags.append("bump:claim-attempt-rolled-back-and-retried")
            rb = inf["retry_from"]
            cmark = next((i for i, m in abss[ops[0]["name"]][0] if m.startswith("C")), None)
            peek_last = max((i for i, m in abss[ops[0]["name"]][0] if m.startswith("P")), default=None)
            for c in kids[ops[0]["name"]]:
                if c["kind"] == "SS" and c["at"] in ran[ops[0]["name"]].injected:
                    if c["at"] >= rb:
                        tags.append("bump:B-inside-retry")
                    if cmark is not None and peek_last is not None and peek_last < c["at"] <= cmark:
                        tags.append("bump:B-between-retry-fast-path-and-retry-claim")
        elif ran[ops[0]["name"]].rollbacks:
            tags.append("bump:claim-refused-no-retry")
        else:
            tags.append("bump:no-claim-transaction-rolled-back")      # B ran before A's fast-path reads (A blocked there), or after A
    # ---- continuation --------------------------------------------------------------------------
    rng = random.Random(f"{wf.key()}:{json.dumps(ops)}:{seed}")
    reason = continuation(env, wf, rng, model_ops, impl_states)
    violations = audit_monitors(env, wf) + final_monitors(env, wf, reason)
    driver_line = f"claims fix=1;{wf.spec()};{','.join(model_ops)}"
    impl_line = json.dumps({"race": race_out, "xs": pendx, "states": impl_states})
    sched["model_ops"] = model_ops
    sched["race_len"] = race_len
    sched["trace"] = out.trace
    sched["final"] = {"reason": reason, "state": impl_states[-1]}
    return Result(sched, nontrivial, False, driver_line, impl_line, violations, tags)


def project_model(wf: Wf, model_ops: list[str], race_len: int, ops: list[dict], lean_lines) -> list[str]:
    """Ask the model for the state after the race and after every later action (prefix lines)."""
    lines = [f"claims fix=1;{wf.spec()};{','.join(model_ops[:k])}" for k in range(race_len, len(model_ops) + 1)]
    return lines


def select_k1(window: list[int], thorough: bool, seed: int, key: str) -> list[int]:
    """bump points of one (workflow, a): thorough = every legal point of the window; quick = the first, the last (right before the claim
    transaction's first DML: the read-then-CAS window) and one seeded point in between.  For worker A the points of the window differ
    only in how many of its fast-path reads come after the bump (those reads do not look at versions)."""
    import random

    if thorough or len(window) <= 3:
        return list(window)
    mid = random.Random(f"k1:{key}:{seed}").choice(window[1:-1])
    return [window[0], mid, window[-1]]


def unit_bump(args: dict) -> dict:
    """Family bump-retry: A = StartStage(s_a) armed twice: G = the pending persistent SignalStage(s_a) through the real SignalStageHandler
    at a legal point k1 between A's own-row read and its claim transaction (A's claim transaction then loses the version CAS, is rolled
    back, A retries in-handler), and B = StartStage(s_b) at every legal point k2 > k1 of A as it runs WITH the bump (so the points of
    the rolled-back attempt, of the re-read and of the whole retry are all there) and right after A."""
    _setup_process()
    wf = Wf(**args["wf"])
    lab = Lab()
    res = {"schedules": [], "points": 0, "illegal_points": 0, "bump": {"k1": 0, "k2": 0, "window": 0}}
    try:
        mb = lab.mb
        a, b = args["a"], args["b"]
        env, snap, meta = lab.base(wf, bump=a)
        sid = meta["ids"][f"s{a + 1}"]

        def mkA(e, k1=None):
            e.refs, e.ids, e.wf_id, e.wf_type = meta["refs"], meta["ids"], meta["wf_id"], meta["wf_type"]
            arm = {} if k1 is None else {k1: e.deliver_op("G", e.find(f"SG(s{a + 1})")[0])}
            return e.deliver_op("A", e.find(f"SS(s{a + 1})")[0], arm)

        calls = mb.enumerate_points(env, snap, mkA)
        row, claim = claim_window(calls, sid)
        if row is None or claim is None:
            raise RuntimeError(f"no claim window in the un-armed run of SS(s{a + 1}) on {wf.key()}")
        window = [c.idx for c in calls if c.legal and row < c.idx <= claim]
        k1s = select_k1(window, args["thorough"], args["seed"], f"{wf.key()}:{a}")
        shard = args.get("shard") or [1, 0]
        opA = {"name": "A", "kind": "SS", "stage": a, "at": None}
        for n_k, k1 in enumerate(k1s):
            if n_k % shard[0] != shard[1]:
                continue
            o1 = mb.run_schedule(env, snap, lambda e, k1=k1: mkA(e, k1))
            if o1.blocked or not o1.ops[0].injected:
                res["schedules"].append(vars(Result({"wf": asdict(wf), "ops": [opA, {"name": "G", "kind": "G", "stage": a, "at": k1, "into": "A"}],
                                                     "seed": args["seed"]}, False, True, None, None, [], ["blocked"])))
                continue
            acalls = o1.ops[0].calls
            k2s = [c.idx for c in acalls if c.legal and c.idx > k1] + [len(acalls)]
            res["bump"]["k1"] += 1
            res["bump"]["k2"] += len(k2s)
            if b == args["first_b"]:
                res["bump"]["window"] += len(window) if n_k == 0 and shard[1] == 0 else 0
                res["points"] += len(k2s)
                res["illegal_points"] += len(acalls) - k1 - (len(k2s) - 1)
            opG = {"name": "G", "kind": "G", "stage": a, "at": k1, "into": "A"}
            for k2 in k2s:
                opB = {"name": "B", "kind": "SS", "stage": b, "at": k2, "into": "A"}
                res["schedules"].append(vars(run_one(lab, wf, [opA, opG, opB], snap, meta, args["seed"])))
    finally:
        lab.close()
    return res


def unit(args: dict) -> dict:
    if args.get("family") == "bump":
        return unit_bump(args)
    _setup_process()
    wf = Wf(**args["wf"])
    lab = Lab()
    res = {"schedules": [], "points": 0, "illegal_points": 0}
    try:
        mb = lab.mb
        env, snap, meta = lab.base(wf)
        a, b = args["a"], args["b"]

        def mkA(e):
            e.refs, e.ids, e.wf_id, e.wf_type = meta["refs"], meta["ids"], meta["wf_id"], meta["wf_type"]
            return e.deliver_op("A", e.find(f"SS(s{a + 1})")[0])

        calls = mb.enumerate_points(env, snap, mkA)
        legal = [c.idx for c in calls if c.legal] + [len(calls)]
        if not args.get("nested_only") and (args.get("shard") or [1, 0])[1] == 0:
            res["points"] += len(legal)
            res["illegal_points"] += len(calls) + 1 - len(legal)
        opA = {"name": "A", "kind": "SS", "stage": a, "at": None}
        shard = args.get("shard") or [1, 0]
        for n_k, k in enumerate(legal):
            if n_k % shard[0] != shard[1]:
                continue
            opB = {"name": "B", "kind": "W", "stage": None, "at": k} if b == "W" else {"name": "B", "kind": "SS", "stage": b, "at": k}
            r = run_one(lab, wf, [opA, opB], snap, meta, args["seed"])
            if not args.get("nested_only"):
                res["schedules"].append(vars(r))
            if args.get("third") is not None and not r.blocked and b != "W":
                # nested third worker at every legal point of B as it ran inside A at k
                def mkAB(e, k=k):
                    e.refs, e.ids, e.wf_id, e.wf_type = meta["refs"], meta["ids"], meta["wf_id"], meta["wf_type"]
                    ob = e.deliver_op("B", e.find(f"SS(s{b + 1})")[0])
                    return e.deliver_op("A", e.find(f"SS(s{a + 1})")[0], {k: ob})

                o2 = mb.run_schedule(env, snap, mkAB)
                if len(o2.ops) > 1:
                    bl = [c.idx for c in o2.ops[1].calls if c.legal]
                    c3 = args["third"]
                    for jx in bl:
                        opC = {"name": "C", "kind": "W", "stage": None, "at": jx} if c3 == "W" else {"name": "C", "kind": "SS", "stage": c3, "at": jx}
                        r3 = run_one(lab, wf, [opA, opB, opC], snap, meta, args["seed"])
                        res["schedules"].append(vars(r3))
    finally:
        lab.close()
    return res


# --------------------------------------------------------------------------------------
# fixed scenarios (findings)
# --------------------------------------------------------------------------------------

def scenario_rearm() -> dict:
    """F30: retry loop t -> s sharing a mutex; s jumps back to t once."""
    _setup_process()
    from harness import core
    from harness import modeb as mb

    d = core.scratch_dir()
    env = mb.fresh_env(d, "rearm")
    try:
        env.create_workflow([mb.stage("t", mutex_key="m"), mb.stage("s", {"t"}, mutex_key="m", context={"_script": "J:t:1"})])
        env.start()
        reason, steps = env.drain(max_steps=80)
        t, s = env.stage_row("t")["status"], env.stage_row("s")["status"]
        claims = env.claimlog()
        owner = [env.ref(r["stage_id"]) for r in env.q("SELECT stage_id FROM stage_claims")]
        obs = f"{t},{s} ; {('m0>' + str(['t', 's'].index(owner[0]))) if owner else '-'} ; wf={1 if env.wf_status() in mb.FINAL_WF else 0}"
        v = []
        if reason != "empty" or env.wf_status() not in mb.FINAL_WF:
            owner = [r for r in env.q("SELECT stage_id FROM stage_claims")]
            v.append((f"retry loop t->s with a shared mutex: after the jump re-armed both stages the claim row still names "
                      f"{env.ref(owner[0]['stage_id']) if owner else '?'} (NOT_STARTED); StartStage(t) is re-queued forever "
                      f"(drain {reason} after {steps} deliveries, t={t}, s={s}, workflow {env.wf_status()})", F30_SIG))
        return {"violations": v, "state": env.state_line(), "claimlog": claims, "drain": [reason, steps], "observe": obs}
    finally:
        env.close()
        shutil.rmtree(d, ignore_errors=True)


def scenario_sweep_terminal() -> dict:
    """F31: holder SUSPENDED, another branch fails, CompleteWorkflow makes the execution TERMINAL, sweep frees the claim,
    the waiter starts, the holder is resumed: two RUNNING stages with one key."""
    _setup_process()
    from harness import core
    from harness import modeb as mb
    from stabilize.queue.messages import SignalStage

    d = core.scratch_dir()
    env = mb.fresh_env(d, "sweepterm")
    try:
        env.create_workflow([mb.stage("s1", mutex_key="m", context={"_script": "U"}), mb.stage("s2", mutex_key="m"),
                             mb.stage("x", context={"_script": "T"})])
        env.start()
        env.deliver(env.find("SW")[0])
        env.deliver(env.find("SS(s1)")[0])
        env.drain(max_steps=10, hold=lambda c: not c.endswith("(s1)"))           # s1 runs its task and suspends
        env.deliver(env.find("SS(s2)")[0])                                           # waiter: blocked by the claim, re-queued
        env.drain(max_steps=20, hold=lambda c: "(s2)" in c or "(s1)" in c)         # x fails; CompleteWorkflow: execution TERMINAL
        pre = env.state_line()
        env.store.cleanup_completed_stage_claims()                                   # retention sweep
        waits = [i for i, c in env.pending() if c.startswith("SS(s2)")]
        if waits:
            env.deliver(waits[0])
        env.push(SignalStage(execution_type=env.wf_type, execution_id=env.wf_id, stage_id=env.ids["s1"], signal_name="go", signal_data={}, persistent=False))
        sg = [i for i, c in env.pending() if c.startswith("SG(s1)")]
        if sg:
            env.deliver(sg[0])
        wf = Wf(2, True, False)
        v = [x for x in audit_monitors(env, wf) if x[1] == F31_SIG]
        owner = [env.ref(r["stage_id"]) for r in env.q("SELECT stage_id FROM stage_claims")]
        obs = (f"{env.stage_row('s1')['status']},{env.stage_row('s2')['status']},{env.stage_row('x')['status']} ; "
               f"{('m0>' + str(['s1', 's2'].index(owner[0]))) if owner else '-'} ; wf={1 if env.wf_status() in mb.FINAL_WF else 0}")
        return {"violations": v[:1], "pre_sweep": pre, "state": env.state_line(), "claimlog": env.claimlog(), "observe": obs}
    finally:
        env.close()
        shutil.rmtree(d, ignore_errors=True)


LONGWAIT_SIG = "mutex-waiter-stranded:after-long-wait-behind-suspended-holder"


def scenario_long_wait(rounds: int = 14) -> dict:
    """liveness over a LONG wait: the holder is SUSPENDED (waiting for a signal) while the waiter's StartStage is polled
    `rounds` times through the real poll_one (which filters on the attempt limit) with the DLQ sweep after every round;
    then the holder is signalled and finishes: the waiter must still be there and run."""
    _setup_process()
    from harness import core
    from harness import modeb as mb
    from stabilize.queue.messages import SignalStage

    d = core.scratch_dir()
    env = mb.fresh_env(d, "longwait")
    try:
        env.create_workflow([mb.stage("s1", mutex_key="m", context={"_script": "U"}), mb.stage("s2", mutex_key="m")])
        env.start()
        env.deliver(env.find("SW")[0])
        env.deliver(env.find("SS(s1)")[0])
        env.drain(max_steps=10, hold=lambda c: not c.endswith("(s1)"))           # s1 runs its task and suspends
        polled = 0
        attempts_seen = []
        for _ in range(rounds):
            env.ro.execute("UPDATE queue_messages SET deliver_at = datetime('now','-1 hour'), locked_until = NULL")
            m = env.queue.poll_one()
            if m is None:
                break
            polled += 1
            attempts_seen.append(getattr(m, "attempts", None))
            env.handle_and_ack(m)
            env.queue.check_and_move_expired()
        env.push(SignalStage(execution_type=env.wf_type, execution_id=env.wf_id, stage_id=env.ids["s1"], signal_name="go", signal_data={}, persistent=False))
        env.ro.execute("UPDATE queue_messages SET deliver_at = datetime('now','-1 hour'), locked_until = NULL")
        reason, steps = env.drain(max_steps=80)
        s1, s2 = env.stage_row("s1")["status"], env.stage_row("s2")["status"]
        dlq = env.q("SELECT COUNT(*) c FROM queue_messages_dlq")[0]["c"] if env.q("SELECT name FROM sqlite_master WHERE name='queue_messages_dlq'") else 0
        v = []
        if s2 != "SUCCEEDED" or env.wf_status() not in mb.FINAL_WF:
            v.append((f"holder s1 was SUSPENDED while the waiter's StartStage(s2) was polled {polled} of {rounds} times (attempts seen {attempts_seen}); "
                      f"after the holder finished ({s1}) the waiter is {s2}, workflow {env.wf_status()}, {dlq} message(s) in the DLQ: "
                      f"the waiting stage never ran", LONGWAIT_SIG))
        obs = f"{s1},{s2} ; polled={polled} ; dlq={dlq} ; wf={1 if env.wf_status() in mb.FINAL_WF else 0}"
        return {"violations": v, "state": env.state_line(), "claimlog": env.claimlog(), "drain": [reason, steps], "observe": obs}
    finally:
        env.close()
        shutil.rmtree(d, ignore_errors=True)


# --------------------------------------------------------------------------------------
# entry points
# --------------------------------------------------------------------------------------

def _pool(n: int):
    import multiprocessing as mp

    return mp.get_context("spawn").Pool(n)


def digest(ctx, results: list[dict]) -> None:
    mbx = ctx.extra.setdefault("modeb", {})
    lines: list[str] = []
    owners: list[tuple[dict, int]] = []
    for res in results:
        mbx["points"] = mbx.get("points", 0) + res["points"]
        mbx["illegal_points"] = mbx.get("illegal_points", 0) + res["illegal_points"]
        if res.get("bump"):
            bx = mbx.setdefault("bump_retry", {"k1_points_run": 0, "k2_points_run": 0, "schedules": 0})
            bx["k1_points_run"] += res["bump"]["k1"]
            bx["k2_points_run"] += res["bump"]["k2"]
            bx["schedules"] += len(res["schedules"])
    allsched = sorted((r for res in results for r in res["schedules"]), key=lambda r: (len(r["sched"]["ops"]), json.dumps(r["sched"]["ops"])))
    for res in [{"schedules": allsched}]:
        for r in res["schedules"]:
            sched = r["sched"]
            canon = {"wf": sched["wf"], "ops": sched["ops"], "seed": sched["seed"]}
            ctx.count(canon, nontrivial=r["nontrivial"])
            mbx["schedules"] = mbx.get("schedules", 0) + 1
            ctx.tag(f"workers{len(sched['ops'])}")
            if r["blocked"]:
                ctx.tag("blocked")
                continue
            ctx.tag("wf:" + Wf(**sched["wf"]).key())
            ctx.tag("race:" + ">".join(("W" if o["kind"] == "W" else f"{'SG' if o['kind'] == 'G' else 'SS'}{o['stage']}") for o in sched["ops"]))
            for t in r.get("tags") or []:
                ctx.tag(t)
            for what, sig in r["violations"]:
                ctx.violation(what, sig, {"schedule": canon, "model_ops": sched.get("model_ops"), "final": sched.get("final"), "trace": sched.get("trace")})
            if r["nontrivial"]:
                ctx.sample({"schedule": canon, "model_ops": sched.get("model_ops"), "final": sched.get("final")})
            wf = Wf(**sched["wf"])
            mo = sched["model_ops"]
            for k in range(sched["race_len"], len(mo) + 1):
                lines.append(f"claims fix=1;{wf.spec()};{','.join(mo[:k])}")
                owners.append((r, k))
            for o in mo:
                ctx.tag("op:" + re.sub(r"\d+", "", o.split(":")[0]))
    out = ctx.lean(lines) if lines else []
    if out is None:
        ctx.notes.append("model driver unavailable: correspondence skipped")
        return
    ctx.corr_suites["claims-race-and-script"] += len(lines)
    for (r, k), line, m in zip(owners, lines, out):
        sched = r["sched"]
        impl = json.loads(r["impl_line"])
        parts = [x.strip() for x in m.split(";")]
        if len(parts) != 5:
            mstate, mouts, mq = "unparsable:" + m, [], ""
        else:
            mouts, mstate, mq = parts[0].split("|"), f"{parts[1]} ; {parts[2]} ; {parts[3]}", parts[4]
        istate = impl["states"][k - sched["race_len"]]
        ok = (mstate == istate)
        detail = ""
        if ok and k == sched["race_len"]:
            # outcomes of the racing claims + pending CancelStages
            mo = sched["model_ops"][:k]
            for od in sched["ops"]:
                if od["kind"] != "SS":
                    continue
                want = impl["race"][od["name"]]
                if want == "dedup":
                    continue
                pos = [i for i, o in enumerate(mo) if o == f"C{od['stage']}"]
                got = mouts[pos[-1]] if pos else "missing"
                if got != want:
                    ok, detail = False, f"worker {od['name']}: impl {want} model {got}"
            mqs = sorted(int(x) for x in mq.replace("q=", "").split(",") if x not in ("", "-"))
            if ok and mqs != impl["xs"]:
                ok, detail = False, f"pending CancelStages impl {impl['xs']} model {mqs}"
        if not ok and len(ctx.corr_failures) < 50:
            ctx.corr_failures.append({"suite": "claims-race-and-script", "input": {"wf": sched["wf"], "ops": sched["ops"], "seed": sched["seed"]},
                                      "driver_line": line, "impl": istate, "model": mstate, "detail": detail})


def run_scenarios(ctx) -> None:
    """Fixed stories on the real engine (regressions of findings F30 / F31), each with the model's account of the same op list."""
    stories = (
        ("rearm", scenario_rearm, "m0,m0", "T0,F0:SUCCEEDED,T1,R1,R0,T0,F0:SUCCEEDED,T1,F1:SUCCEEDED,E"),
        ("sweep-terminal", scenario_sweep_terminal, "m0,m0,-", "T0,U0:SUSPENDED,T1,T2,F2:TERMINAL,E,W,T1,V0"),
    )
    for name, fn, spec, ops in stories:
        r = fn()
        ctx.count({"scenario": name}, nontrivial=True)
        ctx.tag("scenario:" + name)
        ctx.extra.setdefault("scenarios", {})[name] = {k: r[k] for k in r if k != "violations"}
        for what, sig in r["violations"]:
            ctx.violation(what, sig, {"scenario": name, **{k: r[k] for k in r if k != "violations"}})
        line = f"claims fix=1;{spec};{ops}"
        out = ctx.lean([line])
        if out is None:
            continue
        ctx.corr_suites["claims-scenarios"] += 1
        state = " ; ".join(x.strip() for x in out[0].split(";")[1:4])
        if r["observe"] != state:
            ctx.corr_failures.append({"suite": "claims-scenarios", "input": name, "driver_line": line, "impl": r["observe"], "model": state})
    # liveness over a long wait (implementation only: the Claims model has no attempt counters / dead-letter queue)
    r = scenario_long_wait()
    ctx.count({"scenario": "long-wait"}, nontrivial=True)
    ctx.tag("scenario:long-wait")
    ctx.extra.setdefault("scenarios", {})["long-wait"] = {k: r[k] for k in r if k != "violations"}
    for what, sig in r["violations"]:
        ctx.violation(what, sig, {"scenario": "long-wait", **{k: r[k] for k in r if k != "violations"}})


def run(ctx) -> None:
    _setup_process()
    os.environ.setdefault("STABILIZE_MAX_STAGE_WAIT_RETRIES", "2")
    run_replays(ctx)
    run_scenarios(ctx)
    units = []
    for wf in workflows(ctx.thorough):
        idx = wf.racers()
        for a in idx:
            for b in idx + ["W"]:
                if a == b:
                    continue
                thirds: list[Any] = [None]
                if ctx.thorough and b != "W":
                    thirds += [c for c in idx if c not in (a, b)] + ["W"]
                elif not ctx.thorough and b != "W" and wf.n == 3 and not wf.holder_done and (a, b) == (0, 1):
                    thirds += [2]      # one nested family in the quick tier
                for t3 in thirds:
                    if t3 is None:
                        units.append({"wf": asdict(wf), "a": a, "b": b, "third": None, "seed": ctx.seed})
                    else:
                        for r in range(6):      # nested families are ~20x bigger: shard them over the injection points of A
                            units.append({"wf": asdict(wf), "a": a, "b": b, "third": t3, "seed": ctx.seed, "shard": [6, r], "nested_only": True})
    # family bump-retry: A = SS(s_a) with the signal bump at k1 and B = SS(s_b) at every later legal point (see unit_bump)
    for wf in workflows(ctx.thorough):
        idx = wf.racers()
        every_k1 = ctx.thorough or wf.n == 2        # quick: every bump point for the 2-stage workflows, 3 per (workflow, a) for the others
        nshard = 7 if every_k1 else 3
        for a in idx:
            others = [b for b in idx if b != a]
            for b in others:
                for r in range(nshard):
                    units.append({"family": "bump", "wf": asdict(wf), "a": a, "b": b, "first_b": others[0], "seed": ctx.seed,
                                  "thorough": every_k1, "shard": [nshard, r]})
    units.sort(key=lambda u: 0 if u.get("nested_only") else (1 if u.get("family") == "bump" else 2))
    t0 = time.time()
    with _pool(min(16, os.cpu_count() or 4)) as pool:
        results = pool.map(unit, units, chunksize=1)
    digest(ctx, results)
    mbx = ctx.extra.setdefault("modeb", {})
    mbx["units"] = len(units)
    mbx["explore_wall_s"] = round(time.time() - t0, 1)


def search(ctx) -> None:
    ctx.tier = "thorough"
    run(ctx)


def run_replays(ctx) -> None:
    from harness import core

    d = core.VERIF / "replays" / "C11"
    if not d.is_dir():
        return
    for f in sorted(d.glob("*.json")):
        body = json.loads(f.read_text())
        r = replay_body(body)
        ctx.count({"replay": f.name}, nontrivial=True)
        ctx.tag("replay")
        for what, sig in r["violations"]:
            ctx.violation(what, sig, {"replay_file": f.name})


def replay_body(body: dict) -> dict:
    b = body.get("replay", body)
    if b.get("scenario") == "rearm":
        return scenario_rearm()
    if b.get("scenario") == "sweep-terminal":
        return scenario_sweep_terminal()
    if b.get("scenario") == "long-wait":
        return scenario_long_wait()
    sched = b["schedule"]
    wf = Wf(**sched["wf"])
    lab = Lab()
    try:
        env, snap, meta = lab.base(wf, bump=bump_stage(sched["ops"]))
        r = run_one(lab, wf, sched["ops"], snap, meta, sched.get("seed", 0))
        return {"violations": r.violations, "trace": r.sched.get("trace"), "final": r.sched.get("final"), "model_ops": r.sched.get("model_ops"),
                "tags": r.tags}
    finally:
        lab.close()


def replay(ctx, body) -> int:
    _setup_process()
    r = replay_body(body)
    for k, v in r.items():
        if k != "violations":
            print(f"{k}: {v}")
    for what, sig in r["violations"]:
        print(f"FAILS: {what}  [{sig}]")
    return 1 if r["violations"] else 0
