"""C14 — transient failures: bounded number of retries, saved progress is kept.

The REAL engine (SqliteWorkflowStore + SqliteQueue + QueueProcessor, scripted task living outside the engine) is
driven one chosen message at a time through the real `poll_one()`; what happens to the flaky task's RunTask
chain (attempt count delivered, context seen, row pushed, CompleteTask status, final statuses) is compared with
the Lean model `Stab.Retry` (variant `fixed`: what the property demands).  Monitors check the property as stated
without the model.
"""
from __future__ import annotations

import json
from datetime import timedelta
from pathlib import Path

from harness import core
from harness.procenv import ProcEnv, payload, rmtree

RULE = ("scenario = 1-3 single-stage workflows (1-3 tasks, the flaky one at any position) sharing one queue; the flaky "
        "task follows a script (per execution: F transient error with/without context_update, R running with context, "
        "S success, P permanent error); grid: k = 0..limit+3 consecutive transient failures x with/without update x "
        "position x FIFO/shuffled delivery; random: mixed scripts, processor-level redeliveries (poll + reschedule), lost "
        "acknowledgements (handler commits, worker dies before the processor's mark and the ack) and later redelivery of the "
        "left-behind row, queue limit below/above the message limit; the flaky task is a plain Task (engine default backoff), a "
        "RetryableTask whose own backoff is ZERO (retry pushed with delay 0) or one of 1 ms (field bk). A case is distinct by its canonical (spec, recorded "
        "choice list); non-trivial when it has >= 1 retry/poll round trip")
ASSUMPTIONS = [
    "a concurrent writer is one other client committing a context write to the same stage row right after the 1st / 2nd / 3rd "
    "retrieve_stage call of the RunTask handler (the read-then-commit window); the handler's ConcurrencyError retry must re-read "
    "and keep what the execution saved; the model treats such a delivery as an ordinary one (op `h`)",
    "delays and locks are made explicit: the harness rewrites deliver_at/locked_until and calls the real poll_one(), so "
    "backoff durations are not checked",
    "the limit is the dataclass default of Message.max_attempts (read off the real class, 10): the engine reads neither the "
    "payload field nor the max_attempts column back, so no other per-message limit can occur",
    "a lost acknowledgement is realised in two ways, alternating: (a) the worker process is killed when the FIRST durable commit of "
    "the delivery has completed (sqlite3.Connection subclass whose next commit() raises), then restarted on the same file - so a "
    "handler that needs a second commit for the same outcome is cut between them; (b) the real RunTaskHandler.handle is called "
    "directly and the processor's own mark and the ack are skipped (the worker dies after the handler's last commit)",
    "queue.max_attempts >= message.max_attempts for the terminal-status claim (otherwise the retry row strands for the DLQ "
    "sweep; modelled as `stuck`)",
]
TRUSTED_BASE = [
    "Stab.Retry models handle_exception/_handle_transient_retry/_mark_terminal/_handle_running, copy_with_attempts, "
    "AtomicTransaction.push_message, deserialize_message, SqliteQueue.poll_one/reschedule for ONE RunTask chain; the rest of "
    "the engine is exercised by the harness but only its final task/stage/workflow status is compared",
    "bulkman runs the task function exactly once per RunTask delivery (checked by the execution counter); the per-task-type "
    "circuit breaker is replaced by a pass-through via the public circuit_factory parameter (an open circuit makes RunTask "
    "fail fast with a TransientError without executing: such deliveries use up attempts, which only lowers the execution count)",
]

SIG_UNBOUNDED = "C14:retry-unbounded"
SIG_PROGRESS = "C14:progress-lost"
SIG_POLL = "C14:poll-dropped"
SIG_NOT_TERMINAL = "C14:limit-not-terminal"
SIG_REEXEC = "C14:requeued-source-reexecuted"

WORLD: dict[int, dict] = {}
_CONC_LEFT = [0]      # concurrent-writer injections left in this check run (set by run / search)
_NEXT_CHAIN = [0]


# ------------------------------------------------------------------------------------------------
# scripted task
# ------------------------------------------------------------------------------------------------

def parse_kv(s: str) -> dict[int, int]:
    if not s:
        return {}
    out = {}
    for item in s.split(","):
        k, v = item.split(":")
        out[int(k)] = int(v)
    return out


def act_at(spec: dict, n: int) -> str:
    sc = spec["script"]
    return sc[n] if n < len(sc) else spec["dflt"]


def tracked(context: dict) -> dict[int, int]:
    out = {}
    for k, v in context.items():
        if isinstance(k, str) and k[:1] == "k" and k[1:].isdigit() and isinstance(v, int):
            out[int(k[1:])] = v
    return out


def show_ctx(c: dict[int, int]) -> str:
    items = [f"{k}:{c[k]}" for k in sorted(c) if 0 <= k < 16]
    return ",".join(items) if items else "-"


def make_tasks():
    from stabilize import TaskResult, TransientError
    from stabilize.tasks.interface import Task

    class Scripted(Task):
        def execute(self, stage):  # noqa: ANN001
            w = WORLD[stage.context["chain"]]
            hook = w.pop("body_hook", None)
            if hook is not None:
                hook()        # something another worker does WHILE this task body executes (e.g. a recovery sweep)
            n = w["n"]
            w["n"] = n + 1
            act = act_at(w["spec"], n)
            w["seen"].append(tracked(stage.context))
            w["acts"].append(act)
            upd = {f"k{k}": v for k, v in parse_kv(act[1:]).items()}
            if act[0] == "F":
                # how the task raises is part of the input shape: plain, translated from a low-level error (`raise .. from`,
                # the usual idiom: __cause__ set), or raised while handling one (__context__ only); the progress attached to
                # the TransientError must survive in all three
                style = (n + len(w["spec"]["script"])) % 3
                # ... and so is the documented `retry_after` hint (a rate-limited service): it may delay the retry, it must not
                # exempt the failure from the retry budget; chains 2, 5, 8.. use it on every failure, the others on every third
                hint = {"retry_after": 0.001} if (stage.context["chain"] % 3 == 2 or n % 3 == 1) else {}
                if style == 1:
                    raise TransientError("scripted transient", context_update=upd or None, **hint) from ConnectionResetError("scripted low-level error")
                if style == 2:
                    try:
                        raise TimeoutError("scripted low-level timeout")
                    except TimeoutError:
                        raise TransientError("scripted transient", context_update=upd or None, **hint)
                raise TransientError("scripted transient", context_update=upd or None, **hint)
            if act[0] == "S":
                return TaskResult.success(context=upd or None)
            if act[0] == "R":
                return TaskResult.running(context=upd or None)
            raise ValueError("scripted permanent")

    class Ok(Task):
        def execute(self, stage):  # noqa: ANN001
            return TaskResult.success()

    # the same scripted task as a RetryableTask that chooses its own backoff: ZERO (the retry message is pushed with delay 0,
    # the branch of push_message / the queue a default >= 1 s backoff never takes) or one millisecond
    from datetime import timedelta

    from stabilize.tasks.interface import RetryableTask

    def retryable(backoff: timedelta):
        class ScriptedRetryable(RetryableTask):
            def get_timeout(self):
                return timedelta(days=1)

            def get_backoff_period(self, stage, duration):  # noqa: ANN001
                return backoff

            def execute(self, stage):  # noqa: ANN001
                return Scripted.execute(self, stage)

        return ScriptedRetryable

    return {"scripted": Scripted, "ok": Ok, "scriptedR0": retryable(timedelta(0)), "scriptedR1": retryable(timedelta(milliseconds=1))}


def impl_class(w: dict) -> str:
    """scenario field `bk`: absent / None = plain Task (engine's default backoff), 0 = RetryableTask with zero backoff, 1 = 1 ms"""
    bk = w.get("bk")
    return "scripted" if bk is None else f"scriptedR{int(bk)}"


# ------------------------------------------------------------------------------------------------
# one scenario on the real engine
# ------------------------------------------------------------------------------------------------

def default_max() -> int:
    """`Message.max_attempts` dataclass default, read off the real class"""
    from stabilize.queue.messages import RunTask

    return RunTask.__dataclass_fields__["max_attempts"].default


def limit_of(w: dict | None = None) -> int:
    return default_max() or 10


def driver_line(scn: dict, w: dict, ops: list[str]) -> str:
    return (f"retry fixed q={scn['qmax']} dm={default_max()} ctx={show_ctx({int(k): v for k, v in w['ctx'].items()})} "
            f"script={';'.join(w['script']) or '-'} dflt={w['dflt']} ops={'.'.join(ops) or '-'}")


def run_scenario(env: ProcEnv, scn: dict, rng, ctx=None, verbose: bool = False) -> dict:
    """Returns {"lines": [(wf_index, driver_line, impl_line)], "violations": [(what, sig)], "choices": [...]}"""
    from stabilize import Orchestrator
    from stabilize.models.stage import StageExecution
    from stabilize.models.task import TaskExecution
    from stabilize.models.workflow import Workflow

    chains = []
    for i, w in enumerate(scn["wfs"]):
        cid = _NEXT_CHAIN[0]
        _NEXT_CHAIN[0] += 1
        WORLD[cid] = {"spec": w, "n": 0, "seen": [], "acts": []}
        sctx = {"chain": cid}
        sctx.update({f"k{int(k)}": v for k, v in w["ctx"].items()})
        tasks = [TaskExecution.create(name=f"t{j}", implementing_class=impl_class(w) if j == w["pos"] else "ok",
                                      stage_start=(j == 0), stage_end=(j == w["T"] - 1)) for j in range(w["T"])]
        wf = Workflow.create(application="c14", name=f"w{cid}",
                             stages=[StageExecution(ref_id="a", type="t", name="a", context=sctx, tasks=tasks)])
        env.store.store(wf)
        Orchestrator(env.queue).start(wf)
        chains.append({"cid": cid, "wf": wf.id, "stage": wf.stages[0].id, "flaky": wf.stages[0].tasks[w["pos"]].id,
                       "obs": [], "ops": [], "done": "-", "cut": False, "stale": [], "spec": w, "round_trips": 0})
    by_wf = {c["wf"]: c for c in chains}
    stuck: set[int] = set()
    choices_in = scn.get("choices")
    choices_out: list[list] = []
    px = scn.get("px", 0.0)
    pl = scn.get("pl", 0.0)
    conc_budget = [min(scn.get("max_conc", 2), _CONC_LEFT[0])]    # a conflict costs ~1-3 s of hard-coded backoff in execute_atomic
    ctx_tags: set[str] = set()
    step = 0
    violations: list[tuple[str, str]] = []

    def stage_version(c) -> int:
        return env.ro.execute("SELECT version FROM stage_executions WHERE id = ?", (c["stage"],)).fetchone()[0]

    def stage_ctx(c) -> dict[int, int]:
        return tracked(json.loads(env.ro.execute("SELECT context FROM stage_executions WHERE id = ?", (c["stage"],)).fetchone()[0]))

    def is_flaky(row, c) -> bool:
        return row["message_type"] == "RunTask" and payload(row).get("task_id") == c["flaky"]

    def kind_of(row, c) -> str:
        if row["id"] in c["stale"]:
            return "stale"
        return "live" if is_flaky(row, c) else "other"

    while step < scn.get("max_steps", 600):
        cands = []
        for r in env.rows():
            c = by_wf.get(payload(r).get("execution_id"))
            if c is None or r["id"] in stuck or c["cut"]:
                continue
            cands.append((r, c))
        if not cands:
            break
        if choices_in is not None and step < len(choices_in):
            idx, op = choices_in[step]
            idx %= len(cands)
        else:
            idx = 0 if scn["mode"] == "fifo" else rng.randrange(len(cands))
            op = "h"
            if kind_of(*cands[idx]) == "live":
                u = rng.random()
                op = "x" if u < px else ("l" if u < px + pl else "h")
        row, c = cands[idx]
        kind = kind_of(row, c)
        op = "r" if kind == "stale" else ("h" if (kind == "other" or op == "r") else op)
        choices_out.append([idx, op])
        step += 1
        rid = row["id"]
        w = c["spec"]
        world = WORLD[c["cid"]]
        m = env.poll_row(rid)
        if kind == "stale":
            k = c["stale"].index(rid)
            c["ops"].append(f"r{k}")
            if m is None:
                stuck.add(rid)
                c["obs"].append("stuck")
                continue
            n0 = world["n"]
            try:
                env.handle_and_ack(m)
            except Exception as e:
                env.queue.reschedule(m, timedelta(0))
                c["obs"].append(f"handler-error:{type(e).__name__}")
                continue
            c["stale"].pop(k)
            if world["n"] != n0:
                c["obs"].append(f"executions+{world['n'] - n0}")
                violations.append((f"a RunTask that had already been re-queued / completed was delivered again and the task was "
                                   f"executed again (execution {world['n']})", SIG_REEXEC))
            else:
                c["obs"].append("dedup")
            continue
        if m is None:
            stuck.add(rid)
            if kind == "live":
                c["ops"].append(op)
                c["obs"].append("stuck")
            continue
        if op == "x":
            env.queue.reschedule(m, timedelta(0))
            c["ops"].append("x")
            c["obs"].append(f"x:{env.row(rid)['attempts']}")
            continue
        if kind == "other":
            try:
                env.handle_and_ack(m)
            except Exception as e:  # not expected for these workflows
                env.queue.reschedule(m, timedelta(0))
                c["obs"].append(f"handler-error:{type(e).__name__}")
            continue
        # ---- the flaky task's RunTask --------------------------------------------------------
        n0, v0 = world["n"], stage_version(c)
        injected = 0      # version bumps by the second client during this delivery (not the handler's)
        a_seen, m_seen = m.attempts, m.max_attempts
        c["ops"].append(op)
        try:
            if op == "l" and (rid + step) % 2 == 0:
                # the worker process dies right after the handler's FIRST durable commit (whatever the handler, the
                # processor's own mark and the ack would have done after it is lost), then restarts on the same file
                outcome, ncommits = env.kill_after(m, 1)
                if outcome != "killed" or ncommits != 1:
                    c["obs"].append(f"kill-not-reached:{outcome}:{ncommits}")
                    continue
                c["stale"].append(rid)
            elif op == "l":
                # the handler runs and commits; the worker dies before the processor's mark and before the ack
                env.processor._handlers[type(m)].handle(m)
                c["stale"].append(rid)
            elif op == "h" and scn.get("pc", 0.0) and conc_budget[0] > 0 and (rid * 7 + step) % 100 < scn["pc"] * 100:
                # a second client commits a write to the same stage row inside the handler's read-then-commit window:
                # the handler's optimistic commit conflicts and must be retried ON FRESH DATA, keeping what this execution saved
                conc_budget[0] -= 1
                _CONC_LEFT[0] -= 1
                injected = env.handle_with_concurrent_writer(m, scn.get("conc_k") or (1 + (rid + step) % 3), c["stage"])
                if injected:
                    ctx_tags.add("concurrent-writer")
            elif op == "h" and (rid * 3 + step) % 4 == 1:
                # another worker's recovery sweep runs WHILE the task body executes (its RunTask is claimed and in flight,
                # whatever attempt it is - the last one included): the sweep must not re-queue the task
                swept = []

                def sweep_now(_swept=swept):
                    from stabilize import SqliteQueue, SqliteWorkflowStore
                    from stabilize.recovery import WorkflowRecovery

                    st2 = SqliteWorkflowStore(env.url, create_tables=False)
                    q2 = SqliteQueue(env.url, lock_duration=timedelta(hours=1), max_attempts=env.queue.max_attempts)
                    _swept.append(WorkflowRecovery(store=st2, queue=q2).recover_pending_workflows())

                world["body_hook"] = sweep_now
                try:
                    env.handle_and_ack(m)
                finally:
                    world.pop("body_hook", None)
                if swept:
                    ctx_tags.add("sweep-during-task-body")
            else:
                env.handle_and_ack(m)
        except Exception as e:
            env.queue.reschedule(m, timedelta(0))
            c["obs"].append(f"handler-error:{type(e).__name__}")
            continue
        if world["n"] != n0 + 1:
            c["obs"].append(f"executions+{world['n'] - n0}")
            continue
        act = world["acts"][-1]
        saw = world["seen"][-1]
        dv = min(stage_version(c) - v0 - injected, 1)
        cur = stage_ctx(c)
        res = "lost"
        for r2 in env.rows():
            if r2["id"] <= rid:
                continue
            p2 = payload(r2)
            if p2.get("task_id") != c["flaky"]:
                continue
            if r2["message_type"] == "RunTask":
                res = f"{'poll' if act[0] == 'R' else 'retry'}:{r2['attempts']}/{r2['max_attempts']}"
                c["round_trips"] += 1
            elif r2["message_type"] == "CompleteTask":
                res = f"done:{p2.get('status')}"
                c["done"] = p2.get("status")
        c["obs"].append(f"E{n0 + 1} a={a_seen} m={m_seen} see={show_ctx(saw)} {res} v{dv} c={show_ctx(cur)}" + (" noack" if op == "l" else ""))
        if act[0] == "R" and not res.startswith("poll:"):
            violations.append((f"task answered RUNNING at execution {n0 + 1} but no RunTask was re-queued ({res})", SIG_POLL))
        # cut-off so that an unbounded chain terminates the scenario
        if world["n"] > limit_of(w) + len(w["script"]) + 6:
            c["cut"] = True

    # ---- final state ----------------------------------------------------------------------------
    lines = []
    for i, c in enumerate(chains):
        w = c["spec"]
        world = WORLD.pop(c["cid"])
        wf = env.store.retrieve(c["wf"])
        st = wf.stages[0]
        fin = f"{st.tasks[w['pos']].status.name}/{st.status.name}/{wf.status.name}"
        live = "-"
        nstale = 0
        for r in env.rows():
            if r["id"] in c["stale"]:
                nstale += 1
            elif r["message_type"] == "RunTask" and payload(r).get("task_id") == c["flaky"]:
                live = f"{r['attempts']}/{r['max_attempts']}"
        end = f"end execs={world['n']} done={c['done']} row={live} stale={nstale} c={show_ctx(tracked(st.context))} fin={fin}"
        impl = "|".join(c["obs"] + [end])
        lines.append((i, driver_line(scn, w, c["ops"]), impl, c["round_trips"]))
        if verbose:
            print(f"  wf{i}: {driver_line(scn, w, c['ops'])}")
            for o in c["obs"] + [end]:
                print(f"     {o}")
        # ---- monitors: the property as stated, no model involved --------------------------------
        L = limit_of(w)
        run_len = best = 0
        for a in world["acts"]:
            run_len = run_len + 1 if a[0] == "F" else 0
            best = max(best, run_len)
        if best > L:
            violations.append((f"a task raising TransientError was executed {best} times in a row (max_attempts = {L}): "
                               f"retries are not bounded", SIG_UNBOUNDED))
        exp = {int(k): v for k, v in w["ctx"].items()}
        for j, (a, saw) in enumerate(zip(world["acts"], world["seen"])):
            if saw != exp:
                violations.append((f"execution {j + 1} saw context {show_ctx(saw)}, expected {show_ctx(exp)} "
                                   f"(initial context plus the updates of executions 1..{j})", SIG_PROGRESS))
                break
            exp = dict(exp)
            exp.update(parse_kv(a[1:]))
        if best == L and world["acts"] and world["acts"][-1][0] == "F" and run_len == L and not c["cut"] \
                and scn["qmax"] >= L and "x" not in c["ops"] and not c["stale"] and fin != "TERMINAL/TERMINAL/TERMINAL":
            violations.append((f"after {L} transient failures the task/stage/workflow are {fin}, expected TERMINAL", SIG_NOT_TERMINAL))
    # leftovers of cut-off / stuck chains must not leak into the next scenario
    env.ro.execute("DELETE FROM queue_messages")
    return {"lines": lines, "violations": violations, "choices": choices_out, "tags": sorted(ctx_tags)}


# ------------------------------------------------------------------------------------------------
# generators
# ------------------------------------------------------------------------------------------------

def upd_for(i: int, style: int) -> str:
    if style == 0:
        return ""
    if style == 1:
        return f"1:{i + 1}"
    return f"1:{i + 1},{2 + i % 3}:{7 * i - 3}"


def grid(ctx, rng) -> list[dict]:
    out = []
    L = limit_of()
    n = 0
    for k in range(0, L + 4):
        for style in (0, 1, 2):
            shapes = [(T, p) for T in (1, 2, 3) for p in range(T)] if ctx.thorough else [None]
            for shape in shapes:
                T, p = shape if shape else (1 + n % 3, (n // 3) % (1 + n % 3))
                for mode in (("fifo", "shuffle") if ctx.thorough else (("fifo", "shuffle")[n % 2],)):
                    n += 1
                    w = {"T": T, "pos": p, "ctx": ({"0": 4} if style else {}), "script": [f"F{upd_for(i, style)}" for i in range(k)],
                         "dflt": "S", "bk": (None, 0, 1, None)[(n + k) % 4]}
                    wfs = [w]
                    if mode == "shuffle":
                        # a second workflow in the same queue so that the order is a real choice
                        wfs.append({"T": 1 + (n % 2), "pos": 0, "ctx": {}, "script": [f"F{upd_for(i, 1)}" for i in range(n % 4)],
                                    "dflt": "S"})
                    out.append({"qmax": L, "mode": mode, "wfs": wfs, "px": 0.0, "pl": (0.15 if n % 4 == 0 else 0.0), "tag": f"grid-k{k}"})
    # a second client writes the stage row inside the handler's read-then-commit window, at the 1st / 2nd / 3rd read,
    # while the task answers RUNNING with context (poll) or fails transiently with saved progress
    for kk in (1, 2, 3):
        for script in (["R1:1", "R2:2", "S"], ["F1:1", "F2:2", "S"]):
            out.append({"qmax": L, "mode": "fifo", "wfs": [{"T": 1, "pos": 0, "ctx": {"0": 4}, "script": list(script), "dflt": "S"}],
                        "px": 0.0, "pl": 0.0, "pc": 1.0, "conc_k": kk, "max_conc": 2, "tag": "grid-concurrent-writer"})
    return out


def random_scn(rng) -> dict:
    wfs = []
    for _ in range(rng.choice([1, 1, 2, 3])):
        T = rng.randint(1, 3)
        script = []
        for i in range(rng.randint(0, 14)):
            kind = rng.choice("FFFFFRRS" if i < 10 else "FFRSP")
            upd = "" if rng.random() < 0.35 else ",".join(f"{k}:{rng.randint(-9, 9)}" for k in sorted(rng.sample(range(6), rng.randint(1, 3))))
            script.append("P" if kind == "P" else kind + upd)
            if kind in "SP":
                break
        dflt = rng.choice(["F", "F1:1", "S", "S2:2", "P"])
        wfs.append({"T": T, "pos": rng.randrange(T), "ctx": {str(k): rng.randint(-5, 5) for k in rng.sample(range(6), rng.randint(0, 3))},
                    "script": script, "dflt": dflt, "bk": rng.choice([None, None, 0, 0, 1])})
    return {"qmax": rng.choice([10, 10, 10, 12, 3, 5]), "mode": rng.choice(["fifo", "shuffle"]), "wfs": wfs,
            "px": rng.choice([0.0, 0.0, 0.15, 0.3]), "pl": rng.choice([0.0, 0.15, 0.3]),
            "pc": rng.choice([0.0, 0.0, 0.3, 0.6]), "tag": "random"}


# ------------------------------------------------------------------------------------------------
# check interface
# ------------------------------------------------------------------------------------------------

def _envs(workdir: Path, name: str):
    cache: dict[int, ProcEnv] = {}

    def get(qmax: int) -> ProcEnv:
        if qmax not in cache:
            cache[qmax] = ProcEnv(workdir, f"{name}-q{qmax}", tasks=make_tasks(), qmax=qmax, reset=not cache)
        return cache[qmax]

    return cache, get


def _run_batch(ctx, scns: list[dict], suite: str, rng) -> None:
    workdir = core.scratch_dir()
    cache, get = _envs(workdir, suite)
    inputs, lines, impl = [], [], []
    try:
        for scn in scns:
            res = run_scenario(get(scn["qmax"]), scn, rng)
            canon = {k: scn[k] for k in ("qmax", "mode", "wfs")}
            canon["choices"] = res["choices"]
            ctx.count(canon, nontrivial=any(rt > 0 for *_, rt in res["lines"]))
            ctx.tag(scn.get("tag", "?").split("-k")[0], f"mode-{scn['mode']}", *res.get("tags", []),
                    *{f"backoff-{ {None: 'engine-default', 0: 'zero', 1: '1ms'}[w.get('bk')] }" for w in scn["wfs"]})
            for i, dl, il, _rt in res["lines"]:
                inputs.append({"scenario": canon, "wf": i})
                lines.append(dl)
                impl.append(il)
                for tok in ("retry:", "poll:", "done:TERMINAL", "done:SUCCEEDED", "stuck", "x:", "noack", "dedup"):
                    if tok in il:
                        ctx.tag("obs-" + tok.strip(":"))
            if res["lines"]:
                ctx.sample({"suite": suite, "driver_line": res["lines"][0][1], "impl": res["lines"][0][2]})
            for what, sig in res["violations"]:
                ctx.violation(what, sig, dict(canon))
    finally:
        for e in cache.values():
            e.close()
        rmtree(workdir)
    ctx.correspond(suite, inputs, lines, impl)


def _corpus() -> list[dict]:
    d = core.VERIF / "replays" / "C14"
    out = []
    if d.is_dir():
        for f in sorted(d.glob("*.json")):
            body = json.loads(f.read_text())
            scn = body.get("replay", body)
            scn.setdefault("tag", "corpus")
            out.append(scn)
    return out


def run(ctx) -> None:
    import logging

    logging.disable(logging.CRITICAL)
    rng = ctx.rng
    _CONC_LEFT[0] = ctx.n(18, 90)
    corpus = _corpus()
    if corpus:
        _run_batch(ctx, corpus, "retry-corpus", rng)
    _run_batch(ctx, grid(ctx, rng), "retry-grid", rng)
    _run_batch(ctx, [random_scn(rng) for _ in range(ctx.n(400, 4000))], "retry-random", rng)


def search(ctx) -> None:
    import logging

    logging.disable(logging.CRITICAL)
    rng = ctx.rng
    _CONC_LEFT[0] = ctx.n(30, 120)
    scns = []
    for style in (0, 1):
        scns.append({"qmax": limit_of(), "mode": "fifo", "wfs": [{"T": 1, "pos": 0, "ctx": {}, "script": [], "dflt": "F" + upd_for(0, style)}],
                     "px": 0.0, "tag": "search"})
    scns += [random_scn(rng) for _ in range(ctx.n(300, 1500))]
    _run_batch(ctx, scns, "retry-search", rng)


def replay(ctx, body) -> int:
    import random

    import logging

    logging.disable(logging.CRITICAL)
    scn = body.get("replay", body)
    workdir = core.scratch_dir()
    env = ProcEnv(workdir, "replay", tasks=make_tasks(), qmax=scn["qmax"])
    try:
        print(f"replaying C14 scenario: qmax={scn['qmax']} mode={scn['mode']} workflows={len(scn['wfs'])}")
        res = run_scenario(env, scn, random.Random(0), verbose=True)
        model = ctx.lean([dl for _, dl, _, _ in res["lines"]])
        if model is not None:
            for (i, _dl, il, _), ml in zip(res["lines"], model):
                if il != ml:
                    a, b = il.split("|"), ml.split("|")
                    k = next((j for j in range(min(len(a), len(b))) if a[j] != b[j]), min(len(a), len(b)))
                    print(f"  wf{i}: first difference at op {k + 1}: impl `{a[k] if k < len(a) else '<end>'}` model `{b[k] if k < len(b) else '<end>'}`")
        for what, sig in res["violations"]:
            print(f"FAILS [{sig}]: {what}")
        return 1 if res["violations"] else 0
    finally:
        env.close()
        rmtree(workdir)
