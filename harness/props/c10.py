"""C10 — recovery sweeps: harmless on healthy workflows, idempotent after a crash (engine-level: Mode-A trace differential + monitors; see harness/engine_suites.py)."""
from __future__ import annotations

from harness import engine_suites, synth_suites

RULE = ("random workflows (1-5 stages, every join type, scripted task outcomes incl. polling / transient / jump / suspend) x "
        "delivery schedules (fifo | random order | random + redelivery of unacknowledged messages | arbitrary incl. early re-polls), "
        "one or two recovery sweeps injected before delivery step j of the FIFO run (quick: 4 sampled j, thorough: every j); every op is applied to the REAL engine and the Lean model, the state line after every op is compared; "
        "a trace is distinct by (spec, op list) and non-trivial when it has >= 8 ops and a non-FIFO choice or an injected op; "
        "PLUS the synthetic-stage family (harness/synth_suites.py, IMPLEMENTATION-ONLY: monitors on real-engine traces, no model line): workflows of 1-3 top-level stages (single | chain | two parallel roots | fan-in) with 1-2 pre-declared STAGE_BEFORE / STAGE_AFTER children per chosen parent, stored through the real store; per workflow the healthy in-order run, then: one or two sweeps before delivery step j (quick: 5 sampled j, thorough: every j); a sweep by another worker right after the k-th commit of delivery j (op i<row>.<k>; quick 5 sampled (j,k), thorough every j x k in 0..2); after a kill at commit k of delivery j one sweep vs two sweeps in a row; judged by smon_c10 (the oracle of mon_c10 with children) and the transition-table monitor")
ASSUMPTIONS = ["delays are abstracted: budget-respecting schedules deliver a delayed message only when no immediate one is pending",
               "per-workflow circuit breaker disabled in the harness (volatile state outside the model)",
               "synthetic-stage family: for workflows with a halting task result the sweep's no-op duplicates shift the in-order schedule like any reordering, so statuses / counts are not compared there (DESIGN section 6, order-dependent references); checked instead: the run still ends and (kill-free traces) no task with a recorded result executes again",
               "synthetic-stage family: a signature adjudicated as a real defect and awaiting a decision (synth_suites.PENDING) is evaluated on every run but REPORTED only with VERIF_SYNTH_PENDING=1"]
TRUSTED_BASE = ["Engine model (lean/Stab/Model/Engine.lean) is hand-written; tied to handlers/* by the trace differential on generated schedules only",
                "not modelled: synthetic stages (and ContinueParentStage), mutex/deferred choice, OR-split conditions, pause/resume, timeouts, PostgreSQL backend",
                "synthetic before/after stages are covered by an IMPLEMENTATION-ONLY family (harness/synth_suites.py): the property is stated by monitors on traces of the real engine; "
                "no theorem and no model correspondence speaks about them; trusted there: the generator, the monitors, the symbolic minimiser / replayer (schedule by message code, then in-order drain), the queue's dead-letter rule as replayed by the harness"]


def run(ctx) -> None:
    engine_suites.run_for(ctx, "C10")
    # synthetic before/after stages: implementation-only family (monitors on real-engine traces, no model line)
    synth_suites.run_for(ctx, "C10")


def search(ctx) -> None:
    engine_suites.search_for(ctx, "C10")


def replay(ctx, body) -> int:
    if synth_suites.is_synth_replay(body):
        return synth_suites.replay(ctx, body)
    return engine_suites.replay(ctx, body)
