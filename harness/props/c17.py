"""C17 — after a cancel is accepted no further task starts and the workflow ends (engine-level: Mode-A trace differential + monitors; see harness/engine_suites.py)."""
from __future__ import annotations

from harness import conc_suite, engine_pairs, engine_suites, synth_suites

RULE = ("random workflows (1-5 stages, every join type, scripted task outcomes incl. polling / transient / jump / suspend) x "
        "delivery schedules (fifo | random order | random + redelivery of unacknowledged messages | arbitrary incl. early re-polls), "
        "a cancel request injected before a random delivery step; every op is applied to the REAL engine and the Lean model, the state line after every op is compared; "
        "a trace is distinct by (spec, op list) and non-trivial when it has >= 8 ops and a non-FIFO choice or an injected op;"
        " PLUS the synthetic-stage family (harness/synth_suites.py, IMPLEMENTATION-ONLY: monitors on real-engine traces, no model line): workflows of 1-3 top-level stages (single | chain | two parallel roots | fan-in), some with 1-2 pre-declared STAGE_BEFORE and / or STAGE_AFTER children (children 1 task, parents 0-2; task results succeed | terminal | fail-continue | poll then succeed | suspend), stored through the real store, driven by the same schedule modes with ALWAYS one cancel: before a random step, or (45 %) directed into the window in which a parent waits for a planned, not yet started child (StartStage(child) queued), the CancelWorkflow then usually delivered at once; kills inside CancelWorkflow deliveries; judged by smon_c17 and the transition-table monitor;"
        " PLUS the workflow-row engine pairs (harness/engine_pairs.py kind `wfrow`, Mode B, IMPLEMENTATION-ONLY): i -> d either fresh (StartWorkflow pending) or with every "
        "stage done (CompleteWorkflow pending) plus a pushed CancelWorkflow; StartWorkflow / CompleteWorkflow x CancelWorkflow in both directions, B's whole delivery at EVERY "
        "legal DB-call point of A (in particular between the status-writing handler's read of the workflow row and its commit), then FIFO drain; judged on the committed "
        "history of the workflow row: once is_canceled = 1 was committed it is 1 at the end and no task execution begins; "
        "PLUS the pause / resume dimension (harness/synth_suites.py, family 'pause', IMPLEMENTATION-ONLY: monitors on real-engine traces, no model line; signatures prefixed pause:): plain workflows (engine_suites.gen_spec w0, sometimes one suspending task) AND synthetic-stage ones; operator ops p = store.pause (only while the workflow is RUNNING), u = Orchestrator.unpause, r = store.resume injected at random steps into fifo | random | redelivery | starve schedules, combined with a cancel (often issued together with the un-pause, or while paused), signals and a second pause; every third unit is the directed 'parked' member (2-3 parallel stages all parked PAUSED, then un-pause or cancel + un-pause, random order); in 20 % of the runs nobody un-pauses, otherwise the operator keeps at it until nothing is paused (settle_pause: unpause, drain, store.resume if the row is still PAUSED with nothing parked); a cancel in every run; judged by smon_c17 (cancel accepted while paused: no execution afterwards, workflow final - CANCELED unless a failure was decided -, every unfinished stage incl. parked ones CANCELED) and the transition-table monitor"
        " PLUS the concurrency-limit / cancel-before-start family (harness/conc_suite.py, IMPLEMENTATION-ONLY, signatures prefixed conc:): 2-4 workflows with one pipeline_config_id, is_limit_concurrent, limit 1 | 2, keep_waiting_pipelines on | off in ONE database and queue, started together or staggered, store.cancel() (the flag only) on some of them BEFORE their start, Orchestrator.cancel at random moments, in-order or random delivery; oracles: drained => every workflow final or BUFFERED while the limit is really used up, never more RUNNING than the limit, a workflow whose cancel flag is set is final once the queue is drained")
ASSUMPTIONS = ["delays are abstracted: budget-respecting schedules deliver a delayed message only when no immediate one is pending",
               "per-workflow circuit breaker disabled in the harness (volatile state outside the model)",
               "pause / resume dimension: 'un-paused' means the operator idiom of the repo's tests and demos (Orchestrator.unpause, then store.resume when the row is still PAUSED with nothing parked), repeated up to three times at quiescence; store.pause is only issued while the workflow row is RUNNING (store.pause() itself writes PAUSED over any status, also a final one: operator misuse, not generated); a message that raises on every delivery is dead-lettered after max_attempts deliveries (real check_and_move_expired) and the first such loss names the cause of what follows (`…@<msg>-dead-lettered:<exception>-while-workflow-<status>`)",
               "synthetic-stage family, 'had not already finished': a parent is in effect finished only if its own tasks are and every child has all task results recorded (or a failure is already decided); a parent whose tasks are done but whose after-stage has not run must end CANCELED; a child that had not started at acceptance must never start and may stay NOT_STARTED (CancelWorkflow fans out to top-level stages only) or end CANCELED; a child RUNNING / SUSPENDED at acceptance must end CANCELED",
               "workflow-row pairs: Mode B granularity (B atomic inside a read / write window of A); 'a cancel has been processed' = a write with is_canceled = 1 was "
               "committed; the raced handlers execute no task, so every task execution recorded after the snapshot began after that commit",
               "synthetic-stage family: the nine defects it found on the unchanged tree (S1-S9) were repaired (F44-F51); its pending gate (synth_suites.PENDING) is empty, every synth: signature is reported"]
TRUSTED_BASE = ["Engine model (lean/Stab/Model/Engine.lean) is hand-written; tied to handlers/* by the trace differential on generated schedules only",
                "not modelled: synthetic stages (and ContinueParentStage), mutex/deferred choice, OR-split conditions, pause/resume, timeouts, PostgreSQL backend",
                "pause / resume (store.pause, PauseTask, Orchestrator.unpause / ResumeStage, store.resume) is covered by an IMPLEMENTATION-ONLY family as well (synth_suites family 'pause'): monitors on real-engine traces, no theorem, no model line",
                "synthetic before/after stages are covered by an IMPLEMENTATION-ONLY family (harness/synth_suites.py): the property is stated by monitors on traces of the real engine; "
                "no theorem and no model correspondence speaks about them; trusted there: the generator, the monitors' reading of the property (ASSUMPTIONS), the queue's dead-letter rule as replayed by the harness (op q = the real check_and_move_expired after max_attempts deliveries)",
                "workflow-row engine pairs: implementation-only monitors on the trigger-recorded history of pipeline_executions and the task ledger; the model-side "
                "counterpart is the Engine model's cancel-flag monotonicity (theorem canceled_monotone), which says nothing about a handler that writes the flag from a "
                "stale in-memory Workflow — that is what the pairs exercise"]


def run(ctx) -> None:
    pairs = engine_pairs.start(ctx, "C17")     # workflow-row pairs run in worker processes while the trace suites run here
    try:
        engine_suites.run_for(ctx, "C17")
        # synthetic before/after stages: implementation-only family (monitors on real-engine traces, no model line)
        synth_suites.run_for(ctx, "C17")
        # pause / resume dimension (plain and synthetic-stage workflows): implementation-only as well
        synth_suites.run_for(ctx, "C17", family="pause")
        # concurrency limit / purge / cancel flag set before the start (store.cancel): implementation-only, several workflows
        conc_suite.run_for(ctx, "C17", kinds=("conc", "region", "flag"))
    except BaseException:
        pairs["pool"].terminate()
        raise
    engine_pairs.finish(ctx, pairs)


def search(ctx) -> None:
    engine_suites.search_for(ctx, "C17")


def replay(ctx, body) -> int:
    rp = body.get("replay") or body
    if isinstance(rp, dict) and "enginepair" in rp:
        return engine_pairs.replay(ctx, body, "C17")
    if conc_suite.is_replay(body):
        return conc_suite.replay(ctx, body)
    if synth_suites.is_synth_replay(body):
        return synth_suites.replay(ctx, body)
    return engine_suites.replay(ctx, body)
