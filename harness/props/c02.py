"""C02 — redelivery and reordering never change the result or repeat finished work (engine-level: Mode-A trace differential + monitors; see harness/engine_suites.py)."""
from __future__ import annotations

from harness import engine_suites, synth_suites

RULE = ("random workflows (1-5 stages, every join type, scripted task outcomes incl. polling / transient / jump / suspend) x "
        "delivery schedules (fifo | random order | random + redelivery of unacknowledged messages | arbitrary incl. early re-polls), "
        "every op is applied to the REAL engine and the Lean model, the state line after every op is compared; "
        "a trace is distinct by (spec, op list) and non-trivial when it has >= 8 ops and a non-FIFO choice or an injected op; "
        "PLUS the synthetic-stage family (harness/synth_suites.py, IMPLEMENTATION-ONLY: monitors on real-engine traces, no model line): workflows of 1-3 top-level stages (single | chain | two parallel roots | fan-in) with 1-2 pre-declared STAGE_BEFORE / STAGE_AFTER children per chosen parent, stored through the real store; per workflow (no suspending task) the in-order run and two crash-free schedules (random order | redelivery of unacknowledged messages | one row starved | a second worker delivering other messages while a task executes); judged by smon_c02_reexec (a task with a recorded result never executes again, children included) and smon_c02_outcome (workflow / every stage / every task status and per-task execution counts equal the in-order run's)")
ASSUMPTIONS = ["delays are abstracted: budget-respecting schedules deliver a delayed message only when no immediate one is pending",
               "per-workflow circuit breaker disabled in the harness (volatile state outside the model)",
               "synthetic-stage family: workflows with a halting task result (a failing branch racing its siblings) and reference runs that themselves halted are excluded from the outcome comparison as in mon_c02_outcome (DESIGN section 6); the re-execution clause is checked on all of them; only AND joins occur",
               "synthetic-stage family: a signature adjudicated as a real defect and awaiting a decision (synth_suites.PENDING) is evaluated on every run but REPORTED only with VERIF_SYNTH_PENDING=1"]
TRUSTED_BASE = ["Engine model (lean/Stab/Model/Engine.lean) is hand-written; tied to handlers/* by the trace differential on generated schedules only",
                "not modelled: synthetic stages (and ContinueParentStage), mutex/deferred choice, OR-split conditions, pause/resume, timeouts, PostgreSQL backend",
                "synthetic before/after stages are covered by an IMPLEMENTATION-ONLY family (harness/synth_suites.py): the property is stated by monitors on traces of the real engine; "
                "no theorem and no model correspondence speaks about them; trusted there: the generator, the monitors, the symbolic minimiser / replayer (schedule by message code, then in-order drain), the queue's dead-letter rule as replayed by the harness"]


def run(ctx) -> None:
    engine_suites.run_for(ctx, "C02")
    # synthetic before/after stages: implementation-only family (monitors on real-engine traces, no model line)
    synth_suites.run_for(ctx, "C02")


def search(ctx) -> None:
    engine_suites.search_for(ctx, "C02")


def replay(ctx, body) -> int:
    if synth_suites.is_synth_replay(body):
        return synth_suites.replay(ctx, body)
    return engine_suites.replay(ctx, body)
