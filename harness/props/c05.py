"""C05 — when the engine goes quiet every workflow is finished or explicitly waiting (engine-level: Mode-A trace differential + monitors; see harness/engine_suites.py)."""
from __future__ import annotations

from harness import conc_suite, dstatus_suite, engine_suites, synth_suites

RULE = ("random workflows (1-5 stages, every join type, scripted task outcomes incl. polling / transient / jump / suspend) x "
        "delivery schedules (fifo | random order | random + redelivery of unacknowledged messages | arbitrary incl. early re-polls), "
        "every op is applied to the REAL engine and the Lean model, the state line after every op is compared; "
        "a trace is distinct by (spec, op list) and non-trivial when it has >= 8 ops and a non-FIFO choice or an injected op;"
        " PLUS the synthetic-stage family (harness/synth_suites.py, IMPLEMENTATION-ONLY: monitors on real-engine traces, no model line): workflows of 1-3 top-level stages (single | chain | two parallel roots | fan-in), some with 1-2 pre-declared STAGE_BEFORE and / or STAGE_AFTER children (children 1 task, parents 0-2; task results succeed | terminal | fail-continue | poll then succeed | suspend), stored through the real store, driven by fifo | random | redelivery | starve | arbitrary schedules, cancel before a random step or inside the parent-waits-for-child window, signals for suspended stages, recovery sweeps injected into healthy runs, and (every fourth unit) kill after k commits + restart + sweep(s) + late redelivery + drain; judged by smon_c05 (children included) and the transition-table monitor; "
        "PLUS the pause / resume dimension (harness/synth_suites.py, family 'pause', IMPLEMENTATION-ONLY: monitors on real-engine traces, no model line; signatures prefixed pause:): plain workflows (engine_suites.gen_spec w0, sometimes one suspending task) AND synthetic-stage ones; operator ops p = store.pause (only while the workflow is RUNNING), u = Orchestrator.unpause, r = store.resume injected at random steps into fifo | random | redelivery | starve schedules, combined with a cancel (often issued together with the un-pause, or while paused), signals and a second pause; every third unit is the directed 'parked' member (2-3 parallel stages all parked PAUSED, then un-pause or cancel + un-pause, random order); in 20 % of the runs nobody un-pauses, otherwise the operator keeps at it until nothing is paused (settle_pause: unpause, drain, store.resume if the row is still PAUSED with nothing parked); judged by smon_c05 (after un-pause + drain the workflow is final or explicitly waiting; a workflow / stage still PAUSED because nobody un-paused it counts as explicitly waiting; still PAUSED after the un-pause idiom = still-paused-after-unpause) and the transition-table monitor; "
        "PLUS the operator restart dimension (harness/synth_suites.py, family 'restart', IMPLEMENTATION-ONLY: monitors on real-engine traces, no model line; signatures prefixed restart:): plain (gen_spec w0 / w1, no jumps) and synthetic-stage workflows are run to the drain (70 %) or for k random steps, then op R<i> = Orchestrator.restart (-> RestartStage, code RR.<s>) 1-2 times on a random COMPLETED top-level stage (15 %: on a stage that is not completed - must be ignored), sometimes a cancel before / after (restart inside a canceled workflow must be refused), fifo | random drain; judged by smon_c05 (drained => final or explicitly waiting; SUCCEEDED => every top-level stage continuable; no RUNNING stage in a finished workflow)"
        " PLUS the stage-status rule in isolation (harness/dstatus_suite.py): the real StageExecution.determine_status() of a stage without synthetic children against the model's determineStatus (driver form `engine dstatus`) on EVERY task-status list of length <= 3 (thorough: 4) over the 12 statuses x continuePipelineOnFailure x failPipeline x current status, plus random lists of 4-12 mostly-finished tasks; oracles restate the theorems stage_succeeded_means_every_task_ok, stage_complete_means_no_open_task_or_a_halted_one, taskless_stage_status on the code"
        " PLUS the concurrency-limit / cancel-before-start family (harness/conc_suite.py, IMPLEMENTATION-ONLY, signatures prefixed conc:): 2-4 workflows with one pipeline_config_id, is_limit_concurrent, limit 1 | 2, keep_waiting_pipelines on | off in ONE database and queue, started together or staggered, store.cancel() (the flag only) on some of them BEFORE their start, Orchestrator.cancel at random moments, in-order or random delivery; oracles: drained => every workflow final or BUFFERED while the limit is really used up, never more RUNNING than the limit, a workflow whose cancel flag is set is final once the queue is drained")
ASSUMPTIONS = ["delays are abstracted: budget-respecting schedules deliver a delayed message only when no immediate one is pending",
               "per-workflow circuit breaker disabled in the harness (volatile state outside the model)",
               "restart dimension: only top-level stages are restarted; a signature adjudicated as a real defect and awaiting a decision (synth_suites.PENDING: R1 restart of a parent does not re-arm its synthetic children, R2 a restarted stage whose StartStage is dropped by the re-finalised workflow) is evaluated but REPORTED only with VERIF_SYNTH_PENDING=1",
               "pause / resume dimension: 'un-paused' means the operator idiom of the repo's tests and demos (Orchestrator.unpause, then store.resume when the row is still PAUSED with nothing parked), repeated up to three times at quiescence; store.pause is only issued while the workflow row is RUNNING (store.pause() itself writes PAUSED over any status, also a final one: operator misuse, not generated); a message that raises on every delivery is dead-lettered after max_attempts deliveries (real check_and_move_expired) and the first such loss names the cause of what follows (`…@<msg>-dead-lettered:<exception>-while-workflow-<status>`)",
               "synthetic-stage family: 'explicitly waiting' = some stage, child included, SUSPENDED / PAUSED; 'every top-level stage continuable' is checked on top-level stages, 'no stage left running' on children too; a terminal failure absorbed by continuePipelineOnFailure of the stage or its parent does not have to fail the workflow",
               "synthetic-stage family: the nine defects it found on the unchanged tree (S1-S9) were repaired (F44-F51); its pending gate (synth_suites.PENDING) is empty, every synth: signature is reported"]
TRUSTED_BASE = ["Engine model (lean/Stab/Model/Engine.lean) is hand-written; tied to handlers/* by the trace differential on generated schedules only",
                "not modelled: synthetic stages (and ContinueParentStage), mutex/deferred choice, OR-split conditions, pause/resume, timeouts, PostgreSQL backend",
                "pause / resume (store.pause, PauseTask, Orchestrator.unpause / ResumeStage, store.resume) is covered by an IMPLEMENTATION-ONLY family as well (synth_suites family 'pause'): monitors on real-engine traces, no theorem, no model line",
                "synthetic before/after stages are covered by an IMPLEMENTATION-ONLY family (harness/synth_suites.py): the property is stated by monitors on traces of the real engine; "
                "no theorem and no model correspondence speaks about them; trusted there: the generator, the monitors' reading of the property (ASSUMPTIONS), the queue's dead-letter rule as replayed by the harness (op q = the real check_and_move_expired after max_attempts deliveries)"]


def run(ctx) -> None:
    engine_suites.run_for(ctx, "C05")
    # the stage-status rule alone: real determine_status vs the model on every short task list + the theorems' oracles
    dstatus_suite.run_for(ctx, "C05")
    # synthetic before/after stages: implementation-only family (monitors on real-engine traces, no model line)
    synth_suites.run_for(ctx, "C05")
    # pause / resume dimension (plain and synthetic-stage workflows): implementation-only as well
    synth_suites.run_for(ctx, "C05", family="pause")
    # operator restart dimension: implementation-only as well
    synth_suites.run_for(ctx, "C05", family="restart")
    # concurrency limit (BUFFERED / StartWaitingWorkflows / purge) and cancel-before-start: implementation-only, several workflows
    conc_suite.run_for(ctx, "C05")


def search(ctx) -> None:
    engine_suites.search_for(ctx, "C05")


def replay(ctx, body) -> int:
    if dstatus_suite.is_replay(body):
        return dstatus_suite.replay(ctx, body, "C05")
    if conc_suite.is_replay(body):
        return conc_suite.replay(ctx, body)
    if synth_suites.is_synth_replay(body):
        return synth_suites.replay(ctx, body)
    return engine_suites.replay(ctx, body)
