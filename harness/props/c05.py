"""C05 — when the engine goes quiet every workflow is finished or explicitly waiting (engine-level: Mode-A trace differential + monitors; see harness/engine_suites.py)."""
from __future__ import annotations

from harness import engine_suites, synth_suites

RULE = ("random workflows (1-5 stages, every join type, scripted task outcomes incl. polling / transient / jump / suspend) x "
        "delivery schedules (fifo | random order | random + redelivery of unacknowledged messages | arbitrary incl. early re-polls), "
        "every op is applied to the REAL engine and the Lean model, the state line after every op is compared; "
        "a trace is distinct by (spec, op list) and non-trivial when it has >= 8 ops and a non-FIFO choice or an injected op")
ASSUMPTIONS = ["delays are abstracted: budget-respecting schedules deliver a delayed message only when no immediate one is pending",
               "per-workflow circuit breaker disabled in the harness (volatile state outside the model)"]
TRUSTED_BASE = ["Engine model (lean/Stab/Model/Engine.lean) is hand-written; tied to handlers/* by the trace differential on generated schedules only",
                "not modelled: synthetic stages, mutex/deferred choice, OR-split conditions, pause/resume, timeouts, PostgreSQL backend"]


def run(ctx) -> None:
    engine_suites.run_for(ctx, "C05")
    # synthetic before/after stages: implementation-only family (monitors on real-engine traces, no model line)
    synth_suites.run_for(ctx, "C05")


def search(ctx) -> None:
    engine_suites.search_for(ctx, "C05")


def replay(ctx, body) -> int:
    if synth_suites.is_synth_replay(body):
        return synth_suites.replay(ctx, body)
    return engine_suites.replay(ctx, body)
