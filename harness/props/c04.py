"""C04 — a stage starts exactly once even when workers race (Mode B: statement-level interleavings of the real engine)."""
from __future__ import annotations

import json
import logging
import os
import re
import shutil
import time
from dataclasses import asdict, dataclass, field
from pathlib import Path
from typing import Any

RULE = ("fan-in workflows u1..un -> j(join) -> d, n in {2,3}, every join type (AND, OR, DISCRIMINATOR, N_OF_M k-of-n, MULTI_MERGE), j with and "
        "without predefined tasks, optionally a pending persistent SignalStage(j); the real engine is brought to every state reachable by "
        "sequentially delivering the pending CompleteStage(u_i)/StartStage(j)/SignalStage(j) messages (prefix), then worker A handles one pending "
        "message and worker B handles another one (or the same row again: duplicate delivery) injected at EVERY legal DB-call point of A "
        "(legal = A holds no SQLite lock); quick: the important pairs (StartStage x StartStage, StartStage x CompleteStage, CompleteStage x CompleteStage, "
        "StartStage x SignalStage, duplicates) plus a seeded sample with a third worker C nested at every legal point of B; thorough: all pairs, and the "
        "nested third worker for DISCRIMINATOR / N_OF_M with 3 branches, the signal workflow and the no-predefined-tasks (zombie-capable) workflow; "
        "family alternation (A1 B1 A2 B2 [A3], not a nesting): for StartStage(j) x StartStage(j) (two rows or the same row twice), StartStage(j) x "
        "CompleteStage(u) and CompleteStage(u) x StartStage(j), B injected at A's legal point k yields back at ITS legal point j, A runs on to its legal "
        "point m (or to its end), then B resumes; schedules that differ only in the order of adjacent plain reads are the same trace, so (k, j, m) is "
        "enumerated up to that equivalence; class core (B has read everything and pauses at its first write statement, A commits 1..n whole write "
        "transactions) runs in full in both tiers, the classes p2 (B pauses between two of its reads), p3a (m inside a read block of A) and p3b "
        "(B1 already committed a write) are a seeded sample per (workflow, prefix, pair) in quick and exhaustive (p2, p3a for StartStage x StartStage) "
        "or a larger sample in thorough; "
        "afterwards the queue is drained FIFO. "
        "A schedule is distinct by (workflow, prefix, ops, injection indices, yield points) and non-trivial when B really ran inside A (alternation: "
        "when A performed at least one call between B's yield and B's resumption). "
        "Each schedule is mapped to a ClaimProtocol schedule (one model step per observed row read / CAS transaction; nestings by injection index, "
        "alternations by the global order in which the DB calls were performed, the two orders are cross-checked on every nesting) and the post-race "
        "row state, ghost counters and per-worker outcomes are compared with the Lean model.")
ASSUMPTIONS = [
    "Mode B explores the interleavings SQLite's single-writer locking permits at transaction granularity plus all read/CAS windows: nestings to depth 2 "
    "(B atomically inside a window of A, C inside a window of B) and, for two workers on the StartStage pairs, alternations with ONE yield of B "
    "(A1 B1 A2 B2 A3: four context switches; core class exhaustive, the other classes sampled in the quick tier); it is not every statement-level "
    "interleaving: two or more yields of B, alternations of three workers and alternations of CompleteStage x CompleteStage / SignalStage pairs are "
    "not enumerated (see harness/modeb.py)",
    "the reduction of alternation triples (k, j, m) treats two plain SELECTs outside a transaction of different workers as commuting, and any "
    "INSERT/UPDATE/DELETE (whatever table) as conflicting with everything",
    "poll_one's claim of a row is done by the harness before the handler runs (the two workers already hold their messages); queue polling races are C08",
    "delays are treated as elapsed only when nothing else is deliverable; wait budgets (max_stage_wait_retries=2 here) are not exhausted while work is pending",
    "engine retry bounds (_CLAIM_RETRY_LIMIT, _update_join_tracking max_retries, max_attempts/DLQ) are not reached by <= 2 concurrent foreign writers; "
    "the model retries unboundedly",
]
TRUSTED_BASE = [
    "ClaimProtocol models StartStageHandler._start_if_ready (claim/plan), CompleteStageHandler's RUNNING guard + _update_join_tracking + completion CAS and "
    "SignalStageHandler's persistent buffering at the granularity of row reads and transactions; it is tied to the code by the per-schedule comparison only",
    "the trace abstraction in harness/props/c04.py (which DB call completes which model step), and for alternations modeb's global call order "
    "(Call.g, assigned under the baton right before the call is performed; only one worker thread runs at any time)",
    "other handlers reached during the drain (StartTask, RunTask, CompleteTask, CompleteWorkflow) are exercised by the monitors only",
]

FIX = 1      # the code since fix 03375b7 (F6); fix=0 exists only for the legacy witnesses in Props/C04.lean
RUN_STEPS = 16   # model steps that certainly finish a sequentially run prefix worker


@dataclass(frozen=True)
class Wf:
    n: int
    join: str
    th: int = 0
    pre: bool = True
    signal: bool = False

    def key(self) -> str:
        return f"{self.join}{self.th or ''}-n{self.n}-{'pre' if self.pre else 'gen'}{'-sig' if self.signal else ''}"


def workflows(thorough: bool) -> list[Wf]:
    ws = [Wf(2, "AND"), Wf(2, "DISCRIMINATOR"), Wf(2, "N_OF_M", 1), Wf(2, "OR"), Wf(2, "MULTI_MERGE"),
          Wf(2, "AND", signal=True), Wf(3, "DISCRIMINATOR"), Wf(3, "N_OF_M", 2), Wf(2, "AND", pre=False), Wf(2, "DISCRIMINATOR", pre=False)]
    if thorough:
        ws += [Wf(2, "N_OF_M", 2), Wf(3, "AND"), Wf(3, "OR"), Wf(3, "MULTI_MERGE"), Wf(3, "N_OF_M", 1), Wf(3, "N_OF_M", 3),
               Wf(2, "DISCRIMINATOR", signal=True), Wf(3, "DISCRIMINATOR", pre=False), Wf(2, "MULTI_MERGE", pre=False)]
    return ws


# --------------------------------------------------------------------------------------
# trace abstraction: which DB call completes which ClaimProtocol step
# --------------------------------------------------------------------------------------

def _norm(sql: str) -> str:
    return " ".join(sql.split())


def call_kind(c, jid: str, uids: dict[str, int]) -> tuple[str, Any]:
    """classify one DB call of a handler: (kind, arg)"""
    if c.kind == "commit":
        return ("commit", None)
    s = _norm(c.sql)
    p = c.params if isinstance(c.params, dict) else {}
    if s.startswith("SELECT 1 FROM processed_messages"):
        return ("msg", None)
    if s.startswith("SELECT * FROM stage_executions WHERE id = :id"):
        if p.get("id") == jid:
            return ("jrow", None)
        if p.get("id") in uids:
            return ("urow", uids[p["id"]])
    if s.startswith("SELECT * FROM task_executions WHERE stage_id = :stage_id") and p.get("stage_id") == jid:
        return ("jtasks", None)
    if "ref_id IN (" in s and s.startswith("SELECT * FROM stage_executions"):
        return ("ups", None)
    if "parent_stage_id = :parent_id" in s:
        return ("syn", None)
    if s.startswith("UPDATE stage_executions"):
        if p.get("id") == jid:
            return ("jupd", c.rowcount)
        if p.get("id") in uids:
            return ("uupd", c.rowcount)
    return ("other", None)


@dataclass
class Abstract:
    kind: str                      # model worker: "S" | "C<i>" | "G" | "dedup"
    marks: list[tuple[int, int]]   # (call idx that completes the step(s), number of model steps)
    cls: str                       # outcome class
    ok: int
    fail: int


def abstract(op, code: str, jid: str, uids: dict[str, int]) -> Abstract:
    """Map the DB-call trace of one handler invocation to ClaimProtocol steps."""
    kinds = [(c.idx, *call_kind(c, jid, uids)) for c in op.calls]
    marks: list[tuple[int, int]] = []
    ok = fail = 0
    if code.startswith("SS("):
        if not any(k in ("jrow",) for _, k, _ in kinds):
            return Abstract("dedup", [], "dedup", 0, 0)
        phase = "start"      # start -> row -> tasks -> decided -> plan -> done ; retry passes re-enter row
        first_pass = True
        pend = None          # pending successful J update: "claim" | "plan"
        cls = "noop"
        for idx, k, a in kinds:
            if k == "msg" and phase == "start":
                marks.append((idx, 1))
            elif k == "jrow" and phase in ("start", "lostclaim", "lostplan"):
                marks.append((idx, 1))
                phase = "row" if phase != "lostplan" else "replanrow"
            elif k == "jtasks" and phase == "row":
                marks.append((idx, 1))
                phase = "tasks" if first_pass else "decided"
            elif k == "jtasks" and phase == "replanrow":
                marks.append((idx, 1))
                phase = "plan"
            elif k == "ups" and phase == "tasks":
                marks.append((idx, 1))
                phase = "decided"
            elif k == "syn" and phase == "decided":
                marks.append((idx, 1))      # zombie check read
                if not first_pass:
                    # retry pass after a lost (re-)claim: the re-read row was still in the expected phase RUNNING and the handler went back
                    # into _start_if_ready (only that path reads the synthetic stages).  Unless a claim follows, it found the stage planned
                    # meanwhile and ignored the message: the model's `ignored`, not `lostClaim` (reachable only by an alternation: the
                    # claimant's plan commit lands between this worker's zombie check and its re-claim)
                    cls = "noop"
            elif k == "jupd" and phase == "decided":
                if a == 0:
                    marks.append((idx, 1)); fail += 1
                    phase, first_pass, cls = "lostclaim", False, "lostClaim"
                else:
                    pend = "claim"
            elif k == "jupd" and phase == "plan":
                if a == 0:
                    marks.append((idx, 1)); fail += 1
                    phase, cls = "lostplan", "lostPlan"
                else:
                    pend = "plan"
            elif k == "commit" and pend == "claim":
                marks.append((idx, 2)); ok += 1     # claim commit + local plan step
                pend, phase, cls = None, "plan", "claimed"
            elif k == "commit" and pend == "plan":
                marks.append((idx, 1)); ok += 1
                pend, phase, cls = None, "done", "planned"
        return Abstract("S", marks, cls, ok, fail)
    if code.startswith("CS("):
        u = int(re.match(r"CS\(u(\d+)\)", code).group(1)) - 1
        if not any(k == "urow" for _, k, _ in kinds):
            return Abstract("dedup", [], "dedup", 0, 0)
        pend = None
        cls = "stale"
        tracking = False
        for idx, k, a in kinds:
            if k == "urow" and a == u:
                marks.append((idx, 2))      # read own row + local decision
                tracking = False
            elif k == "jrow":
                marks.append((idx, 1))      # _update_join_tracking re-read of j
                tracking = True
            elif k == "jupd":
                if a == 0:
                    marks.append((idx, 1)); fail += 1
                else:
                    pend = "track"
            elif k == "uupd" :
                if a == 0:
                    marks.append((idx, 1)); fail += 1
                else:
                    pend = "compl"
            elif k == "commit" and pend is not None:
                marks.append((idx, 1)); ok += 1
                if pend == "compl":
                    cls = "completed"
                pend = None
        return Abstract(f"C{u}", marks, cls, ok, fail)
    if code.startswith("SG("):
        if not any(k == "jrow" for _, k, _ in kinds):
            return Abstract("dedup", [], "dedup", 0, 0)
        pend = False
        cls = "noop"
        for idx, k, a in kinds:
            if k == "jrow":
                marks.append((idx, 1))
            elif k == "jupd":
                if a == 0:
                    marks.append((idx, 1)); fail += 1
                else:
                    pend = True
            elif k == "commit" and pend:
                marks.append((idx, 1)); ok += 1
                pend, cls = False, "buffered"
        return Abstract("G", marks, cls, ok, fail)
    raise ValueError(code)


MODEL_CLASS = {"planned": "planned", "lostClaim": "lostClaim", "lostPlan": "lostPlan", "ignored": "noop", "notReady": "noop", "skip": "noop",
               "completed": "completed", "stale": "stale", "buffered": "buffered"}


# --------------------------------------------------------------------------------------
# engine side
# --------------------------------------------------------------------------------------

def _setup_process() -> None:
    from harness import core

    core.ensure_repo_on_path()
    logging.disable(logging.CRITICAL)


class Lab:
    """One scratch database; builds workflows, prefixes, runs schedules."""

    def __init__(self) -> None:
        from harness import core
        from harness import modeb as mb

        self.mb = mb
        self.dir = core.scratch_dir()
        self.env = None
        self.s0: dict[str, Any] = {}

    def close(self) -> None:
        if self.env is not None:
            self.env.close()
        shutil.rmtree(self.dir, ignore_errors=True)

    def base(self, wf: Wf):
        """S0: every upstream's CompleteStage pending, nothing else."""
        mb = self.mb
        if wf.key() in self.s0:
            env, snap, meta = self.s0[wf.key()]
            self.env = env
            return env, snap, meta
        if self.env is not None:
            self.env.close()
        env = mb.fresh_env(self.dir, wf.key())
        mb.build_fanin(env, wf.n, wf.join, wf.th, predefined=wf.pre)
        env.start()
        reason, _ = env.drain(hold=lambda c: c.startswith("CS(u"))
        codes = sorted(c for _, c in env.pending())
        if reason != "held" or codes != [f"CS(u{i + 1})" for i in range(wf.n)]:
            raise RuntimeError(f"could not reach S0 for {wf}: {reason} {codes}")
        meta = {"ups": [env.stage_row(f"u{i + 1}") for i in range(wf.n)], "ids": dict(env.ids), "refs": dict(env.refs),
                "wf_id": env.wf_id, "wf_type": env.wf_type}
        snap = mb.snapshot(env)
        self.s0[wf.key()] = (env, snap, meta)
        self.env = env
        return env, snap, meta

    def apply_prefix(self, env, prefix: list[str]) -> None:
        for item in prefix:
            if item == "~":
                # everything except the upstream completions runs to quiescence (j and d finish; remaining branches finish later)
                env.drain(max_steps=60, hold=lambda c: c.startswith("CS(u"))
            elif item == "+SG(j)":
                from stabilize.queue.messages import SignalStage

                env.push(SignalStage(execution_type=env.wf_type, execution_id=env.wf_id, stage_id=env.ids["j"], signal_name="go",
                                     signal_data={"x": 1}, persistent=True))
            else:
                rows = env.find(item)
                if not rows:
                    raise RuntimeError(f"prefix item {item} not pending: {env.pending()}")
                env.deliver(rows[0])


RACE_CODES = re.compile(r"^(CS\(u\d+\)|SS\(j\)|SG\(j\))$")


def enum_prefixes(lab: Lab, wf: Wf, maxlen: int) -> list[tuple[list[str], list[str]]]:
    """All states reachable from S0 by sequential deliveries of the racing message kinds (symmetry: lowest pending upstream first)."""
    mb = lab.mb
    env, snap0, meta = lab.base(wf)
    out: list[tuple[list[str], list[str]]] = []
    seen: set[str] = set()
    frontier: list[list[str]] = [[]]
    while frontier:
        prefix = frontier.pop(0)
        env = mb.restore(env, snap0)
        env.refs, env.ids, env.wf_id, env.wf_type = meta["refs"], meta["ids"], meta["wf_id"], meta["wf_type"]
        lab.apply_prefix(env, prefix)
        line = env.state_line()
        if line in seen:
            continue
        seen.add(line)
        pend = [c for _, c in env.pending() if RACE_CODES.match(c)]
        out.append((prefix, pend))
        if len(prefix) >= maxlen:
            continue
        nxt: list[str] = []
        cs = sorted(c for c in set(pend) if c.startswith("CS("))
        if cs:
            nxt.append(cs[0])
        if "SS(j)" in pend:
            nxt.append("SS(j)")
        if "SG(j)" in pend:
            nxt.append("SG(j)")
        if wf.signal and "+SG(j)" not in prefix:
            nxt.append("+SG(j)")
        if "~" not in prefix and env.stage_row("j")["status"] == "RUNNING" and cs:
            nxt.append("~")
        for x in nxt:
            frontier.append(prefix + [x])
    return out


def race_rows(env) -> list[tuple[int, str]]:
    return [(i, c) for i, c in env.pending() if RACE_CODES.match(c)]


def pairs_of(rows: list[tuple[int, str]], dups: bool) -> list[tuple[tuple[str, int], tuple[str, int]]]:
    """ordered pairs of (code, nth) — rows with equal code are interchangeable: the first (and second) representative"""
    by: dict[str, list[int]] = {}
    for i, c in rows:
        by.setdefault(c, []).append(i)
    out = []
    codes = sorted(by)
    for a in codes:
        for b in codes:
            if a != b:
                out.append(((a, 0), (b, 0)))
            elif len(by[a]) > 1:
                out.append(((a, 0), (a, 1)))
            elif dups:
                out.append(((a, 0), (a, 0)))    # the same row delivered to two workers
    return out


@dataclass
class SchedResult:
    sched: dict
    nontrivial: bool
    blocked: bool
    driver_line: str | None
    impl_line: str | None
    violations: list[tuple[str, str]]      # (what, signature)
    tags: list[str]


def rows_for(env, spec: tuple[str, int]) -> int | None:
    r = env.find(spec[0])
    return r[spec[1]] if len(r) > spec[1] else None


def run_one(lab: Lab, wf: Wf, prefix: list[str], ops: list[dict], snap, meta, ref_final: dict | None, want_model: bool = True) -> tuple[SchedResult, list]:
    """ops: [{"name","code","nth","at"[,"yields"]}]: ops[0] top level; ops[i] injected into ops[i-1] at call index `at`;
    "yields": [[j, m|None], ...] (family alternation): at its call j the op hands the baton back to ops[i-1], which runs on to its
    first legal call >= m (None: to its end) before the op resumes."""
    mb = lab.mb
    env = lab.env
    alt = any(o.get("yields") for o in ops)

    def mk(e):
        e.refs, e.ids, e.wf_id, e.wf_type = meta["refs"], meta["ids"], meta["wf_id"], meta["wf_type"]
        built = None
        for o in reversed(ops):
            rid = rows_for(e, (o["code"], o["nth"]))
            if rid is None:
                raise RuntimeError(f"row for {o} not pending: {e.pending()}")
            arm = {} if built is None else {built[1]: built[0]}
            op = e.deliver_op(o["name"], rid, arm)
            if o.get("yields"):
                op.yields = {int(j): mb.Yield(m) for j, m in o["yields"]}
            built = (op, o.get("at"))
        return built[0]

    if "~" in prefix:
        want_model = False      # j is beyond the phases the protocol model covers: monitors only
    out = mb.run_schedule(env, snap, mk)
    env = lab.env
    sched = {"wf": asdict(wf), "prefix": prefix, "ops": ops}
    tags = []
    violations: list[tuple[str, str]] = []
    nontrivial = all(o.injected for o in out.ops[:-1]) and len(out.ops) > 1
    if alt:
        # a real alternation: the child yielded and its parent performed at least one call before the child resumed
        nontrivial = nontrivial and all(bool(o.yielded) and all(pi is None or pi > od["at"] for _, pi in o.yielded)
                                        for o, od in zip(out.ops, ops) if od.get("yields"))
        tags.append("family:alternation")
    if out.blocked:
        return SchedResult(sched, False, True, None, None, [], ["blocked"] + (["blocked:alternation"] if alt else [])), out.ops
    if out.skipped:
        tags.append("skipped-intxn")
    if any(o.skipped_yield for o in out.ops):
        tags.append("skipped-yield")
    jid = meta["ids"]["j"]
    uids = {meta["ids"][f"u{i + 1}"]: i for i in range(wf.n)}
    abss = [abstract(o, od["code"], jid, uids) for o, od in zip(out.ops, ops)]
    # ---- post-race observation (before the drain) ------------------------------------------
    j = env.stage_row("j")
    aud = env.audit()
    ql = env.qledger()
    claims = sum(1 for k, e, o, n in aud if k == "S" and e == "j" and o == "NOT_STARTED" and n == "RUNNING")
    st = sum(1 for c, r, t, rc in ql if c == "ST" and r == "j")
    ss = sum(1 for c, r, t, rc in ql if c == "SS" and r == "j" and rc == 0)
    ups = ",".join(f"{env.stage_row(f'u{i + 1}')['status']}:{env.stage_row(f'u{i + 1}')['version']}" for i in range(wf.n))
    b = lambda x: "1" if x else "0"  # noqa: E731
    per = " ".join(f"{od['name']}={a.cls}:c{a.ok}r{a.fail}" for od, a in zip(ops, abss))
    impl_line = (f"j={j['status']},v{j['version']},f{b(j['fired'])},t{b(j['ntasks'] > 0)},b{j['branches']},g{j['buffered']} "
                 f"claims={claims} st={st} ups={ups} ss={ss} | {per}")
    # ---- model schedule ----------------------------------------------------------------------
    driver_line = None
    if want_model:
        workers: list[str] = []
        sched_idx: list[int] = []
        for item in prefix:
            if item in ("+SG(j)", "~"):
                continue
            kind = "S" if item.startswith("SS(") else ("G" if item.startswith("SG(") else f"C{int(item[4:-1]) - 1}")
            workers.append(kind)
            sched_idx += [len(workers) - 1] * RUN_STEPS
        race_w: list[int | None] = []
        for a in abss:
            if a.kind == "dedup":
                race_w.append(None)
            else:
                workers.append(a.kind)
                race_w.append(len(workers) - 1)

        def flatten(k: int) -> list[int]:
            res: list[int] = []
            a = abss[k]
            inj_at = ops[k + 1].get("at") if k + 1 < len(ops) else None
            injected_done = inj_at is None or not out.ops[k].injected
            for idx, n in a.marks:
                if not injected_done and idx >= inj_at:
                    res += flatten(k + 1)
                    injected_done = True
                if race_w[k] is not None:
                    res += [race_w[k]] * n
            if not injected_done:
                res += flatten(k + 1)
            return res

        # the same schedule from the GLOBAL order in which the DB calls were performed (Call.g): the only way to order an alternation,
        # and an independent cross-check of the nesting-based `flatten` for the old families
        by_g = sorted((o.calls[idx].g, race_w[i], n) for i, (a, o) in enumerate(zip(abss, out.ops)) if race_w[i] is not None for idx, n in a.marks)
        glob = [w for _, w, n in by_g for _ in range(n)]
        if alt:
            sched_idx += glob
        else:
            flat = flatten(0)
            tags.append("order:flatten=global" if flat == glob else "order:flatten!=global")
            sched_idx += flat
        upsl = ",".join(f"{u['status']}:{u['version']}" for u in meta["ups"])
        driver_line = (f"claim join={wf.join} th={wf.th} pre={b(wf.pre)} fix={FIX};{upsl};{','.join(workers)};"
                       f"{','.join(map(str, sched_idx)) or '-'}")
        sched["model_workers"] = workers
        sched["race_workers"] = race_w
    # ---- drain + monitors --------------------------------------------------------------------
    reason, steps = env.drain(max_steps=150)
    wfs = env.wf_status()
    final = {r: env.stage_row(r)["status"] for r in sorted(env.ids)}
    aud = env.audit()
    ql = env.qledger()
    for ref in env.ids:
        n = sum(1 for k, e, o, nn in aud if k == "S" and e == ref and o == "NOT_STARTED" and nn == "RUNNING")
        if n > 1:
            violations.append((f"stage {ref} left NOT_STARTED for RUNNING {n} times", f"double-start:{ref}"))
    tstarts: dict[str, int] = {}
    for k, e, o, nn in aud:
        if k == "T" and o == "NOT_STARTED" and nn == "RUNNING":
            tstarts[e] = tstarts.get(e, 0) + 1
    if any(v > 1 for v in tstarts.values()):
        violations.append(("a task went NOT_STARTED -> RUNNING more than once", "task-double-start"))
    led: dict[tuple, int] = {}
    for x in mb.LEDGER:
        led[x] = led.get(x, 0) + 1
    for x, v in led.items():
        if v > 1:
            violations.append((f"task of stage {x[0]} executed {v} times", f"task-ran-twice:{x[0]}"))
    stq: dict[str, int] = {}
    for c, r, t, rc in ql:
        if c == "ST":
            stq[t] = stq.get(t, 0) + 1
    if any(v > 1 for v in stq.values()):
        violations.append(("StartTask pushed more than once for one task", "starttask-twice"))
    # every stage of these workflows has exactly one task: a second task row / a StartTask for a second task id means it was planned twice
    for ref in sorted(env.ids):
        nrows = env.stage_row(ref)["ntasks"]
        nst = len({t for c, r, t, rc in ql if c == "ST" and r == ref})
        if nrows > 1 or nst > 1:
            violations.append((f"stage {ref} was planned more than once: {nrows} task rows, StartTask pushed for {nst} different tasks", f"planned-twice:{ref}"))
    ssj = sum(1 for c, r, t, rc in ql if c == "SS" and r == "j" and rc == 0)
    ssd = sum(1 for c, r, t, rc in ql if c == "SS" and r == "d" and rc == 0)
    if ssj > wf.n:
        violations.append((f"StartStage(j) pushed {ssj} times by {wf.n} upstream completions", "startstage-j-excess"))
    if ssd > 1:
        violations.append((f"downstream StartStage(d) pushed {ssd} times", "downstream-twice"))
    if reason != "empty" or wfs not in mb.FINAL_WF:
        jst = final["j"]
        kind = "wedge" if reason == "empty" else reason
        violations.append((f"{kind}: queue {reason} after {steps} deliveries, workflow {wfs}, j {jst}, st={st}; the StartStage(j) was consumed "
                           f"although j was not started/planned", f"{kind}:j={jst}:startTask={min(st, 1)}"))
    elif ref_final is not None and (wfs != ref_final["wf"] or final != ref_final["stages"] or sorted(led) != ref_final["ledger"]):
        violations.append((f"final state differs from the sequential run: {wfs} {final} ledger={sorted(led)} vs {ref_final}", "outcome-differs-from-sequential"))
    sched["post"] = impl_line
    sched["final"] = {"drain": reason, "steps": steps, "wf": wfs, "stages": final}
    sched["trace"] = out.trace
    return SchedResult(sched, nontrivial, False, driver_line, impl_line, violations, tags), out.ops


def model_to_impl_line(model_out: str, sched: dict, ops: list[dict]) -> str:
    """Project the model's answer onto what the implementation side observes."""
    m = re.match(r"j=(\S+) claims=(\d+) reclaims=(\d+) plans=(\d+) st=(\d+) ups=(\S+) \| (.*) \| (.*)$", model_out)
    if not m:
        return "unparsable:" + model_out
    j, claims, _re, _plans, st, ups, ws, per = m.groups()
    upl = [] if ups == "-" else [u.split(":") for u in ups.split(",")]
    ss = sum(int(u[2]) for u in upl)
    wsl = [x.split("=")[1] for x in ws.split(" ")] if ws else []
    perl = per.split(" ") if per else []
    parts = []
    for od, wi in zip(ops, sched["race_workers"]):
        if wi is None:
            parts.append(f"{od['name']}=dedup:c0r0")
        else:
            cls = MODEL_CLASS.get(wsl[wi], "unfinished-" + wsl[wi])
            parts.append(f"{od['name']}={cls}:{perl[wi]}")
    return f"j={j} claims={claims} st={st} ups={','.join(u[0] + ':' + u[1] for u in upl)} ss={ss} | {' '.join(parts)}"


# --------------------------------------------------------------------------------------
# family "alternation": A1 B1 A2 B2 [A3] — B, injected at A's point k, yields at ITS point j; A runs on to its point m; B resumes
# --------------------------------------------------------------------------------------

_DML = ("INSERT", "INSERT-OR-IGNORE", "UPDATE", "DELETE")


def _is_dml(c) -> bool:
    return c.kind == "exec" and c.tag.split(".")[0] in _DML


def _has_dml(calls: list, lo: int, hi: int | None) -> bool:
    return any(_is_dml(c) for c in calls[lo:hi])


def _canon(calls: list, i: int) -> bool:
    """point i of a worker is canonical when the call right before it is not a plain read outside a transaction (such a read commutes with
    reads of the other worker: the hand-over could as well happen before it)"""
    if i <= 0 or i > len(calls):
        return True
    p = calls[i - 1]
    return not (p.kind == "exec" and not p.intxn and not _is_dml(p))


def alt_candidates(k: int, a_solo: list, b_nested: list) -> dict[str, list]:
    """(k, j, m) triples for one injection point k of A, from A's un-armed run and B's run nested at k.  Two schedules that differ only in
    the order of adjacent plain reads of the two workers are the same trace, so:
      * B1 = B[0..j) read-only and A2 = A[k..m) read-only: the same trace as B nested at m (old family)            -> dropped
      * B1 read-only: A's plain reads right before k commute with B1                                             -> only canonical k
      * A2 read-only: B's plain reads right before j commute with A2                                             -> only canonical j
    core = the stale-read-then-CAS pattern: B has read everything and pauses at its FIRST write statement (j*), A commits whole
    write transactions (m = first legal point after a commit of A, or A's end);  p2 = B pauses between two of its reads (j < j*),
    m as in core;  p3a = B1 read-only and m anywhere else;  p3b = (k, j) with B1 containing a committed write (j > j*): A's
    continuation after B1 is not A's un-armed run, so m is enumerated from the run (k, j, end)."""
    out: dict[str, list] = {"core": [], "p2": [], "p3a": [], "p3b": []}
    if k >= len(a_solo) or not b_nested:
        return out
    blegal = [c.idx for c in b_nested if c.legal and c.idx > 0]
    jstar = next((c.idx for c in b_nested if _is_dml(c)), None)
    alegal = [c.idx for c in a_solo if c.legal and c.idx > k]
    for j in blegal:
        if _has_dml(b_nested, 0, j):
            out["p3b"].append((k, j))
            continue
        if not _canon(a_solo, k):
            continue
        for m in alegal + [None]:
            if not _has_dml(a_solo, k, m):
                continue
            cm = m is None or _canon(a_solo, m)
            if cm and j == jstar:
                out["core"].append((k, j, m))
            elif cm:
                out["p2"].append((k, j, m))
            else:
                out["p3a"].append((k, j, m))
    return out


def alt_ops(a: tuple[str, int], b: tuple[str, int], k: int, j: int, m: int | None) -> list[dict]:
    return [{"name": "A", "code": a[0], "nth": a[1], "at": None}, {"name": "B", "code": b[0], "nth": b[1], "at": k, "yields": [[j, m]]}]


def alt_unit(lab: "Lab", wf: Wf, prefix: list[str], a, b, a_solo: list, nested: dict[int, list], snap, meta, ref_final, cfg: dict, res: dict) -> None:
    """Run the alternation schedules of one (workflow, prefix, pair).  cfg: {"p2","p3a","p3b_kj","p3b_m": None = all | sample size, "seed"}"""
    import random

    rng = random.Random(f"{cfg.get('seed', 0)}|{wf.key()}|{','.join(prefix)}|{a}|{b}")
    cand: dict[str, list] = {"core": [], "p2": [], "p3a": [], "p3b": []}
    for k in sorted(nested):
        for cls, xs in alt_candidates(k, a_solo, nested[k]).items():
            cand[cls] += xs
    cnt = res.setdefault("alt", {})

    def pick(xs: list, n: int | None) -> list:
        return list(xs) if n is None or n >= len(xs) else sorted(rng.sample(xs, n), key=lambda t: tuple(-1 if v is None else v for v in t))

    def go(cls: str, k: int, j: int, m: int | None):
        r, rops = run_one(lab, wf, prefix, alt_ops(a, b, k, j, m), snap, meta, ref_final)
        r.tags.append("alt:" + cls)
        res["schedules"].append(vars(r))
        cnt[cls + "_run"] = cnt.get(cls + "_run", 0) + 1
        return r, rops

    for cls in ("core", "p2", "p3a"):
        cnt[cls + "_cand"] = cnt.get(cls + "_cand", 0) + len(cand[cls])
        for (k, j, m) in pick(cand[cls], None if cls == "core" else cfg.get(cls)):
            go(cls, k, j, m)
    cnt["p3b_kj_cand"] = cnt.get("p3b_kj_cand", 0) + len(cand["p3b"])
    for (k, j) in pick(cand["p3b"], cfg.get("p3b_kj")):
        r, rops = go("p3b", k, j, None)          # the member "A finishes"; it also measures A's continuation after B1
        if r.blocked or not rops[1].yielded:
            continue
        a_kj = rops[0].calls
        ms = []
        for m in [c.idx for c in a_kj if c.legal and c.idx > k]:
            if not _has_dml(a_kj, k, m) and not _canon(nested[k], j):
                continue
            ms.append(m)
        cnt["p3b_m_cand"] = cnt.get("p3b_m_cand", 0) + len(ms)
        for m in pick([(x,) for x in ms], cfg.get("p3b_m")):
            go("p3b", k, j, m[0])


# --------------------------------------------------------------------------------------
# work units (run in worker processes)
# --------------------------------------------------------------------------------------

def unit_prefix(args: dict) -> dict:
    """All pairs (and, thorough, triples) at one prefix state of one workflow."""
    _setup_process()
    wf = Wf(**args["wf"])
    prefix = args["prefix"]
    thorough = args["thorough"]
    depth2 = args.get("depth2", [])
    lab = Lab()
    t0 = time.time()
    res: dict[str, Any] = {"schedules": [], "points": 0, "illegal_points": 0, "enumerations": 0}
    try:
        mb = lab.mb
        env, snap0, meta = lab.base(wf)
        env = mb.restore(env, snap0)
        env.refs, env.ids, env.wf_id, env.wf_type = meta["refs"], meta["ids"], meta["wf_id"], meta["wf_type"]
        lab.apply_prefix(env, prefix)
        rows = race_rows(env)
        snap = mb.snapshot(env)
        env = mb.restore(env, snap)
        lab.env = env
        # sequential reference
        env.refs, env.ids, env.wf_id, env.wf_type = meta["refs"], meta["ids"], meta["wf_id"], meta["wf_type"]
        reason, _ = env.drain(max_steps=150)
        led = sorted(set(mb.LEDGER))
        ref_final = {"wf": env.wf_status(), "stages": {r: env.stage_row(r)["status"] for r in sorted(env.ids)}, "ledger": led}
        if reason != "empty" or ref_final["wf"] not in mb.FINAL_WF:
            res["schedules"].append({"sched": {"wf": asdict(wf), "prefix": prefix, "ops": []}, "nontrivial": False, "blocked": False, "driver_line": None,
                                     "impl_line": None, "violations": [(f"sequential drain from prefix {prefix} ends {reason}/{ref_final['wf']}", "sequential-wedge")], "tags": []})
            ref_final = None
        pairs = pairs_of(rows, dups=True)
        if args.get("pair_filter"):
            pairs = [p for p in pairs if f"{p[0][0]}>{p[1][0]}" in args["pair_filter"]]
        if args.get("only_pair") is not None:
            pairs = [p for p in pairs if [list(p[0]), list(p[1])] == args["only_pair"]]
        for (a, b) in pairs:
            opsA = [{"name": "A", "code": a[0], "nth": a[1], "at": None}]

            def mkA(e, a=a):
                e.refs, e.ids, e.wf_id, e.wf_type = meta["refs"], meta["ids"], meta["wf_id"], meta["wf_type"]
                return e.deliver_op("A", rows_for(e, a))

            calls = mb.enumerate_points(env, snap, mkA)
            res["enumerations"] += 1
            legal = [c.idx for c in calls if c.legal] + [len(calls)]
            res["points"] += len(legal)
            res["illegal_points"] += len(calls) + 1 - len(legal)
            key = f"{a[0]}>{b[0]}"
            altcfg = dict(args["alt"]["by_pair"][key], seed=args["alt"].get("seed", 0)) if args.get("alt") and key in args["alt"]["by_pair"] else None
            nested: dict[int, list] = {}
            for k in legal:
                ops = [opsA[0], {"name": "B", "code": b[0], "nth": b[1], "at": k}]
                r, rops = run_one(lab, wf, prefix, ops, snap, meta, ref_final)
                res["schedules"].append(vars(r))
                if altcfg and not r.blocked and len(rops) > 1 and rops[1].calls and rops[0].injected == [k] and k < len(calls):
                    nested[k] = list(rops[1].calls)
                if depth2 and key in depth2 and not r.blocked and len(rops) > 1 and rops[1].calls:
                    # third worker nested at every legal point of B (as B ran inside A at k)
                    others = [x for x in pairs_of(rows, dups=False) if x[0] == a and x[1] != b]
                    cands = [x[1] for x in others]
                    bl = [c.idx for c in rops[1].calls if c.legal]
                    for cspec in cands[: args.get("depth2_c", 1)]:
                        for jx in bl:
                            ops3 = ops + [{"name": "C", "code": cspec[0], "nth": cspec[1], "at": jx}]
                            r3, _ = run_one(lab, wf, prefix, ops3, snap, meta, ref_final)
                            res["schedules"].append(vars(r3))
            if altcfg and nested:
                alt_unit(lab, wf, prefix, a, b, calls, nested, snap, meta, ref_final, altcfg, res)
    finally:
        lab.close()
    res["wall"] = time.time() - t0
    return res


def unit_prefixes(args: dict) -> dict:
    _setup_process()
    wf = Wf(**args["wf"])
    lab = Lab()
    try:
        return {"wf": args["wf"], "prefixes": enum_prefixes(lab, wf, args["maxlen"])}
    finally:
        lab.close()


# --------------------------------------------------------------------------------------
# check entry points
# --------------------------------------------------------------------------------------

IMPORTANT = {"SS(j)>SS(j)", "SS(j)>CS(u2)", "SS(j)>CS(u3)", "CS(u1)>CS(u2)", "CS(u2)>CS(u3)", "CS(u2)>SS(j)", "CS(u3)>SS(j)", "SS(j)>SG(j)", "SG(j)>SS(j)",
             "CS(u2)>CS(u1)", "CS(u1)>SS(j)", "CS(u1)>CS(u1)", "CS(u2)>CS(u2)"}


def _pool(n: int):
    import multiprocessing as mp

    return mp.get_context("spawn").Pool(n)


def make_units(pre: list[dict], thorough: bool, depth2: list[str], pair_filter: set[str] | None, depth2_c: int, alt: dict | None = None) -> list[dict]:
    units = []
    for p in pre:
        for prefix, codes in p["prefixes"]:
            rows = list(enumerate(codes))
            pairs = pairs_of(rows, dups=True)
            if pair_filter:
                pairs = [x for x in pairs if f"{x[0][0]}>{x[1][0]}" in pair_filter]
            if not pairs:
                pairs = [None]      # still check the sequential drain from this state
            for pr in pairs:
                units.append({"wf": p["wf"], "prefix": prefix, "thorough": thorough, "depth2": depth2, "depth2_c": depth2_c,
                              "pair_filter": sorted(pair_filter) if pair_filter else None,
                              "only_pair": [list(pr[0]), list(pr[1])] if pr else [], "alt": alt})
    return units


def explore(ctx, jobs: list[dict]) -> None:
    """jobs: [{"wfs": [...], "thorough", "depth2", "pair_filter", "maxlen_extra", "depth2_c"}] — all run in one pool."""
    nproc = min(16, os.cpu_count() or 4)
    t0 = time.time()
    units: list[dict] = []
    with _pool(nproc) as pool:
        reqs = []
        for jb in jobs:
            reqs += [({"wf": asdict(w), "maxlen": 2 * w.n + jb.get("maxlen_extra", 2)}, jb) for w in jb["wfs"]]
        pre = pool.map(unit_prefixes, [r[0] for r in reqs])
        nstates = 0
        for p, (_, jb) in zip(pre, reqs):
            nstates += len(p["prefixes"])
            alt = jb.get("alt")
            if alt and alt.get("wf_keys") is not None and Wf(**p["wf"]).key() not in alt["wf_keys"]:
                alt = None
            units += make_units([p], jb["thorough"], jb["depth2"], jb.get("pair_filter"), jb.get("depth2_c", 1), alt)
        # big units first
        def _pk(u: dict) -> str:
            return f"{u['only_pair'][0][0]}>{u['only_pair'][1][0]}" if u["only_pair"] else ""

        units.sort(key=lambda u: (0 if u["depth2"] and _pk(u) in u["depth2"] else (1 if u.get("alt") and _pk(u) in u["alt"]["by_pair"] else 2)))
        results = pool.map(unit_prefix, units, chunksize=1)
    digest(ctx, results)
    mbx = ctx.extra.setdefault("modeb", {})
    mbx["workflows"] = mbx.get("workflows", 0) + len(reqs)
    mbx["prefix_states"] = mbx.get("prefix_states", 0) + nstates
    mbx["units"] = mbx.get("units", 0) + len(units)
    mbx["explore_wall_s"] = round(mbx.get("explore_wall_s", 0) + time.time() - t0, 1)


def digest(ctx, results: list[dict]) -> None:
    inputs, lines, impl = [], [], []
    mbx = ctx.extra.setdefault("modeb", {})
    for res in results:
        for k in ("points", "illegal_points", "enumerations"):
            mbx[k] = mbx.get(k, 0) + res.get(k, 0)
        for k, v in (res.get("alt") or {}).items():
            ax = mbx.setdefault("alternation", {})
            ax[k] = ax.get(k, 0) + v
    # the first hit of a signature becomes the replay: prefer the fewest workers, then the shortest prefix
    allsched = sorted((r for res in results for r in res["schedules"]),
                      key=lambda r: (len(r["sched"]["ops"]), len(r["sched"]["prefix"]), json.dumps(r["sched"]["ops"])))
    for res in [{"schedules": allsched}]:
        for r in res["schedules"]:
            sched = r["sched"]
            canon = {"wf": sched["wf"], "prefix": sched["prefix"], "ops": sched["ops"]}
            ctx.count(canon, nontrivial=r["nontrivial"])
            mbx["schedules"] = mbx.get("schedules", 0) + 1
            depth = len(sched["ops"])
            ctx.tag(f"workers{depth}")
            for t in r["tags"]:
                ctx.tag(t)
            if r["blocked"]:
                ctx.tag("blocked")
                continue
            if sched["ops"]:
                ctx.tag("pair:" + ">".join(o["code"] for o in sched["ops"]))
                ctx.tag("wf:" + Wf(**sched["wf"]).key())
            for what, sig in r["violations"]:
                ctx.violation(what, f"{sig}", {"schedule": canon, "post": sched.get("post"), "final": sched.get("final"), "trace": sched.get("trace")})
            if r["driver_line"]:
                inputs.append(sched)
                lines.append(r["driver_line"])
                impl.append(r["impl_line"])
            if r["nontrivial"] and r["impl_line"]:
                ctx.sample({"schedule": canon, "post": r["impl_line"], "final": sched.get("final")})
                for cls in re.findall(r"=(\w+):c", r["impl_line"]):
                    ctx.tag("outcome:" + cls)
    # correspondence: project the model's answer, then diff
    out = ctx.lean(lines) if lines else []
    if out is None:
        ctx.notes.append("model driver unavailable: correspondence skipped")
        return
    ctx.corr_suites["claim-protocol-schedules"] += len(lines)
    for sched, line, a, m in zip(inputs, lines, impl, out):
        proj = model_to_impl_line(m, sched, sched["ops"])
        if proj != a:
            if len(ctx.corr_failures) < 50:
                ctx.corr_failures.append({"suite": "claim-protocol-schedules", "input": {k: sched[k] for k in ("wf", "prefix", "ops")},
                                          "driver_line": line, "impl": a, "model": proj, "model_raw": m})


def run_replays(ctx) -> None:
    from harness import core

    d = core.VERIF / "replays" / "C04"
    if not d.is_dir():
        return
    for f in sorted(d.glob("*.json")):
        body = json.loads(f.read_text())
        r = replay_body(body)
        ctx.count({"replay": f.name}, nontrivial=True)
        ctx.tag("replay")
        for what, sig in r["violations"]:
            ctx.violation(what, sig, {"replay_file": f.name, **body})


def replay_body(body: dict) -> dict:
    sched = body.get("schedule") or body.get("replay", {}).get("schedule") or body
    wf = Wf(**sched["wf"])
    lab = Lab()
    try:
        mb = lab.mb
        env, snap0, meta = lab.base(wf)
        env = mb.restore(env, snap0)
        env.refs, env.ids, env.wf_id, env.wf_type = meta["refs"], meta["ids"], meta["wf_id"], meta["wf_type"]
        lab.apply_prefix(env, sched["prefix"])
        snap = mb.snapshot(env)
        env = mb.restore(env, snap)
        lab.env = env
        r, _ = run_one(lab, wf, sched["prefix"], sched["ops"], snap, meta, None, want_model=False)
        return vars(r)
    finally:
        lab.close()


def alt_config(seed: int, thorough: bool) -> dict:
    """family alternation: which pairs, and how much of each candidate class (None = all, n = seeded sample per (workflow, prefix, pair)).
    core (stale read then CAS across whole write transactions of A) always runs in full."""
    ss = "SS(j)>SS(j)"
    mixed = [f"SS(j)>CS(u{i})" for i in (1, 2, 3)] + [f"CS(u{i})>SS(j)" for i in (1, 2, 3)]
    if thorough:
        by = {ss: {"p2": None, "p3a": None, "p3b_kj": 12, "p3b_m": 3}}
        by.update({k: {"p2": None, "p3a": 12, "p3b_kj": 6, "p3b_m": 2} for k in mixed})
    else:
        by = {ss: {"p2": 8, "p3a": 2, "p3b_kj": 2, "p3b_m": 2}}
        by.update({k: {"p2": 2, "p3a": 0, "p3b_kj": 0, "p3b_m": 0} for k in mixed})
    return {"seed": seed, "by_pair": by}


D2_QUICK = ["SS(j)>CS(u2)", "SS(j)>SS(j)", "CS(u2)>SS(j)", "SS(j)>SG(j)"]
D2_THOROUGH = ["SS(j)>CS(u2)", "SS(j)>CS(u3)", "SS(j)>SS(j)", "CS(u2)>SS(j)", "SS(j)>SG(j)"]


def run(ctx) -> None:
    _setup_process()
    run_replays(ctx)
    if ctx.thorough:
        wfs = workflows(True)
        # depth 2 (a third worker nested at every legal point of the second) for the joins whose remaining branches finish later,
        # the signal workflow and the zombie-capable one; depth 1 (all pairs incl. duplicate deliveries) for everything
        d2keys = {"DISCRIMINATOR-n3-pre", "N_OF_M2-n3-pre", "AND-n2-pre-sig", "DISCRIMINATOR-n2-gen", "DISCRIMINATOR-n2-pre"}
        d2 = [w for w in wfs if w.key() in d2keys]
        rest = [w for w in wfs if w.key() not in d2keys]
        alt = alt_config(ctx.seed, True)
        explore(ctx, [{"wfs": d2, "thorough": True, "depth2": D2_THOROUGH, "pair_filter": None, "depth2_c": 1, "alt": alt},
                      {"wfs": rest, "thorough": True, "depth2": [], "pair_filter": None, "alt": alt}])
    else:
        wfs = workflows(False)
        # a seeded sample of depth-2 schedules on top of all depth-1 schedules of the important pairs
        pick = ctx.rng.sample([w for w in wfs if w.n == 3 or w.signal or not w.pre], 2)
        d2pair = ctx.rng.choice(D2_QUICK[:3])
        explore(ctx, [{"wfs": wfs, "thorough": False, "depth2": [], "pair_filter": IMPORTANT, "alt": alt_config(ctx.seed, False)},
                      {"wfs": pick, "thorough": False, "depth2": [d2pair], "pair_filter": {d2pair}, "maxlen_extra": 0}])


def search(ctx) -> None:
    """Larger-budget hunt (monitors only): every pair at every prefix of every workflow, depth 2 for the important pairs."""
    _setup_process()
    explore(ctx, [{"wfs": workflows(True), "thorough": True, "depth2": D2_QUICK, "pair_filter": None}])


def replay(ctx, body) -> int:
    _setup_process()
    r = replay_body(body)
    sched = r["sched"]
    print("schedule:", json.dumps({k: sched[k] for k in ("wf", "prefix", "ops")}))
    for t in sched.get("trace", []):
        print("  ", t)
    print("post-race:", sched.get("post"))
    print("final:", sched.get("final"))
    for what, sig in r["violations"]:
        print(f"FAILS: {what}  [{sig}]")
    return 1 if r["violations"] else 0
