"""C08 — queue: at-least-once delivery, one holder at a time, nothing lost.

Mode A against a real SqliteQueue (+ SqliteWorkflowStore.transaction().push_message, QueueProcessor.process_one)
on a scratch file.  2-3 logical workers, each a dedicated thread with its own SQLite connection, scheduled
sequentially by the harness; `sel:w` parks worker w inside the real `poll_one()` between its SELECT and its
claim UPDATE, `claim:w` lets it continue.  Time is explicit: lock_duration and every delay are 1 hour, `expire`
and `mature` rewrite the timestamp columns.  After every op the durable rows (read through a separate
connection) and the caller-visible outcome are compared with the Lean model `Stab.Queue`.

Pair suite (section "pairs" below): two operations of two connections on the SAME message, one of them parked before each
of its SQL statements / its commit while the other runs completely; conservation, one-holder, return-value and
equals-one-sequential-order oracles on the implementation, and the outcome compared with the model's two sequential orders.

Threaded processor (harness/queue_proc.py, started first and collected last in `run`): real QueueProcessor.start()/stop() with
a scripted handler and a short real-time lock; monitors on the trace of handler runs and trigger notes.
"""
from __future__ import annotations

import json
import re
import shutil
import sqlite3
import uuid
from datetime import timedelta
from pathlib import Path

from harness import core
from harness.dbshim import CTL, Crash, Worker, install

RULE = ("(1) pairs, enumerated completely: one message; 15 precondition states (in queue unlocked / held, lock live / held, lock lapsed / "
        "held on its final attempt, live or lapsed / attempts exhausted and released / in the DLQ; the Message object held by the "
        "caller of X, of Y, or by a third client) x every ordered pair (X, Y) of operations applicable there from {poll_one, ack, "
        "reschedule (delay 0 / 1 h), extend_lock, check_and_move_expired, move_to_dlq, replay_dlq, lock-expiry-then-poll} on two "
        "connections of one SQLite file x every k: X is parked before its k-th SQL statement and before its COMMIT (k = 0 is Y;X, "
        "never parked is X;Y — the statement lists are measured on the tree under test and recorded), Y runs completely, X resumes. "
        "A schedule in which Y meets X's write lock (busy_timeout 0) is recorded as blocked and skipped. lock-expiry-then-poll is "
        "enumerated as Y only: as X it is poll_one in the matching lapsed state. Thorough tier adds two variants of the whole space: a "
        "delayed bystander message no operation may touch, and a message that already failed once. A schedule is distinct by "
        "(state, X, Y, k, variant); all are non-trivial. "
        "(3) threaded processor (harness/queue_proc.py), real QueueProcessor.start()/stop() on a real SqliteQueue with a 0.4 s lock and a "
        "scripted handler (per message and invocation: return / raise / block until the row was claimed again or the lock has "
        "certainly lapsed, then return or raise): the full grid 5 script families (all return; first run outlives the lock then "
        "raises / then returns; a run raises quickly; every run raises up to the attempt limit) x heartbeat on / off / interval > "
        "lock x max_workers 1-3 x 1-3 messages = 135 scenarios, in worker processes; thorough adds 420 random scripts (limit 2-3, "
        "retry delay 0 / 50 ms, sweep on / off). A scenario is distinct by its configuration and scripts; what its timing produced "
        "(row re-claimed while a run still executes, failed run rescheduled, dead-lettered, heartbeat renewed) is tagged, a timing that "
        "did not materialise is tagged not-materialised and is not an alarm. "
        "(2) random op sequences (12-40 ops, 2-3 workers, queue max_attempts 1-3) generated adaptively against the real queue: "
        "push / transactional push (own max_attempts) / undeserialisable rows, split and atomic polls, ack / reschedule / "
        "extend by the holder, by stale workers (lapsed lock, old Message object) and with hand-made Messages, expire / mature, move_to_dlq / sweep / replay_dlq, process_one with a "
        "scripted handler, crash at the k-th commit inside an op; every sequence ends with a drain. A case is distinct by its "
        "(max_attempts, op list) and non-trivial when it contains a split poll, a stale release, a DLQ move or a crash")
ASSUMPTIONS = [
    "process time zone is UTC (the queue compares against datetime('now','utc'))",
    "the run does not straddle midnight UTC (ORDER BY deliver_at compares two timestamp formats as text)",
    "lock lapse / delivery delay are explicit operations: the harness rewrites locked_until / deliver_at; real-time lapse is not exercised",
    "workers are scheduled at statement granularity by the harness (one runs at a time); SQLite serialises writers",
    "reschedule / extend_lock are part of the property only when called with a Message handed out by poll_one (it carries the "
    "claim token); calls with a hand-made Message are exercised for the correspondence (model ops rresched / rextend) but a "
    "held row claimed after such a call is tagged, not reported",
    "a crash is 'the first k commits of the operation are durable, all Python objects are gone' (commit() raises a BaseException)",
    "pairs: exactly one of the two operations is split, the other runs without interruption between two statements of the first. "
    "Every one of the eight operations is `reads, then at most one write transaction` per row (recorded statement lists), and SQLite "
    "admits one write transaction at a time, so every two-connection interleaving is one of these schedules up to swapping adjacent reads",
    "pairs: the connections' busy_timeout is lowered from 30 s to 0, so `Y waits for X's write lock` shows as an immediate `database is "
    "locked` = schedule not permitted; the wait-then-proceed continuation is the sequential order X;Y, which is enumerated",
    "pairs: the lapse in lock-expiry-then-poll is an UPDATE by the harness connection; while X holds the write lock it cannot be made "
    "(recorded as blocked) although real time would pass — the poll after it would be blocked by the same lock unless it finds no candidate",
    "pairs: `acknowledged` = the row was deleted from the queue table by the connection that was executing ack() (a SQL function "
    "registered on every connection labels the trigger ledger); an ack() that deletes nothing acknowledges nothing",
    "pairs: the count returned by check_and_move_expired is not compared (it is the number of rows the sweep's SELECT saw; when another "
    "connection moves or acknowledges the row first the sweep still counts it) — masked as `n` on both sides",
    "threaded processor: the handler is the harness's scripted function, deduplication is off (no store), one processor per queue file; "
    "`a run returned` = the scripted handler reached its end, recorded before it returns to the processor; `acknowledged` = a queue row "
    "deleted by a statement the processor's thread executed inside queue.ack() (triggers call a SQL function registered on every "
    "connection the engine opens; thin wrappers on the queue INSTANCE only label the calling thread, the calls are the processor's)",
    "threaded processor: real time. The queue compares locked_until at whole seconds, so a 0.4 s lock lapses 0.4-1.4 s after the claim; "
    "a blocked run is released 0.3 s after its row was claimed again, at the latest lock + 1.7 s (heartbeat off) / 4 x lock + 1.8 s "
    "(interval > lock) after it started. All oracles are safety statements over the recorded trace and hold for any timing; only "
    "coverage depends on the timing",
    "threaded processor: the history fed to the model is a function of RECORDED facts only: the writes in SQLite's serial order (trigger "
    "notes with row id, attempts, version, deliver_at) and the row each claim UPDATE took. When poll_one's SELECT read its snapshot is not "
    "recorded; the history uses the model's own poll split (sel / claim) with the SELECT at the earliest point the records allow (after the "
    "previous claim and after the write that made the picked row eligible) — rows freed later were either not seen or lost the ORDER BY, "
    "the pick is the same. A scenario stays in the tie only if, on the recorded deliver_at values, the picked row is the minimum of the rows "
    "eligible at that point AND the model's op-order stamps give the same minimum (reschedule() computes deliver_at before its UPDATE, so "
    "commit order and deliver_at order can differ), also for the rows left at the end; otherwise it is left out of the tie "
    "(tag left-out-of-the-model-tie:<why>), its monitors stay",
    "pairs: an outcome that differs from both sequential orders ONLY in deliver_at (deliverable flag / delivery order) is recorded under "
    "pair_timing_only_differences, not reported: reschedule(delay) by a lapsed holder between another poller's SELECT and claim lets the "
    "claim succeed (reschedule does not bump the version), i.e. one retry delay is skipped; places, holder and return values are those of X;Y",
]
TRUSTED_BASE = [
    "hand-written model lean/Stab/Model/Queue.lean of queue/sqlite/queue.py, dlq.py, transaction.py:push_message and the "
    "poll/ack/reschedule calls of processor.process_one; tied to the code by the Mode-A differential only",
    "SQLite PRIMARY KEY AUTOINCREMENT (unique, never reused ids), atomic commit/rollback, DELETE … RETURNING",
    "the INSERT/DELETE triggers and the separate observer connection see exactly the durable changes",
    "pairs: the sequential reference is the same model (driver form `queue <m> <setup> <A> <B> ab|ba|split`, Stab.Queue.showPairOrder / "
    "showPairSplit); that an interleaved execution equals one sequential order is CHECKED on every enumerated schedule, not proved — "
    "the theorems (pair_conservation, pair_one_holder, replay_second_fails, move_second_noop, ack_excludes_move, move_excludes_ack) "
    "are about the sequential orders; SQLite's statement atomicity and write-lock exclusion between connections are trusted",
    "threaded processor (QueueProcessor._poll_loop, _submit_message_internal.process_and_ack, _start_lock_heartbeat, _check_dlq): "
    "IMPLEMENTATION-ONLY monitors — the Lean Queue model has no threads and no notion of a handler run, so `acknowledged only after a "
    "handler run returned` (proc:acked-without-returned-run, proc:gone-and-never-handled) is checked on the enumerated scenarios, not "
    "proved. The model is used only as a sequential reference for the committed history of each scenario (poll results, final places, "
    "attempts, versions: suite queue-threaded-history); thread scheduling, the executor and the heartbeat timing are real and unmodelled",
    "pairs: harness/dbshim.py gates (park before execute() / before a transaction-ending commit()) are the only scheduler; statements "
    "issued through cursor objects or executemany would not be seen (the queue code uses conn.execute only)",
]

HOUR = timedelta(hours=1)
PAST = "2000-01-01T00:00:00+00:00"


def _tag_of(payload: str) -> int:
    m = re.search(r"t(\d+)", payload)
    return int(m.group(1)) if m else -1


class Bed:
    """One scratch database + real queue/store/processor + workers + monitors."""

    def __init__(self, max_attempts: int, nworkers: int, base: Path, workers: list[Worker], producer: Worker):
        from stabilize.persistence.connection import ConnectionManager, SingletonMeta

        self.max_attempts = max_attempts
        self.nworkers = nworkers
        self.workers = workers
        self.producer = producer
        self.dir = base
        self.path = str(base / f"q-{uuid.uuid4().hex[:8]}.db")
        self.cs = f"sqlite:///{self.path}"
        SingletonMeta.reset(ConnectionManager)
        CTL.arm_crash(None)
        self.next_tag = 0
        self.acked: list[int] = []
        self.ops: list[str] = []           # model ops actually executed
        self.outs: list[str] = []          # implementation outcome#state per model op
        self.hits: list[tuple[str, str]] = []   # (what, signature)
        self.leases: dict[int, list[dict]] = {}
        self.breaker: dict[int, str] = {}
        self.tainted: dict[int, str] = {}
        self.cons_reported: set[int] = set()
        self.msgs: dict[tuple[int, int], object] = {}   # the real Message objects handed out by poll_one
        self.parked: dict[int, tuple[int, int]] = {}
        self.tags: list[str] = []
        self.dangling = 0
        self._build()
        self.admin = sqlite3.connect(self.path, timeout=30, isolation_level=None, check_same_thread=False)
        self.admin.executescript("""
            CREATE TABLE v_ledger(seq INTEGER PRIMARY KEY AUTOINCREMENT, tbl TEXT, op TEXT, rid INTEGER, mtype TEXT, payload TEXT);
            CREATE TRIGGER v_q_ins AFTER INSERT ON queue_messages BEGIN
              INSERT INTO v_ledger(tbl,op,rid,mtype,payload) VALUES('q','ins',NEW.id,NEW.message_type,NEW.payload); END;
            CREATE TRIGGER v_q_del AFTER DELETE ON queue_messages BEGIN
              INSERT INTO v_ledger(tbl,op,rid,mtype,payload) VALUES('q','del',OLD.id,OLD.message_type,OLD.payload); END;
            CREATE TRIGGER v_d_ins AFTER INSERT ON queue_messages_dlq BEGIN
              INSERT INTO v_ledger(tbl,op,rid,mtype,payload) VALUES('d','ins',NEW.id,NEW.message_type,NEW.payload); END;
            CREATE TRIGGER v_d_del AFTER DELETE ON queue_messages_dlq BEGIN
              INSERT INTO v_ledger(tbl,op,rid,mtype,payload) VALUES('d','del',OLD.id,OLD.message_type,OLD.payload); END;
        """)
        self.seq = 0

    # ---- construction / restart ---------------------------------------------------------
    def _build(self) -> None:
        from stabilize import QueueProcessor, SqliteQueue, SqliteWorkflowStore
        from stabilize.queue.messages import StartWorkflow
        from stabilize.queue.processor.config import QueueProcessorConfig

        def mk():
            self.store = SqliteWorkflowStore(self.cs, create_tables=True)
            self.queue = SqliteQueue(self.cs, table_name="queue_messages", lock_duration=HOUR, max_attempts=self.max_attempts)
            self.queue._create_table()
            cfg = QueueProcessorConfig(retry_delay=HOUR, enable_deduplication=False, enable_lock_heartbeat=False)
            self.proc = QueueProcessor(self.queue, config=cfg)
            self.proc.register_handler_func(StartWorkflow, self._handler)

        self.producer.call(mk)
        self.script: dict | None = None

    def restart(self) -> None:
        """After a crash: every connection is dropped (open transactions roll back), all objects rebuilt."""
        from stabilize.persistence.connection import ConnectionManager, SingletonMeta

        q = self.queue

        def drop():
            try:
                c = q._get_connection()
                c.rollback()
            except BaseException:  # noqa: BLE001
                pass
            try:
                q.close()
            except BaseException:  # noqa: BLE001
                pass
            from stabilize.events import txn_scope

            txn_scope._local.scope = None   # the dead process's thread-local transaction scope

        CTL.arm_crash(None)
        for w in [self.producer, *self.workers[: self.nworkers]]:
            if w.busy:
                w.resume(abort=True)
                try:
                    w.wait_parked_or_done(10)
                except BaseException:  # noqa: BLE001
                    pass
                CTL.gates.pop(w.ident, None)
            w.call(drop)
        SingletonMeta.reset(ConnectionManager)
        self.parked.clear()
        self.leases.clear()
        self.breaker.clear()
        self.tainted.clear()
        self.msgs.clear()
        self._build()

    def close(self) -> None:
        from stabilize.persistence.connection import ConnectionManager, SingletonMeta

        q = self.queue
        for w in [self.producer, *self.workers[: self.nworkers]]:
            if w.busy:
                w.resume(abort=True)
                try:
                    w.wait_parked_or_done(10)
                except BaseException:  # noqa: BLE001
                    pass
                CTL.gates.pop(w.ident, None)
            try:
                w.call(q.close)
            except BaseException:  # noqa: BLE001
                pass
        self.admin.close()
        SingletonMeta.reset(ConnectionManager)
        CTL.arm_crash(None)
        for suf in ("", "-wal", "-shm", "-journal"):
            try:
                Path(self.path + suf).unlink()
            except FileNotFoundError:
                pass

    # ---- observation ----------------------------------------------------------------------
    def _bad(self, mtype: str, payload: str) -> int:
        from stabilize.queue.messages import MESSAGE_TYPES

        try:
            json.loads(payload)
        except Exception:
            return 1
        return 0 if mtype in MESSAGE_TYPES else 2

    def rows(self) -> list[dict]:
        cur = self.admin.execute(
            "SELECT id, message_type, payload, attempts, max_attempts, version, locked_until IS NULL, "
            "datetime(locked_until) < datetime('now','utc'), datetime(deliver_at) <= datetime('now','utc') "
            "FROM queue_messages ORDER BY id")
        out = []
        for i, mt, pl, att, mx, ver, lnull, llapsed, deliv in cur.fetchall():
            out.append({"id": i, "tag": _tag_of(pl), "bad": self._bad(mt, pl), "att": att, "max": mx, "ver": ver,
                        "lock": "f" if lnull else ("x" if llapsed else "h"), "deliv": int(bool(deliv)), "payload": pl, "mtype": mt})
        return out

    def dlq_rows(self) -> list[dict]:
        cur = self.admin.execute("SELECT id, original_id, message_type, payload, attempts FROM queue_messages_dlq ORDER BY id")
        return [{"did": d, "orig": o, "tag": _tag_of(pl), "bad": self._bad(mt, pl), "att": a, "payload": pl, "mtype": mt}
                for d, o, mt, pl, a in cur.fetchall()]

    def state_line(self) -> str:
        rs = self.rows()
        ds = self.dlq_rows()
        order = [str(r[0]) for r in self.admin.execute(
            "SELECT id FROM queue_messages WHERE datetime(deliver_at) <= datetime('now','utc') ORDER BY deliver_at, id").fetchall()]
        f = lambda xs: ",".join(xs) if xs else "-"  # noqa: E731
        return "#".join([
            f([f"{r['id']}.{r['tag']}.{r['bad']}.{r['att']}.{r['max']}.{r['ver']}.{r['lock']}.{r['deliv']}" for r in rs]),
            f([f"{d['did']}.{d['orig']}.{d['tag']}.{d['bad']}.{d['att']}" for d in ds]),
            f(order),
            f([str(t) for t in self.acked]),
        ])

    def ledger_since(self) -> list[tuple]:
        rows = self.admin.execute("SELECT seq, tbl, op, rid, mtype, payload FROM v_ledger WHERE seq > ? ORDER BY seq", (self.seq,)).fetchall()
        if rows:
            self.seq = rows[-1][0]
        return rows

    # ---- monitors (property as stated; independent of the model) ---------------------------------
    def hit(self, what: str, sig: str) -> None:
        self.hits.append((what, sig))

    def check_conservation(self, after: str) -> None:
        inq = [r["tag"] for r in self.rows()]
        ind = [d["tag"] for d in self.dlq_rows()]
        pushed = {_tag_of(p) for (p,) in self.admin.execute("SELECT payload FROM v_ledger WHERE tbl='q' AND op='ins'").fetchall()}
        toks = after.split(":")
        kind = "crash-" + toks[2] if toks[0] == "crash" else toks[0]
        for t in sorted(pushed):
            n = inq.count(t) + ind.count(t) + self.acked.count(t)
            if n != 1 and t in self.cons_reported:
                continue
            if n != 1:
                self.cons_reported.add(t)
            if n == 0:
                self.hit(f"message t{t} is in none of queue / DLQ / acknowledged after `{after}`", f"conservation:lost:{kind}")
            elif n > 1:
                self.hit(f"message t{t} is in {n} places after `{after}`", f"conservation:dup:{kind}")

    def on_got(self, w: int, rid: int, attempts_after: int) -> None:
        for l in self.leases.get(rid, []):
            if l["live"]:
                # the first violation on a row names the cause; later ones on the same row are its consequences
                cause = self.tainted.get(rid) or ("stale-extend" if l["revived"] else self.breaker.get(rid, "none"))
                self.tainted[rid] = cause
                if cause.startswith("raw"):
                    # a hand-made Message without claim token is outside the poll -> release protocol the property is about
                    self.tags.append("held-row-claimed-after-raw-message-call")
                    continue
                self.hit(f"worker {w} claimed row {rid} while worker {l['w']} holds it (lock not lapsed, not released); cause={cause}",
                         f"held-row-claimed:{cause}")
        # a new claim by the same worker supersedes its older lease on that row (it now holds the new Message)
        self.leases[rid] = [l for l in self.leases.get(rid, []) if l["w"] != w]
        self.leases[rid].append({"w": w, "live": True, "revived": False})
        self.breaker.pop(rid, None)
        if attempts_after - 1 >= self.max_attempts:
            self.hit(f"row {rid} delivered with attempts={attempts_after - 1} >= max_attempts={self.max_attempts}", "polled-at-limit")

    def on_release(self, w: int, rid: int, kind: str, unlocked: bool = True) -> None:
        ls = self.leases.get(rid, [])
        # a lease revived by extend_lock after it had lapsed does not count as a valid hold of the caller
        mine_live = any(l["w"] == w and l["live"] and not l["revived"] for l in ls)
        others_live = any(l["w"] != w and l["live"] for l in ls)
        if others_live and not mine_live and unlocked:
            self.breaker[rid] = kind if kind.startswith("raw") else f"stale-{kind}"
            self.tags.append(f"{self.breaker[rid]}-under-live-holder")
        self.leases[rid] = [l for l in ls if l["w"] != w]

    # ---- the scripted handler of process_one ------------------------------------------------------
    def _handler(self, message) -> None:
        sc = self.script
        rid = int(message.message_id)
        sc["rid"] = rid
        sc["msg"] = message
        sc["tag"] = _tag_of(message.execution_id)
        sc["attempts"] = message.attempts
        present = self.admin.execute("SELECT COUNT(*) FROM queue_messages WHERE id = ?", (rid,)).fetchone()[0]
        if not present:
            self.hit(f"row {rid} was already deleted while its handler was still running", "acked-before-handler-returned")
        sc["state_in_handler"] = self.state_line()
        if sc["fail"]:
            raise RuntimeError("scripted handler failure")

    # ---- op execution -------------------------------------------------------------------------
    def _msg(self, rid: int, w: int | None = None):
        from stabilize.queue.messages import StartWorkflow

        if (w, rid) in self.msgs:
            return self.msgs[(w, rid)]
        m = StartWorkflow()
        m.message_id = str(rid)
        return m

    def _new_msg(self, max_attempts: int | None = None):
        from stabilize.queue.messages import StartWorkflow

        t = self.next_tag      # consumed only when the push succeeded (see _act)
        m = StartWorkflow(execution_id=f"t{t}")
        if max_attempts is not None:
            m.max_attempts = max_attempts
        return m

    def _after_call(self, w: Worker) -> None:
        """move_to_dlq / replay_dlq return without commit when nothing matched, leaving a write transaction open."""
        q = self.queue

        def fix():
            c = q._get_connection()
            if c.in_transaction:
                c.commit()
                return True
            return False

        if w.call(fix):
            self.dangling += 1
            self.tags.append("dangling-write-txn-after-not-found")

    def _poll_out(self, w: int, fn) -> str:
        try:
            m = self.workers[w].call(fn)
        except ValueError:
            return "raised"
        if m is None:
            return "none"
        rid = int(m.message_id)
        self.msgs[(w, rid)] = m
        self.on_got(w, rid, m.attempts)
        return f"got:{rid}:{_tag_of(m.execution_id)}:{m.attempts}"

    def _act(self, toks: list[str]) -> str:
        """Run one action on the implementation; returns the caller-visible outcome."""
        k = toks[0]
        q = self.queue
        if k == "push":
            m = self._new_msg()
            self.producer.call(lambda: q.push(m, HOUR if toks[1] == "1" else None))
            self.next_tag += 1
            return "ok"
        if k == "pusht":
            m = self._new_msg(int(toks[1]))
            st = self.store

            def f():
                with st.transaction() as txn:
                    txn.push_message(m, delay=3600 if toks[2] == "1" else 0)

            self.producer.call(f)
            self.next_tag += 1
            return "ok"
        if k == "inject":
            t = self.next_tag
            self.next_tag += 1
            kind = int(toks[1])
            mtype, payload = ("StartWorkflow", f"{{not json t{t}") if kind == 1 else ("NoSuchMessage", json.dumps({"execution_id": f"t{t}"}))
            from datetime import UTC, datetime

            if kind == 1:
                # the expression index on json_extract(payload,'$.task_id') rejects non-JSON text at INSERT time;
                # a payload corrupted afterwards (disk fault) is simulated by dropping that index first
                self.admin.execute("DROP INDEX IF EXISTS idx_queue_messages_task_id")
            self.admin.execute(
                "INSERT INTO queue_messages (message_id, message_type, payload, deliver_at, attempts, max_attempts) VALUES (?,?,?,?,0,?)",
                (str(uuid.uuid4()), mtype, payload, datetime.now(UTC).isoformat(), self.max_attempts))
            return "ok"
        if k == "sel":
            w = int(toks[1])
            wk = self.workers[w]

            def gate(sql, params, wk=wk):
                if "version = version + 1" in sql and sql.lstrip().upper().startswith("UPDATE"):
                    CTL.gates.pop(wk.ident, None)
                    wk.park_here({"id": params["id"], "version": params.get("version", -1)})

            CTL.gates[wk.ident] = gate
            wk.start_call(q.poll_one)
            kind, val = wk.wait_parked_or_done()
            if kind == "parked":
                self.parked[w] = (val["id"], val["version"])
                return f"sel:{val['id']}:{val['version']}"
            CTL.gates.pop(wk.ident, None)
            assert val is None
            return "none"
        if k == "claim":
            w = int(toks[1])
            wk = self.workers[w]
            if w not in self.parked:
                return "nosel"
            self.parked.pop(w)
            wk.resume()
            try:
                kind, m = wk.wait_parked_or_done()
            except ValueError:
                return "raised"
            if m is None:
                return "none"
            rid = int(m.message_id)
            self.msgs[(w, rid)] = m
            self.on_got(w, rid, m.attempts)
            return f"got:{rid}:{_tag_of(m.execution_id)}:{m.attempts}"
        if k == "poll":
            return self._poll_out(int(toks[1]), q.poll_one)
        if k == "ack":
            w, rid = int(toks[1]), int(toks[2])
            self.workers[w].call(lambda: q.ack(self._msg(rid, w)))
            self.on_release(w, rid, "ack")
            return "ok"
        if k == "resched":
            w, rid = int(toks[1]), int(toks[2])
            raw = (w, rid) not in self.msgs      # hand-made Message: no claim token, the call is unguarded
            lock_before = {r["id"]: r["lock"] for r in self.rows()}.get(rid)
            self.workers[w].call(lambda: q.reschedule(self._msg(rid, w), HOUR if toks[3] == "1" else timedelta(0)))
            lock_after = {r["id"]: r["lock"] for r in self.rows()}.get(rid)
            # only a call that really released a held lock can be the cause of a later double hold
            self.on_release(w, rid, "raw-reschedule" if raw else "reschedule", unlocked=(lock_before == "h" and lock_after != "h"))
            return "ok"
        if k == "extend":
            w, rid = int(toks[1]), int(toks[2])
            ok = self.workers[w].call(lambda: q.extend_lock(self._msg(rid, w)))
            if ok:
                for l in self.leases.get(rid, []):
                    if l["w"] == w and not l["live"]:
                        l["live"] = True
                        l["revived"] = True
            return "1" if ok else "0"
        if k == "expire":
            rid = int(toks[1])
            self.admin.execute("UPDATE queue_messages SET locked_until = ? WHERE id = ? AND locked_until IS NOT NULL "
                               "AND NOT (datetime(locked_until) < datetime('now','utc'))", (PAST, rid))
            for l in self.leases.get(rid, []):
                l["live"] = False
                l["revived"] = False
            return "ok"
        if k == "mature":
            from datetime import datetime

            rid = int(toks[1])
            r = self.admin.execute("SELECT deliver_at, datetime(deliver_at) <= datetime('now','utc') FROM queue_messages WHERE id = ?", (rid,)).fetchone()
            if r and not r[1]:
                self.admin.execute("UPDATE queue_messages SET deliver_at = ? WHERE id = ?",
                                   ((datetime.fromisoformat(r[0]) - HOUR).isoformat(), rid))
            return "ok"
        if k == "dlq":
            rid = int(toks[1])
            self.producer.call(lambda: q.move_to_dlq(rid, "verif"))
            return "ok"
        if k == "sweep":
            before = {r["id"]: r for r in self.rows()}
            n = self.producer.call(q.check_and_move_expired)
            left = [r for r in self.rows() if r["att"] >= r["max"]]
            if left:
                self.hit(f"sweep left rows with attempts >= their max_attempts: {[r['id'] for r in left]}", "sweep-left-exhausted-row")
            for r in self.rows():
                if r["att"] >= self.max_attempts and r["att"] < r["max"] and r["id"] in before:
                    self.hit(f"row {r['id']} (t{r['tag']}) has attempts={r['att']} >= queue.max_attempts={self.max_attempts} so poll_one never returns it, "
                             f"but < its own max_attempts column {r['max']} so check_and_move_expired never moves it: stranded in the queue",
                             "stranded:queue-limit<row-limit")
            return f"n{n}"
        if k == "replay":
            did = int(toks[1])
            old = {d["did"]: d for d in self.dlq_rows()}.get(did)
            ok = self.producer.call(lambda: q.replay_dlq(did))
            if ok and old is not None:
                new = self.rows()[-1]
                if new["payload"] != old["payload"] or new["mtype"] != old["mtype"]:
                    self.hit(f"replay of DLQ entry {did} changed the message", "replay-changed-payload")
            return "1" if ok else "0"
        raise core.Infra(f"unknown op {toks}")

    def _account_ledger(self, op: str, acking: bool) -> None:
        """deletes from the queue table that happened during an `ack` are acknowledgements"""
        for _seq, tbl, kind, _rid, _mt, pl in self.ledger_since():
            if tbl == "q" and kind == "del" and acking:
                self.acked.append(_tag_of(pl))

    def _record(self, op: str, out: str) -> None:
        self.ops.append(op)
        self.outs.append(out + "#" + self.state_line())

    def _model_op(self, toks: list[str]) -> str:
        """reschedule / extend_lock with a Message that did not come from poll_one is the model's raw (token-less) op"""
        if toks[0] in ("resched", "extend") and (int(toks[1]), int(toks[2])) not in self.msgs:
            return f"rresched:{toks[2]}:{toks[3]}" if toks[0] == "resched" else f"rextend:{toks[2]}"
        return ":".join(toks)

    def step(self, op: str) -> None:
        """Execute one harness op (possibly several model ops), run the monitors."""
        toks = op.split(":")
        if toks[0] == "proc":
            self._proc(int(toks[1]), toks[2] == "fail")
            return
        if toks[0] == "crash":
            k, inner = int(toks[1]), toks[2:]
            mop = f"crash:{k}:" + self._model_op(inner)
            CTL.arm_crash(k)
            try:
                self._act(inner)
            except Crash:
                self.tags.append("crash-fired")
            except ValueError:
                pass
            CTL.arm_crash(None)
            self.restart()
            # a crashed ack may or may not have deleted the row: decide from the ledger
            self._account_ledger(op, acking=inner[0] == "ack")
            self._record(mop, "crashed")
            self.check_conservation(op)
            return
        mop = self._model_op(toks)
        out = self._act(toks)
        if toks[0] in ("dlq", "replay", "sweep"):
            self._after_call(self.producer)
        self._account_ledger(op, acking=toks[0] == "ack")
        self._record(mop, out)
        self.check_conservation(op)

    def _proc(self, w: int, fail: bool) -> None:
        """process_one on worker w = poll ; handler ; ack | reschedule(retry_delay)"""
        self.script = {"fail": fail}
        sc = self.script
        res = None
        try:
            res = self.workers[w].call(self.proc.process_one)
        except RuntimeError:
            res = "failed"
        except ValueError:
            res = "raised"
        if "rid" not in sc:   # no handler ran
            self._account_ledger("proc", acking=False)
            self._record(f"poll:{w}", "raised" if res == "raised" else "none")
            self.check_conservation(f"proc:{w}")
            return
        rid = sc["rid"]
        self.msgs[(w, rid)] = sc["msg"]     # the worker keeps the Message object its handler was given
        self.on_got(w, rid, sc["attempts"])
        self.ops.append(f"poll:{w}")
        self.outs.append(f"got:{rid}:{sc['tag']}:{sc['attempts']}#" + sc["state_in_handler"])
        self.on_release(w, rid, "reschedule" if fail else "ack")
        self._account_ledger("proc", acking=not fail)
        if fail:
            self._record(f"resched:{w}:{rid}:1", "ok")
        else:
            self._record(f"ack:{w}:{rid}", "ok")
        self.check_conservation(f"proc-{'fail' if fail else 'ok'}")


# ------------------------------------------------------------------------------------------------
# generation
# ------------------------------------------------------------------------------------------------

def gen_next(rng, bed: Bed, i: int, n: int) -> str:
    rows = bed.rows()
    dl = bed.dlq_rows()
    nw = bed.nworkers
    free_w = [w for w in range(nw) if w not in bed.parked]
    ids = [r["id"] for r in rows]
    held = [(rid, l["w"], l["live"]) for rid, ls in bed.leases.items() for l in ls]
    choices: list[tuple[float, str]] = []
    add = lambda wgt, op: choices.append((wgt, op))  # noqa: E731
    add(3.0 if len(rows) < 3 else 0.7, f"push:{1 if rng.random() < 0.2 else 0}")
    add(1.2 if len(rows) < 4 else 0.3, f"pusht:{rng.choice([1, 2, 3, 5, 10])}:{1 if rng.random() < 0.15 else 0}")
    add(0.25, "inject:2")   # kind 1 (invalid JSON) cannot be stored: the expression index on json_extract(payload) rejects it
    if free_w:
        w = rng.choice(free_w)
        add(3.0, f"poll:{w}")
        add(2.0, f"sel:{w}")
        add(1.2, f"proc:{w}:{'fail' if rng.random() < 0.6 else 'ok'}")
    for w in bed.parked:
        add(2.5, f"claim:{w}")
    for rid, w, live in held:
        if w in bed.parked:
            continue
        add(1.0, f"ack:{w}:{rid}")
        add(1.6, f"resched:{w}:{rid}:{1 if rng.random() < 0.3 else 0}")
        add(0.8, f"extend:{w}:{rid}")
    for (w, rid) in list(bed.msgs):   # a worker that released / lost the row still has its Message object (stale token)
        if w in free_w and not any(h[0] == rid and h[1] == w for h in held):
            add(0.5, f"resched:{w}:{rid}:{1 if rng.random() < 0.3 else 0}")
            add(0.4, f"extend:{w}:{rid}")
            add(0.2, f"ack:{w}:{rid}")
    if ids and free_w:   # calls with a hand-made Message by a worker that may never have polled the row (raw, no token)
        rid = rng.choice(ids)
        w = rng.choice(free_w)
        add(0.4, f"ack:{w}:{rid}")
        add(0.25, f"resched:{w}:{rid}:0")
        add(0.15, f"extend:{w}:{rid}")
    locked = [r["id"] for r in rows if r["lock"] == "h"]
    if locked:
        add(3.0, f"expire:{rng.choice(locked)}")
    undel = [r["id"] for r in rows if not r["deliv"]]
    if undel:
        add(2.0, f"mature:{rng.choice(undel)}")
    if ids:
        add(0.5, f"dlq:{rng.choice(ids)}")
    add(0.8, "sweep")
    if dl:
        add(1.5, f"replay:{rng.choice(dl)['did']}")
    if rng.random() < 0.05:
        add(1.0, f"replay:{rng.randint(1, 9)}")
        add(1.0, f"dlq:{rng.randint(1, 12)}")
    tot = sum(wg for wg, _ in choices)
    x = rng.random() * tot
    op = choices[-1][1]
    for wg, o in choices:
        x -= wg
        if x <= 0:
            op = o
            break
    kind = op.split(":")[0]
    if not bed.parked and kind in ("push", "pusht", "poll", "ack", "resched", "extend", "dlq", "sweep", "replay") and rng.random() < 0.07:
        # k = number of commits that complete before the process dies (k >= the op's commits: it dies right after)
        op = f"crash:{rng.choice([0, 0, 1, 1, 2])}:{op}"
    return op




class Pool:
    """worker threads shared by all scenarios of a run"""

    def __init__(self) -> None:
        self.workers = [Worker(f"w{i}") for i in range(3)]
        self.producer = Worker("prod")
        self.base = core.scratch_dir()

    def close(self) -> None:
        for w in [*self.workers, self.producer]:
            w.stop()
        shutil.rmtree(self.base, ignore_errors=True)


def run_fixed(pool: Pool, max_attempts: int, nworkers: int, ops: list[str]) -> Bed:
    """Execute a given harness-op list (replays, shrinking)."""
    bed = Bed(max_attempts, nworkers, pool.base, pool.workers, pool.producer)
    try:
        for op in ops:
            toks = op.split(":")
            # ops that cannot be executed in the current situation are skipped (keeps shrinking simple)
            w = None
            if toks[0] in ("sel", "poll", "proc", "ack", "resched", "extend"):
                w = int(toks[1])
            if toks[0] == "crash" and bed.parked:
                continue
            if w is not None and w in bed.parked:
                continue
            if toks[0] == "claim" and int(toks[1]) not in bed.parked:
                continue
            bed.step(op)
        finish(bed)
    finally:
        bed.close()
    return bed


def finish(bed: Bed) -> None:
    """end of a scenario: release parked workers, then drain — every row below the limit must be deliverable"""
    for w in list(bed.parked):
        bed.step(f"claim:{w}")
    rows = bed.rows()
    want = {r["id"] for r in rows if r["att"] < bed.max_attempts and r["bad"] == 0}
    for r in rows:
        if r["lock"] == "h":
            bed.step(f"expire:{r['id']}")
        if not r["deliv"]:
            bed.step(f"mature:{r['id']}")
    got = set()
    for _ in range(len(rows) + 1):
        before = len(bed.outs)
        bed.step("poll:0")
        o = bed.outs[before].split("#")[0]
        if o.startswith("got:"):
            got.add(int(o.split(":")[1]))
    missing = want - got
    if missing:
        bed.hit(f"rows {sorted(missing)} are unlocked, due and below the attempt limit but polling never returned them", "undeliverable")


def gen_scenario(rng, pool: Pool, thorough: bool) -> tuple[Bed, list[str]]:
    max_attempts = rng.choice([1, 2, 2, 3, 3, 3, 10])
    nworkers = rng.choice([2, 3])
    n = rng.randint(12, 40 if thorough else 30)
    bed = Bed(max_attempts, nworkers, pool.base, pool.workers, pool.producer)
    hops: list[str] = []
    try:
        for i in range(n):
            op = gen_next(rng, bed, i, n)
            hops.append(op)
            bed.step(op)
        finish(bed)
    finally:
        bed.close()
    return bed, hops


# ------------------------------------------------------------------------------------------------
# shrinking (delta debugging on the harness-op list)
# ------------------------------------------------------------------------------------------------

def shrink(pool: Pool, max_attempts: int, nworkers: int, hops: list[str], sig: str, budget: int = 120) -> list[str]:
    def fails(ops: list[str]) -> bool:
        try:
            b = run_fixed(pool, max_attempts, nworkers, ops)
        except Exception:
            return False
        return any(s == sig for _, s in b.hits)

    cur = list(hops)
    n = 2
    runs = 0
    while len(cur) >= 2 and runs < budget:
        chunk = max(1, len(cur) // n)
        reduced = False
        for i in range(0, len(cur), chunk):
            cand = cur[:i] + cur[i + chunk:]
            runs += 1
            if cand and fails(cand):
                cur = cand
                n = max(n - 1, 2)
                reduced = True
                break
            if runs >= budget:
                break
        if not reduced:
            if chunk == 1:
                break
            n = min(n * 2, len(cur))
    return cur


# ------------------------------------------------------------------------------------------------
# pairs: two queue operations of two connections on the SAME message; one of them (X) is parked before its k-th
# SQL statement / commit while the other (Y) runs completely, then X continues
# ------------------------------------------------------------------------------------------------

class Blocked(Exception):
    """the other connection holds SQLite's write lock: not an interleaving SQLite permits"""


ROLE_CLIENT = {"x": 0, "y": 1, "3": 2}      # x = caller of the split op, y = caller of the complete op, 3 = a bystander client


def _pair_states() -> dict[str, tuple[int, str | None, list[str]]]:
    """name -> (queue max_attempts, role that holds the Message object | None, setup ops); the one message is row 1, tag 0"""
    st: dict[str, tuple[int, str | None, list[str]]] = {
        "free": (3, None, ["push:0"]),                                       # in the queue, never delivered
        "exh-free": (1, None, ["push:0", "poll:2", "resched:2:1:0"]),        # attempts exhausted, released, waiting for the sweep
        "dlq": (3, None, ["push:0", "dlq:1"]),                               # parked in the DLQ (entry 1)
    }
    for role, c in ROLE_CLIENT.items():
        st[f"held-{role}"] = (3, role, ["push:0", f"poll:{c}"])                           # held, lock live
        st[f"lapsed-{role}"] = (3, role, ["push:0", f"poll:{c}", "expire:1"])            # held, lock lapsed
        st[f"exh-held-{role}"] = (1, role, ["push:0", f"poll:{c}"])                       # held on its FINAL attempt
        st[f"exh-lapsed-{role}"] = (1, role, ["push:0", f"poll:{c}", "expire:1"])        # final attempt, lock lapsed
    return st


PAIR_STATES = _pair_states()
PAIR_OPS = ("poll", "xpoll", "ack", "resched", "reschedd", "extend", "sweep", "dlq", "replay")


def pair_ops_for(state: str, actor: str, complete: bool) -> list[str]:
    """the operations `actor` (x | y) can apply to the message in `state`"""
    _, holder, _ = PAIR_STATES[state]
    ops = ["poll", "sweep", "replay" if state == "dlq" else "dlq"]
    if complete and state.startswith(("held", "exh-held")):
        # lock-expiry-then-poll.  As the SPLIT op it is `poll` in the matching lapsed-* state (the lapse is an event of
        # the environment, not a statement of the caller), so it is enumerated as the complete op only.
        ops.append("xpoll")
    if holder == actor:
        ops += ["ack", "resched", "reschedd", "extend"]
    return ops


def _model_group(op: str, c: int) -> str:
    return {"poll": f"poll:{c}", "xpoll": f"expire:1;poll:{c}", "ack": f"ack:{c}:1", "resched": f"resched:{c}:1:0",
            "reschedd": f"resched:{c}:1:1", "extend": f"extend:{c}:1", "sweep": "sweep", "dlq": "dlq:1", "replay": "replay:1"}[op]


class PairBed(Bed):
    """queue only (no store / processor); every connection labels its ledger entries with the operation it is executing"""

    def __init__(self, max_attempts: int, base: Path, workers: list[Worker], producer: Worker):
        self.who: dict[str, str] = {}
        super().__init__(max_attempts, 3, base, workers, producer)
        self.admin.execute("PRAGMA busy_timeout = 0")
        self.admin.create_function("v_who", 0, lambda: "admin")
        self.admin.executescript("""
            CREATE TABLE v_pl(seq INTEGER PRIMARY KEY AUTOINCREMENT, tbl TEXT, op TEXT, rid INTEGER, payload TEXT, who TEXT);
            CREATE TRIGGER v_pq_ins AFTER INSERT ON queue_messages BEGIN
              INSERT INTO v_pl(tbl,op,rid,payload,who) VALUES('q','ins',NEW.id,NEW.payload,v_who()); END;
            CREATE TRIGGER v_pq_del AFTER DELETE ON queue_messages BEGIN
              INSERT INTO v_pl(tbl,op,rid,payload,who) VALUES('q','del',OLD.id,OLD.payload,v_who()); END;
            CREATE TRIGGER v_pd_ins AFTER INSERT ON queue_messages_dlq BEGIN
              INSERT INTO v_pl(tbl,op,rid,payload,who) VALUES('d','ins',NEW.id,NEW.payload,v_who()); END;
            CREATE TRIGGER v_pd_del AFTER DELETE ON queue_messages_dlq BEGIN
              INSERT INTO v_pl(tbl,op,rid,payload,who) VALUES('d','del',OLD.id,OLD.payload,v_who()); END;
        """)
        self.xstmts: list[str] = []
        self.pair_out: str | None = None       # "<out of X>,<out of Y>#<durable state>"
        self.pair_status = "not-run"           # done | blocked
        self.parked_at: str | None = None

    def _build(self) -> None:
        from stabilize import SqliteQueue

        q = SqliteQueue(self.cs, table_name="queue_messages", lock_duration=HOUR, max_attempts=self.max_attempts)
        self.queue = q
        self.script = None
        who = self.who

        def mk(name: str):
            def f():
                if name == "prod":
                    q._create_table()
                c = q._get_connection()
                c.execute("PRAGMA busy_timeout = 0")       # a writer that meets the other connection's lock fails at once
                c.create_function("v_who", 0, lambda: who.get(name, name))
            return f

        self.producer.call(mk("prod"))
        for i, w in enumerate(self.workers[: self.nworkers]):
            w.call(mk(str(i)))

    # ---- one operation of client c ------------------------------------------------------------------
    def _pair_fn(self, c: int, op: str):
        q = self.queue
        if op in ("poll", "xpoll"):
            return q.poll_one
        if op == "ack":
            return lambda: q.ack(self._msg(1, c))
        if op in ("resched", "reschedd"):
            return lambda: q.reschedule(self._msg(1, c), HOUR if op == "reschedd" else timedelta(0))
        if op == "extend":
            return lambda: q.extend_lock(self._msg(1, c))
        if op == "sweep":
            return q.check_and_move_expired
        if op == "dlq":
            return lambda: q.move_to_dlq(1, "verif")
        if op == "replay":
            return lambda: q.replay_dlq(1)
        raise core.Infra(f"unknown pair op {op}")

    def _pair_post(self, c: int, op: str, val) -> str:
        """caller-visible outcome + what the caller now believes about holding the row"""
        if op in ("poll", "xpoll"):
            if val is None:
                return "none"
            rid = int(val.message_id)
            self.msgs[(c, rid)] = val
            self.on_got(c, rid, val.attempts)
            return f"got:{rid}:{_tag_of(val.execution_id)}:{val.attempts}"
        if op == "ack":
            self.on_release(c, 1, "ack")
            return "ok"
        if op in ("resched", "reschedd"):
            self.on_release(c, 1, "reschedule")
            return "ok"
        if op == "extend":
            if val:
                for l in self.leases.get(1, []):
                    if l["w"] == c and not l["live"]:
                        l["live"] = True
                        l["revived"] = True
            return "1" if val else "0"
        if op == "sweep":
            return f"n{val}"
        if op == "dlq":
            return "ok"
        return "1" if val else "0"

    def _expire_by_admin(self) -> None:
        try:
            self.admin.execute("UPDATE queue_messages SET locked_until = ? WHERE id = 1 AND locked_until IS NOT NULL "
                               "AND NOT (datetime(locked_until) < datetime('now','utc'))", (PAST,))
        except sqlite3.OperationalError as e:
            if "locked" in str(e):
                raise Blocked() from None
            raise
        for l in self.leases.get(1, []):
            l["live"] = False
            l["revived"] = False

    def _unlock(self, w: Worker) -> None:
        q = self.queue

        def f():
            c = q._get_connection()
            if c.in_transaction:
                c.rollback()

        w.call(f)

    def _run_complete(self, c: int, op: str) -> str:
        """client c runs `op` from start to end; Blocked if it meets the parked client's write lock"""
        w = self.workers[c]
        self.who[str(c)] = f"{c}:{op}"
        pre = ""
        if op == "xpoll":
            self._expire_by_admin()
            pre = "ok+"
        try:
            val = w.call(self._pair_fn(c, op))
        except sqlite3.OperationalError as e:
            self._unlock(w)
            if "locked" in str(e):
                raise Blocked() from None
            raise
        self._after_call(w)
        return pre + self._pair_post(c, op, val)

    def pair(self, xop: str, yop: str, k: int | None, say=None) -> None:
        """X = client 0 parked before its k-th statement (None: never), Y = client 1 complete; then the oracles"""
        say = say or (lambda s: None)
        wx, wy = self.workers[0], self.workers[1]
        self.pseq = self.admin.execute("SELECT COALESCE(MAX(seq), 0) FROM v_pl").fetchone()[0]
        self.ledger_since()
        nh0 = len(self.hits)
        cnt = {"i": 0}

        def point(label: str) -> None:
            i = cnt["i"]
            cnt["i"] += 1
            self.xstmts.append(label)
            if k is not None and i == k:
                say(f"  X parked before its statement {i}: {label}")
                wx.park_here({"k": i, "at": label})
            say(f"  X stmt {i}: {label}")

        CTL.gates[wx.ident] = lambda sql, params: point(" ".join(sql.split())[:100])
        CTL.commit_gates[wx.ident] = lambda: point("COMMIT")
        self.who["0"] = f"0:{xop}"
        outy = None
        blocked = False
        try:
            wx.start_call(self._pair_fn(0, xop))
            kind, val = wx.wait_parked_or_done()
            if kind == "parked":
                self.parked_at = val["at"]
                try:
                    outy = self._run_complete(1, yop)
                    say(f"  Y {yop} (complete, client 1) -> {outy}   [{self.state_line()}]")
                except Blocked:
                    blocked = True
                    say(f"  Y {yop} meets X's write lock (database is locked): SQLite does not permit this interleaving")
                wx.resume()
                kind, val = wx.wait_parked_or_done()
        finally:
            CTL.gates.pop(wx.ident, None)
            CTL.commit_gates.pop(wx.ident, None)
        self._after_call(wx)
        outx = self._pair_post(0, xop, val)
        say(f"  X {xop} (client 0) -> {outx}")
        if blocked:
            self.pair_status = "blocked"
            return
        if outy is None:
            outy = self._run_complete(1, yop)
            say(f"  Y {yop} (complete, client 1, after X returned) -> {outy}")
        # ---- ledger: a row deleted from the queue table by a connection executing `ack` is an acknowledgement
        led = self.admin.execute("SELECT tbl, op, payload, who FROM v_pl WHERE seq > ? ORDER BY seq", (self.pseq,)).fetchall()
        self.ledger_since()
        for tbl, kind2, pl, who in led:
            if tbl == "q" and kind2 == "del" and who.endswith(":ack"):
                self.acked.append(_tag_of(pl))
        self.pair_status = "done"
        self.pair_out = f"{outx},{outy}#{self.state_line()}"
        say(f"  final: {self.pair_out}")
        # ---- oracles of the property as stated -------------------------------------------------------------
        name = f"{xop}-{yop}"
        at = f"X={xop} parked before `{self.parked_at}`, Y={yop} complete, then X resumed" if self.parked_at else f"X={xop} then Y={yop}"
        for t in range(self.next_tag):
            inq = [r["tag"] for r in self.rows()].count(t)
            ind = [d["tag"] for d in self.dlq_rows()].count(t)
            ack = self.acked.count(t)
            where = f"{inq} queue row(s), {ind} DLQ entr(y/ies), acknowledged {ack}x"
            if t != 0:
                if (inq, ind, ack) != (1, 0, 0):
                    self.hit(f"bystander message t{t}, which neither operation addresses, is affected: {where} ({at})", f"pair:bystander-affected:{name}")
            elif inq + ind + ack == 0:
                self.hit(f"message t0 is in none of queue / DLQ / acknowledged ({at})", f"pair:lost:{name}")
            elif inq + ind + ack > 1:
                if ack and ind:
                    self.hit(f"message t0 was acknowledged by its holder AND is parked in the DLQ: {where} ({at})", "pair:acked-and-parked")
                elif ack and inq:
                    self.hit(f"message t0 was acknowledged by its holder AND is in the queue again: {where} ({at})", "pair:acked-and-requeued")
                else:
                    self.hit(f"message t0 is in {inq + ind + ack} places: {where} ({at})", f"pair:duplicated:{name}")
        moved_back = sum(1 for tbl, kind2, _pl, who in led if tbl == "d" and kind2 == "del")
        wins = [o for o, p in ((xop, outx), (yop, outy)) if o == "replay" and p == "1"]
        if len(wins) > moved_back:
            self.hit(f"{len(wins)} replay_dlq(1) calls returned True but only {moved_back} DLQ entr(y/ies) left the DLQ ({at})", "pair:two-winners:replay")
        if xop == "poll" and yop == "poll" and outx.startswith("got:") and outy.startswith("got:") and outx.split(":")[2] == outy.split(":")[2]:
            self.hit(f"both poll_one calls returned message t0 with no lapse in between ({at})", "pair:two-winners:poll")
        live = sorted({l["w"] for ls in self.leases.values() for l in ls if l["live"]})
        for i in range(nh0, len(self.hits)):
            if self.hits[i][1].startswith("held-row-claimed"):
                self.hits[i] = (self.hits[i][0] + f" ({at})", f"pair:two-holders:{name}")
        rows_now = {r["id"]: r for r in self.rows()}
        for rid, ls in self.leases.items():
            for l in ls:
                if l["live"] and not l["revived"] and rid in rows_now and rows_now[rid]["lock"] != "h":
                    self.hit(f"client {l['w']} holds row {rid} (claimed it, lock not lapsed, not released) but the row's lock is "
                             f"`{rows_now[rid]['lock']}`: any poller can claim it now ({at})", f"pair:holder-lost-lock:{name}")
        if len(live) > 1 and not any(s.startswith("pair:two-holders") for _, s in self.hits[nh0:]):
            self.hit(f"clients {live} both believe they hold the row (lock not lapsed, not released) ({at})", f"pair:two-holders:{name}")


PAIR_VARIANTS = ("plain", "bystander", "retry")


def pair_setup(sc: dict) -> tuple[int, list[str]]:
    """(queue max_attempts, setup ops) of a schedule.  Variants: `bystander` = a second, delayed message (row 2) that no
    operation of the pair may touch; `retry` = the message already failed once (limit one higher), so `exh-*` is the
    final attempt after a retry and every client-2 Message object is a stale one"""
    m, _holder, setup = PAIR_STATES[sc["state"]]
    v = sc.get("variant", "plain")
    if v == "bystander":
        setup = [setup[0], "push:1", *setup[1:]]
    elif v == "retry":
        m, setup = m + 1, [setup[0], "poll:2", "resched:2:1:0", *setup[1:]]
    elif v != "plain":
        raise core.Infra(f"unknown pair variant {v}")
    return m, setup


def _describe(sc: dict) -> str:
    m, setup = pair_setup(sc)
    return (f"SqliteQueue(max_attempts={m}); setup {';'.join(setup)} (one message = row 1; client w = its own connection); X = {sc['x']} by client 0 "
            + ("runs completely, then" if sc["k"] is None else f"is parked before its SQL statement #{sc['k']} (0-based, COMMIT counts), then")
            + f" Y = {sc['y']} by client 1 runs completely" + ("" if sc["k"] is None else ", then X resumes"))


def run_pair(pool: Pool, sc: dict, trace: list[str] | None = None) -> PairBed:
    """sc = {state, x, y, k[, variant]}: X = sc.x by client 0 parked before its k-th statement (null = never parked: X;Y;
    0 = before its first statement: Y;X), Y = sc.y by client 1, run completely while X is parked"""
    m, setup = pair_setup(sc)
    bed = PairBed(m, pool.base, pool.workers, pool.producer)
    say = (lambda s: trace.append(s)) if trace is not None else None
    try:
        for op in setup:
            bed.step(op)
            if say:
                say(f"  setup {op:18s} -> {bed.outs[-1]}")
        bed.setup_ops = list(bed.ops)
        bed.pair(sc["x"], sc["y"], sc["k"], say)
    finally:
        for w in (pool.workers[0], pool.workers[1]):
            CTL.gates.pop(w.ident, None)
            CTL.commit_gates.pop(w.ident, None)
        bed.close()
    return bed


def _pair_lines(bed: PairBed, sc: dict) -> list[str]:
    """model requests: the two sequential orders and — for a poll parked between its SELECT and its claim UPDATE — the
    model's own split of that poll (`sel; Y; claim`); the answer is `<out X>,<out Y>#<state>` in all of them"""
    base = f"queue {bed.max_attempts} {';'.join(bed.setup_ops)} {_model_group(sc['x'], 0)} {_model_group(sc['y'], 1)}"
    cands = [base + " ab", base + " ba"]
    if sc["x"] == "poll" and (bed.parked_at or "").startswith("UPDATE"):
        cands.append(base + " split")
    return cands


def _mask(o: str) -> str:
    """check_and_move_expired returns the number of rows its SELECT saw, not the number it moved (see ASSUMPTIONS)"""
    head, _, st = o.partition("#")
    return re.sub(r"\bn\d+", "n", head) + "#" + st


def _no_timing(o: str) -> str:
    """drop what derives from deliver_at (the deliverable flag of each row, the delivery order)"""
    head, rows, dlq, _order, acked = _mask(o).split("#")
    rows = ",".join(r.rsplit(".", 1)[0] for r in rows.split(",")) if rows != "-" else "-"
    return "#".join([head, rows, dlq, acked])


def pair_space(variant: str = "plain"):
    for state in PAIR_STATES:
        for x in pair_ops_for(state, "x", False):
            for y in pair_ops_for(state, "y", True):
                yield {"state": state, "x": x, "y": y} | ({"variant": variant} if variant != "plain" else {})


def run_pair_family(pool: Pool, fam: dict, on_bed, ks: list[int] | None = None, trace: list[str] | None = None) -> None:
    """all schedules of one (state, X, Y): X;Y, Y;X, then X parked before each of its statements / its commit (or only
    before those in `ks`).  The sequential-order oracle needs the first two, so they are always run."""
    fam = {k: v for k, v in fam.items() if k != "k"}
    b_xy = run_pair(pool, fam | {"k": None})
    on_bed(fam | {"k": None}, b_xy, None)
    b_yx = run_pair(pool, fam | {"k": 0})
    on_bed(fam | {"k": 0}, b_yx, None)
    refs = [b.pair_out for b in (b_xy, b_yx) if b.pair_out is not None]
    for k in range(1, len(b_xy.xstmts)):
        if ks is not None and k not in ks:
            continue
        sc = fam | {"k": k}
        bed = run_pair(pool, sc, trace)
        if bed.pair_status == "done" and _mask(bed.pair_out) not in [_mask(r) for r in refs]:
            if _no_timing(bed.pair_out) in [_no_timing(r) for r in refs]:
                # same places, same holder, same return values; only deliver_at differs (a delay that is skipped or kept)
                bed.tags.append(f"timing-only-difference:{sc['x']}-{sc['y']}")
                bed.timing_only = True
            elif not any(sg.startswith("pair:") for _, sg in bed.hits):     # otherwise a consequence of what was already reported
                bed.hit(f"interleaved outcome {bed.pair_out} is the outcome of neither sequential order "
                        f"(X;Y = {b_xy.pair_out}, Y;X = {b_yx.pair_out}); X={sc['x']} parked before `{bed.parked_at}`, Y={sc['y']}",
                        f"pair:outcome-not-sequential:{sc['x']}-{sc['y']}")
        on_bed(sc, bed, refs)


def _pair_suite(ctx, pool: Pool, variants: list[str]) -> None:
    """exhaustive: every state x every applicable ordered pair x every statement index of the split op"""
    inputs, cands, impl = [], [], []
    st = {"n": 0, "blocked": 0, "inside": 0}
    per_op: dict[str, list[str]] = {}
    timing_only: list[dict] = []

    def on_bed(sc: dict, bed: PairBed, refs) -> None:
        st["n"] += 1
        ctx.count(["pair", sc], nontrivial=True)
        ctx.tag(f"pair:{bed.pair_status}", f"pair:state:{sc['state']}", f"pair:x:{sc['x']}", f"pair:y:{sc['y']}")
        for t in bed.tags:
            ctx.tag("pair:" + t)
        if sc["k"] is None and sc.get("variant") is None:
            per_op[f"{sc['state']}:{sc['x']}"] = [re.sub(r"\s+", " ", x)[:60] for x in bed.xstmts]
        if bed.pair_status == "blocked":
            st["blocked"] += 1
            ctx.tag("pair:blocked-at:" + ("COMMIT" if bed.parked_at == "COMMIT" else "statement-after-first-write"))
            return
        ctx.tag("pair:split-inside-X" if sc["k"] else "pair:sequential-order")
        st["inside"] += 1 if sc["k"] else 0
        for what, sig in bed.hits:
            ctx.violation(what, sig, {"pair": sc, "reads_as": _describe(sc)})
        if getattr(bed, "timing_only", False):
            timing_only.append({"pair": sc, "outcome": bed.pair_out, "sequential": refs})
        inputs.append({"pair": sc})
        cands.append(_pair_lines(bed, sc))
        impl.append(_mask(bed.pair_out))
        if len([x for x in ctx.samples if "pair" in x]) < 2 and sc["k"]:
            ctx.sample({"suite": "queue-pairs", "pair": sc, "x_statements": bed.xstmts, "parked_before": bed.parked_at, "outcome": bed.pair_out})

    for v in variants:
        for fam in pair_space(v):
            run_pair_family(pool, fam, on_bed)
    ctx.extra["pair_schedules"] = st["n"]
    ctx.extra["pair_schedules_inside_the_split_op"] = st["inside"]
    ctx.extra["pair_schedules_blocked_by_sqlite_write_lock"] = st["blocked"]
    ctx.extra["pair_statements_of_the_split_op"] = per_op
    ctx.extra["pair_timing_only_differences"] = timing_only
    # the ASSUMPTION that lets `Y contiguous` stand for all two-connection interleavings, checked on the measured statement lists
    odd = {}
    for key, stmts in per_op.items():
        kinds = ["c" if x == "COMMIT" else "r" if x.upper().startswith("SELECT") else "w" for x in stmts]
        first_w = kinds.index("w") if "w" in kinds else len(kinds)
        if kinds.count("c") > 1 or "r" in kinds[first_w:]:
            odd[key] = stmts
    ctx.extra["pair_ops_not_reads_then_one_write_transaction"] = odd
    if odd:
        ctx.notes.append(f"pair suite: {sorted(odd)} are not `reads, then one write transaction`; schedules that split BOTH operations are not enumerated")
    # model tie: the outcome must be the model's outcome of ONE of the two sequential orders (or of the model's own
    # SELECT / claim split of a poll).  The harness proposes which (the one that matches, else X;Y); ctx.correspond
    # checks the equality on that line.
    flat = [l for c in cands for l in c]
    out = ctx.lean(flat)
    chosen = []
    pos = 0
    for c, o in zip(cands, impl):
        pick = c[0]
        if out is not None:
            outs = out[pos:pos + len(c)]
            for line, mo in zip(c, outs):
                if mo == o:
                    pick = line
                    break
            ctx.tag("pair:model-order:" + {"ab": "X;Y", "ba": "Y;X", "split": "sel;Y;claim"}[pick.rsplit(" ", 1)[1]])
            if outs[0] != outs[1]:
                ctx.tag("pair:model-orders-differ")
        pos += len(c)
        chosen.append(pick)
    ctx.correspond("queue-pairs", inputs, chosen, impl)


# ------------------------------------------------------------------------------------------------
# entry points
# ------------------------------------------------------------------------------------------------

def _nontrivial(ops: list[str]) -> bool:
    ks = {o.split(":")[0] for o in ops}
    return bool(ks & {"sel", "crash", "dlq", "replay", "sweep"}) or any("stale" in o for o in ops)


def _report(ctx, pool: Pool, bed: Bed, hops: list[str], do_shrink: bool = True) -> None:
    seen = set()
    for what, sig in bed.hits:
        if sig in seen:
            continue
        seen.add(sig)
        ops = hops
        if do_shrink and not any(h["signature"] == sig for h in ctx.monitor_hits):
            ops = shrink(pool, bed.max_attempts, bed.nworkers, hops, sig)
            b2 = run_fixed(pool, bed.max_attempts, bed.nworkers, ops)
            w2 = [w for w, s in b2.hits if s == sig]
            what = w2[0] if w2 else what
        ctx.violation(what, sig, {"max_attempts": bed.max_attempts, "nworkers": bed.nworkers, "ops": ops})


def _suite(ctx, pool: Pool, n: int, name: str) -> None:
    inputs, lines, impl = [], [], []
    for _ in range(n):
        bed, hops = gen_scenario(ctx.rng, pool, ctx.thorough)
        ctx.count([bed.max_attempts, bed.ops], nontrivial=_nontrivial(bed.ops) and len(bed.ops) >= 8)
        for o in bed.ops:
            ctx.tag("op:" + (o.split(":")[0] if not o.startswith("crash") else "crash-" + o.split(":")[2]))
        for o in bed.outs:
            ctx.tag("out:" + re.sub(r"\d+", "", o.split("#")[0]))
        for t in bed.tags:
            ctx.tag(t)
        inputs.append({"max_attempts": bed.max_attempts, "nworkers": bed.nworkers, "ops": hops})
        lines.append(f"queue {bed.max_attempts} " + ";".join(bed.ops))
        impl.append("|".join(bed.outs))
        if len(ctx.samples) < 3:
            ctx.sample({"suite": name, "max_attempts": bed.max_attempts, "ops": bed.ops[:14], "last": bed.outs[-1]})
        if bed.hits:
            _report(ctx, pool, bed, hops)
    ctx.correspond(name, inputs, lines, impl)


def _run_replays(ctx, pool: Pool) -> None:
    d = core.VERIF / "replays" / "C08"
    if not d.is_dir():
        return
    inputs, lines, impl = [], [], []
    for f in sorted(d.glob("*.json")):
        body = json.loads(f.read_text())
        r = body.get("replay", body)
        if "proc" in r:
            continue        # threaded-processor scenarios are run with the others by harness/queue_proc.py
        if "pair" in r:
            hits: list = []

            def on_bed(sc, pb, refs, hits=hits):
                ctx.count(["pair-replay", sc])
                ctx.tag("replay-file")
                for what, sig in pb.hits:
                    hits.append(sig)
                    ctx.violation(what, sig, {"pair": sc})

            run_pair_family(pool, r["pair"], on_bed, ks=[r["pair"]["k"]] if r["pair"].get("k") else [])
            if not hits and body.get("expect") == "violation":
                ctx.notes.append(f"replay {f.name}: the recorded finding no longer reproduces (fixed?)")
            continue
        bed = run_fixed(pool, r["max_attempts"], r.get("nworkers", 3), r["ops"])
        ctx.count([r["max_attempts"], bed.ops])
        ctx.tag("replay-file")
        inputs.append({"file": f.name})
        lines.append(f"queue {bed.max_attempts} " + ";".join(bed.ops))
        impl.append("|".join(bed.outs))
        if bed.hits:
            _report(ctx, pool, bed, r["ops"], do_shrink=False)
        elif body.get("expect") == "violation":
            ctx.notes.append(f"replay {f.name}: the recorded finding no longer reproduces (fixed?)")
    if lines:
        ctx.correspond("replays", inputs, lines, impl)


def _quiet() -> None:
    import logging

    logging.getLogger("stabilize").setLevel(logging.CRITICAL)


def run(ctx) -> None:
    install()
    _quiet()
    from harness import queue_proc

    threaded = queue_proc.start(ctx)          # real QueueProcessor.start()/stop() scenarios in worker processes, overlapped with the suites below
    pool = Pool()
    try:
        _run_replays(ctx, pool)
        _pair_suite(ctx, pool, list(PAIR_VARIANTS) if ctx.thorough else ["plain"])
        ctx.extra["pair_space_enumerated_completely"] = True     # (the op-sequence space below is sampled)
        _suite(ctx, pool, ctx.n(1200, 9000), "queue-mode-a")
        ctx.extra["dangling_write_txn_after_not_found"] = ctx.tags.get("dangling-write-txn-after-not-found", 0)
        queue_proc.finish(ctx, threaded)
        threaded = None
    finally:
        pool.close()
        if threaded is not None:
            threaded["pool"].terminate()


def search(ctx) -> None:
    """larger budget, monitors only"""
    install()
    _quiet()
    pool = Pool()
    try:
        for _ in range(ctx.n(1500, 6000)):
            bed, hops = gen_scenario(ctx.rng, pool, True)
            ctx.count([bed.max_attempts, bed.ops])
            new = [s for _, s in bed.hits if not any(h["signature"] == s for h in ctx.monitor_hits)]
            if bed.hits:
                _report(ctx, pool, bed, hops)
            known = {k["signature"] for k in core.load_known() if k.get("property") == "C08"}
            if any(s not in known for s in new):
                return
    finally:
        pool.close()


def _replay_pair(ctx, pool: Pool, sc: dict) -> int:
    m, setup = pair_setup(sc)
    print(f"pair schedule: state `{sc['state']}` (SqliteQueue(max_attempts={m}); setup {setup}), X = {sc['x']} by client 0, "
          f"Y = {sc['y']} by client 1, X parked before its statement k={sc['k']}" + (f", variant {sc['variant']}" if sc.get("variant") else ""))
    trace: list[str] = []
    failed = []
    beds = []

    def on_bed(s2, bed, refs):
        beds.append((s2, bed))
        for what, sig in bed.hits:
            failed.append((s2, what, sig))

    run_pair_family(pool, sc, on_bed, ks=[sc["k"]] if sc.get("k") else [], trace=trace)
    for s2, bed in beds[:2]:
        print(f"  sequential {'X;Y' if s2['k'] is None else 'Y;X'}: {bed.pair_out}")
    for line in trace:
        print(line)
    for s2, what, sig in failed:
        print(f"PROPERTY FAILS (k={s2['k']}): {what}  [{sig}]")
    s2, bed = beds[-1]
    if bed.pair_status == "done":
        cands = _pair_lines(bed, s2)
        model = ctx.lean(cands)
        if model is not None:
            for c, mo in zip(cands, model):
                print(f"  model {c.rsplit(' ', 1)[1]:5s}: {mo}" + ("   <-- equals the implementation's outcome" if mo == _mask(bed.pair_out) else ""))
    else:
        print(f"  schedule status: {bed.pair_status}")
    return 1 if failed else 0


def replay(ctx, body) -> int:
    install()
    _quiet()
    pool = Pool()
    try:
        r = body.get("replay", body)
        if "proc" in r:
            from harness import queue_proc

            return queue_proc.replay(ctx, r["proc"])
        if "pair" in r:
            return _replay_pair(ctx, pool, r["pair"])
        bed = Bed(r["max_attempts"], r.get("nworkers", 3), pool.base, pool.workers, pool.producer)
        try:
            for op in r["ops"]:
                nh = len(bed.hits)
                no = len(bed.outs)
                bed.step(op)
                print(f"  {op:28s} -> " + " ; ".join(o.split('#')[0] + "  [" + o.split('#')[1] + "]" for o in bed.outs[no:]))
                for what, sig in bed.hits[nh:]:
                    print(f"PROPERTY FAILS at step `{op}`: {what}  [{sig}]")
            nh = len(bed.hits)
            finish(bed)
            for what, sig in bed.hits[nh:]:
                print(f"PROPERTY FAILS in the final drain: {what}  [{sig}]")
        finally:
            bed.close()
        model = ctx.lean([f"queue {bed.max_attempts} " + ";".join(bed.ops)])
        if model is not None:
            same = model[0] == "|".join(bed.outs)
            print("model agrees with the implementation on this trace:", same)
        return 1 if bed.hits else 0
    finally:
        pool.close()
