"""C12 — replaying the event log reproduces the stored state."""
from __future__ import annotations

import hashlib
import json
import re
import shutil
from pathlib import Path
from typing import Any

RULE = ("real: generated workflows (1-5 stages, chains/diamonds/fan-out, 1-3 tasks per stage, task outcomes success/terminal/"
        "failed-continue/stopped/skipped/canceled/raise, stageEnabled=false skips, continuePipelineOnFailure, CancelWorkflow injected "
        "at a random step, 1-2 workflows interleaved in one file so per-workflow sequences have gaps) run on the real store+queue+"
        "processor with the event store in the same SQLite file, delivery order FIFO or randomly reordered; for EVERY as_of value "
        "(0, every sequence, every gap, max+1, None) and EVERY snapshot position the real EventReplayer is compared with the Lean "
        "`rebuild`; synthetic: random event lists (all 21 event types on all 3 entity kinds, unknown entities, TASK_RETRIED, context "
        "updates, arbitrary snapshot states) appended through the real SqliteEventStore. A case is distinct by its canonical "
        "(event list, query) and non-trivial when the log has >= 4 events and the query is not the empty prefix. "
        "PLUS real workflows with pre-declared synthetic STAGE_BEFORE / STAGE_AFTER children (1-3 top-level stages, chain or parallel roots, 0-2 tasks per parent, 1-2 children of either kind "
        "with one task each, all task outcomes, stageEnabled=false, continuePipelineOnFailure, cancel at a random step, 1-2 workflows per file, FIFO or reordered): 4 fixed + n_real/2 "
        "generated scenarios through the same run_real (final replayed status vs store for the workflow, every stage - children included - and every task; every as_of, every snapshot "
        "position, model correspondence of the log); signatures of these runs are prefixed synth:.")
ASSUMPTIONS = [
    "crash-free runs (the property's quantifier); jump loops are not generated (outside the log per the property text)",
    "no event migration is registered (EventMigrator is the identity, as shipped)",
    "synthetic-stage workloads: children are ordinary stage entities of the log (refs w<i>s<idx> after the top-level ones); a signature adjudicated as a real defect and awaiting a decision "
    "(synth_suites.PENDING; now: S10, a parent marked TERMINAL by ContinueParentStage has no stage event) is evaluated but REPORTED only with VERIF_SYNTH_PENDING=1",
    "retry_count values are JSON integers",
    "the snapshot handed to create_workflow_snapshot is the dict returned by rebuild_workflow_state (or, synthetic, any dict with all keys)",
]
TRUSTED_BASE = [
    "events/replay.py fold and rebuild are modelled by hand (Stab.Replay) and tied by the generated fold table (decide) + Mode A",
    "SQLite returns `ORDER BY sequence ASC` rows in strictly increasing sequence; sequence is the INTEGER PRIMARY KEY",
    "harness/evsrc.py builds the synthetic children as the repo's tests do and attributes every durable status change to the delivered message (SQL triggers + per-delivery bookkeeping)",
    "canonicalisation: ids -> refs, timestamps -> ordinals t<i>, non-scalar JSON values -> sha1 tokens",
    "engine-level theorem replay_agrees_on_covered is over an abstract history of (status write, recorded event) steps; that the handlers "
    "produce such histories is checked only by the Mode-A monitor (replayed status == store status on every generated run)",
]

SAFE = re.compile(r"^[A-Za-z_][A-Za-z0-9_.-]*$")
ETYPES = ["WORKFLOW_CREATED", "WORKFLOW_STARTED", "WORKFLOW_COMPLETED", "WORKFLOW_FAILED", "WORKFLOW_CANCELED", "WORKFLOW_PAUSED",
          "WORKFLOW_RESUMED", "STAGE_STARTED", "STAGE_COMPLETED", "STAGE_FAILED", "STAGE_SKIPPED", "STAGE_CANCELED", "TASK_STARTED",
          "TASK_COMPLETED", "TASK_FAILED", "TASK_RETRIED", "STATUS_CHANGED", "CONTEXT_UPDATED", "OUTPUTS_UPDATED", "JUMP_EXECUTED", "CUSTOM"]
KIND_LETTER = {"workflow": "W", "stage": "S", "task": "T"}

# signatures of the known findings (development-time entries in known_findings.json)
SIG_F3 = "snapshot-drops:end_time,start_time"
SIG_F8A = "replay-mismatch:task:store=CANCELED:replay=RUNNING:canceled-by-CancelStage"
SIG_F8A2 = "replay-mismatch:task:store=CANCELED:replay=ABSENT:canceled-by-CancelStage"
SIG_F8B = "replay-mismatch:task:store=SKIPPED:replay=RUNNING:CompleteTask(SKIPPED)"


# --------------------------------------------------------------------------------------
# canonicalisation shared by both sides
# --------------------------------------------------------------------------------------

class Tok:
    def __init__(self, refs: dict[str, str], stamps: list[str]):
        self.refs = refs
        self.stamps = {s: f"t{i}" for i, s in enumerate(sorted(set(stamps)))}

    def __call__(self, v: Any) -> str:
        if v is None:
            return "null"
        if isinstance(v, bool):
            return "b_true" if v else "b_false"
        if isinstance(v, int):
            return str(v) if v >= 0 else "h_" + hashlib.sha1(str(v).encode()).hexdigest()[:10]
        if isinstance(v, str):
            if v in self.refs:
                return self.refs[v]
            if v in self.stamps:
                return self.stamps[v]
            if SAFE.match(v) and v != "null" and not v.startswith(("h_", "b_")) and not re.fullmatch(r"t\d+", v) and len(v) <= 40:
                return v
        return "h_" + hashlib.sha1(json.dumps(v, sort_keys=True, default=str).encode()).hexdigest()[:10]

    def key(self, k: str) -> str:
        return k if SAFE.match(k) else "h_" + hashlib.sha1(k.encode()).hexdigest()[:10]


def show_dict(d: dict, tok: Tok) -> str:
    return ",".join(f"{tok.key(k)}={tok(v)}" for k, v in d.items()) or "-"


def show_ents(m: dict, tok: Tok) -> str:
    return "/".join(f"{tok(i)}>{show_dict(d, tok)}" for i, d in m.items()) or "-"


def show_state(st: dict, tok: Tok) -> str:
    return ";".join([tok(st.get("status")), tok(st.get("application")), tok(st.get("name")), tok(st.get("start_time")),
                     tok(st.get("end_time")), show_dict(st.get("context") or {}, tok), show_ents(st.get("stages") or {}, tok),
                     show_ents(st.get("tasks") or {}, tok)])


def event_line(r: dict, tok: Tok) -> str:
    data = {k: v for k, v in r["data"].items() if k != "context"}
    ctx = "none"
    if "context" in r["data"]:
        ctx = show_dict(r["data"]["context"], tok)
    et = r["event_type"]
    return ":".join([str(r["sequence"]), KIND_LETTER[r["entity_type"]], tok(r["entity_id"]), et, tok(r["timestamp"]),
                     show_dict(data, tok), ctx])


def loads_times_flag(ctx) -> bool:
    try:
        import translate.event_map as em

        return "start_time" in em.extract()["snapshot_loaded"] and "end_time" in em.extract()["snapshot_loaded"]
    except Exception as e:  # the translator's failure is already a proof problem
        ctx.notes.append(f"event_map translator failed in harness: {e}")
        return False


# --------------------------------------------------------------------------------------
# implementation side: all as-of / snapshot queries on one workflow's log
# --------------------------------------------------------------------------------------

def query_plan(seqs: list[int], rng, full: bool) -> list[tuple[int | None, int | None]]:
    """(snapshot position | None, as_of | None) pairs."""
    pts = sorted(set([0] + seqs + [s + 1 for s in seqs]))
    asofs: list[int | None] = [None] + pts
    plan: list[tuple[int | None, int | None]] = [(None, a) for a in asofs]
    for k in pts:
        if full or len(pts) <= 26:
            plan += [(k, a) for a in asofs]
        else:
            nxt = next((s for s in seqs if s > k), k + 1)
            plan += [(k, a) for a in sorted({k - 1 if k else 0, k, nxt, pts[-1]})] + [(k, None)]
    have = {a for k, a in plan if k is None}
    plan = [(None, a) for a in sorted({a for k, a in plan if a is not None and a not in have})] + plan
    # queries that share a snapshot are issued against ONE long-lived SnapshotStore / EventReplayer without re-saving the
    # snapshot in between, latest as_of first: a rebuild must not leak state into the next (earlier) as_of query
    snap_part = [(k, a) for k, a in plan if k is not None]
    plain_part = [(k, a) for k, a in plan if k is None]
    snap_part.sort(key=lambda ka: (ka[0], 0 if ka[1] is None else 1, -(ka[1] or 0)))
    return plain_part + snap_part


def impl_queries(event_store, wf_id: str, plan, explicit: list[tuple[int, dict, int | None]] = ()):
    """Real EventReplayer on every (snapshot, as_of); returns states (dicts) + the manual prefix folds."""
    from stabilize.events.replay import EventReplayer, WorkflowState
    from stabilize.events.snapshots import SnapshotStore

    plain = EventReplayer(event_store)
    snaps = SnapshotStore(event_store)
    with_snap = EventReplayer(event_store, snapshot_store=snaps)
    out = []
    asof_cache: dict[Any, dict] = {}
    last_k = object()
    for k, a in plan:
        if k is None:
            st = plain.rebuild_workflow_state(wf_id, as_of_sequence=a)
            asof_cache[a] = st
        else:
            if k != last_k:
                base = plain.rebuild_workflow_state(wf_id, as_of_sequence=k)
                snaps.create_workflow_snapshot(base, wf_id, version=1, sequence=k)
                last_k = k
            st = with_snap.rebuild_workflow_state(wf_id, as_of_sequence=a)
        out.append(st)
    ex_out = []
    for k, state, a in explicit:
        snaps.create_workflow_snapshot(state, wf_id, version=1, sequence=k)
        ex_out.append(with_snap.rebuild_workflow_state(wf_id, as_of_sequence=a))
    # manual folds with the implementation's own _apply_event: "replaying exactly the events up to n"
    events = event_store.get_events_for_workflow(wf_id)
    folds = {}
    for a in {a for k, a in plan if k is None}:
        ws = WorkflowState(workflow_id=wf_id)
        for e in events:
            if a is None or e.sequence <= a:
                plain._apply_event(ws, e)
        folds[a] = ws.to_dict()
    # leave no snapshot behind
    conn = event_store._get_connection()
    conn.execute("DELETE FROM snapshots WHERE entity_id = ?", (wf_id,))
    conn.commit()
    return out, ex_out, folds, asof_cache


def diff_keys(a: dict, b: dict) -> list[str]:
    return sorted(k for k in set(a) | set(b) if k != "workflow_id" and a.get(k) != b.get(k))


def check_log(ctx, suite: str, rows: list[dict], tok: Tok, event_store, wf_id: str, lt: bool, replay_obj: dict,
              explicit=(), full_plan: bool = False) -> None:
    """Correspondence (model vs implementation) + the two pure monitors on one workflow's log."""
    seqs = [r["sequence"] for r in rows]
    plan = query_plan(seqs, ctx.rng, full_plan)
    states, ex_states, folds, asof = impl_queries(event_store, wf_id, plan, explicit)

    # ---- monitors (implementation only) ----
    for a, st in asof.items():
        d = diff_keys(st, folds[a])
        if d:
            ctx.violation(f"rebuild as_of={a} differs from folding exactly the events with sequence <= {a} in {d}",
                          f"asof-not-prefix-fold:{','.join(d)}", replay_obj | {"as_of": a, "diff": d})
    for (k, a), st in zip(plan, states):
        if k is None:
            continue
        d = diff_keys(st, asof[a])
        if d:
            if set(d) <= {"start_time", "end_time"}:
                ctx.violation("rebuild from a snapshot + later events loses the workflow start_time/end_time that a full replay has "
                              "(_load_state_from_snapshot does not restore them)", SIG_F3,
                              replay_obj | {"snapshot_at": k, "as_of": a, "diff": d})
            else:
                ctx.violation(f"rebuild from snapshot@{k} as_of={a} differs from the full replay in {d}",
                              f"snapshot-differs:{','.join(d)}", replay_obj | {"snapshot_at": k, "as_of": a, "diff": d})

    # ---- correspondence ----
    evs = ";".join(event_line(r, tok) for r in rows) or "-"
    qs = ";".join(("a" if k is None else f"s{k}a") + ("n" if a is None else str(a)) for k, a in plan)
    lines = [f"replay run {int(lt)} {evs} {qs}"]
    for k, state, a in explicit:
        lines.append(f"replay snap {int(lt)} {evs} {'n' if a is None else a} {k} {show_state(state, tok)}")
    ctx.corr_suites[suite] += len(plan) + len(explicit)
    for (k, a) in plan:
        ctx.count([evs, k, a], nontrivial=(len(rows) >= 4 and a != 0))
    for k, state, a in explicit:
        ctx.count([evs, "x", k, a, show_state(state, tok)], nontrivial=len(rows) >= 4)
    model = ctx.lean(lines)
    if model is None:
        if f"suite {suite}: model driver unavailable" not in " ".join(ctx.notes):
            ctx.notes.append(f"suite {suite}: model driver unavailable, correspondence skipped")
        return
    impl = [show_state(s, tok) for s in states]
    got = model[0].split("|")
    if len(got) != len(impl):
        ctx.corr_failures.append({"suite": suite, "input": replay_obj, "driver_line": lines[0][:2000], "impl": f"{len(impl)} states",
                                  "model": model[0][:300]})
    else:
        for (k, a), x, y in zip(plan, impl, got):
            if x != y and len(ctx.corr_failures) < 50:
                ctx.corr_failures.append({"suite": suite, "input": replay_obj | {"snapshot_at": k, "as_of": a},
                                          "driver_line": f"replay run {int(lt)} {evs} " + ("a" if k is None else f"s{k}a") + ("n" if a is None else str(a)),
                                          "impl": x, "model": y})
    for (k, state, a), st, line, y in zip(explicit, ex_states, lines[1:], model[1:]):
        x = show_state(st, tok)
        if x != y and len(ctx.corr_failures) < 50:
            ctx.corr_failures.append({"suite": suite, "input": replay_obj | {"snapshot_at": k, "as_of": a, "explicit_snapshot": True},
                                      "driver_line": line, "impl": x, "model": y})
    ctx.sample({"suite": suite, "events": len(rows), "queries": len(plan) + len(explicit), "line": lines[0][:400], "last_state": impl[0][:400]})


# --------------------------------------------------------------------------------------
# real engine suite
# --------------------------------------------------------------------------------------

def gen_spec(rng) -> list[dict]:
    n = rng.choice([1, 2, 2, 3, 3, 4, 5])
    shape = rng.choice(["chain", "diamond", "fan", "random"])
    spec = []
    for i in range(n):
        if i == 0:
            reqs = []
        elif shape == "chain":
            reqs = [i - 1]
        elif shape == "fan":
            reqs = [0]
        elif shape == "diamond":
            reqs = [0] if i < n - 1 or n < 3 else list(range(1, n - 1))
        else:
            reqs = sorted(rng.sample(range(i), rng.randint(0, min(2, i))))
        nt = rng.choice([1, 1, 2, 3])
        tasks = [rng.choice("SSSSSSTFPKCX") for _ in range(nt)]
        sp: dict[str, Any] = {"reqs": reqs, "tasks": tasks}
        if rng.random() < 0.2:
            sp["enabled"] = False
        if rng.random() < 0.25:
            sp["cont"] = True
        spec.append(sp)
    return spec


def gen_synth_stage_spec(rng) -> list[dict]:
    """a workflow with pre-declared synthetic STAGE_BEFORE / STAGE_AFTER children (evsrc.Env builds them; refs w<i>s<idx> after the
    top-level stages).  Implementation-only as far as the ENGINE is concerned; the replay model is about event lists and applies."""
    n = rng.choice([1, 1, 2, 2, 3])
    shape = rng.choice(["chain", "roots"])
    spec = []
    for i in range(n):
        sp: dict[str, Any] = {"reqs": [i - 1] if (i and shape == "chain") else [], "tasks": [rng.choice("SSSSSSTFPKCX") for _ in range(rng.choice([0, 1, 1, 2]))]}
        if rng.random() < 0.15:
            sp["enabled"] = False
        if rng.random() < 0.25:
            sp["cont"] = True
        spec.append(sp)
    for par in {rng.randrange(n)} | {i for i in range(n) if rng.random() < 0.3}:
        nb, na = rng.choice([(1, 0), (0, 1), (1, 1), (1, 1), (2, 0), (0, 2), (2, 1), (1, 2)])
        spec[par]["synth"] = [{"owner": "B", "tasks": [rng.choice("SSSSSTFKCX")]} for _ in range(nb)] + \
                             [{"owner": "A", "tasks": [rng.choice("SSSSSTFKCX")]} for _ in range(na)]
        if nb == 2 and rng.random() < 0.45:                      # a chain: the second child has the first as requisite
            spec[par]["synth"][1]["req"] = 0
        if na == 2 and rng.random() < 0.45:
            spec[par]["synth"][nb + 1]["req"] = nb
    return spec


def gen_synth_stage_scenario(rng) -> dict:
    nwf = 2 if rng.random() < 0.2 else 1
    scn: dict[str, Any] = {"kind": "real", "synthetic_stages": True, "wfs": [gen_synth_stage_spec(rng) for _ in range(nwf)], "picks": [], "cancel": {}}
    scn["reorder"] = rng.choice([0.0, 0.0, 0.3, 0.6])
    for wi in range(nwf):
        if rng.random() < 0.35:
            scn["cancel"][str(wi)] = rng.randint(0, 24)
    scn["pick_seed"] = rng.randrange(1 << 30)
    return scn


FIXED_SYNTH_STAGE = [
    {"kind": "real", "synthetic_stages": True, "wfs": [[{"tasks": ["S"], "synth": [{"owner": "B", "tasks": ["S"]}, {"owner": "A", "tasks": ["S"]}]}, {"reqs": [0], "tasks": ["S"]}]],
     "reorder": 0.0, "cancel": {}, "pick_seed": 1},
    {"kind": "real", "synthetic_stages": True, "wfs": [[{"tasks": ["S"], "synth": [{"owner": "B", "tasks": ["S"]}, {"owner": "B", "tasks": ["T"]}]}]],
     "reorder": 0.0, "cancel": {}, "pick_seed": 2},
    {"kind": "real", "synthetic_stages": True, "wfs": [[{"tasks": ["T"], "synth": [{"owner": "A", "tasks": ["S"]}]}, {"tasks": [], "synth": [{"owner": "A", "tasks": ["F"]}, {"owner": "A", "tasks": ["S"]}]}]],
     "reorder": 0.3, "cancel": {}, "pick_seed": 3},
    {"kind": "real", "synthetic_stages": True, "wfs": [[{"tasks": ["S", "S"], "synth": [{"owner": "B", "tasks": ["S"]}, {"owner": "A", "tasks": ["S"]}]}]],
     "reorder": 0.3, "cancel": {"0": 9}, "pick_seed": 4},
    {"kind": "real", "synthetic_stages": True, "wfs": [[{"tasks": ["S"], "synth": [{"owner": "B", "tasks": ["S"]}, {"owner": "B", "tasks": ["F"], "req": 0},
                                                                                     {"owner": "A", "tasks": ["S"]}, {"owner": "A", "tasks": ["T"], "req": 2}]}]],
     "reorder": 0.3, "cancel": {}, "pick_seed": 5},
]


def gen_scenario(rng) -> dict:
    nwf = 2 if rng.random() < 0.3 else 1
    scn: dict[str, Any] = {"kind": "real", "wfs": [gen_spec(rng) for _ in range(nwf)], "picks": [], "cancel": {}}
    scn["reorder"] = rng.choice([0.0, 0.0, 0.3, 0.6])
    for wi in range(nwf):
        if rng.random() < 0.35:
            scn["cancel"][str(wi)] = rng.randint(0, 14)
    scn["pick_seed"] = rng.randrange(1 << 30)
    return scn


def run_real(ctx, scn: dict, workdir: Path, lt: bool, verbose: bool = False) -> int:
    """Run one real scenario; returns number of monitor hits it produced."""
    import random

    from harness.evsrc import Env

    if scn.get("synthetic_stages") and type(ctx).__name__ != "PrefixCtx":
        from harness.synth_suites import PrefixCtx

        ctx = PrefixCtx(ctx)      # same oracles; signatures prefixed synth:, counted apart
    before = len(ctx.monitor_hits) + sum(h["count"] for h in ctx.monitor_hits)
    env = Env(workdir, name="c12")
    try:
        for spec in scn["wfs"]:
            env.add_workflow(spec)
        prng = random.Random(scn["pick_seed"])
        cancel_at = {int(k): v for k, v in scn.get("cancel", {}).items()}

        def on_step(step: int) -> None:
            for wi, at in cancel_at.items():
                if at == step:
                    env.cancel(wi)

        trace = env.drain(prng, reorder=scn.get("reorder", 0.0), on_step=on_step, picks=scn.get("picks") or None)
        if verbose:
            print("trace:", " ".join(trace))
        if env.pending():
            ctx.tag("real:not-drained")
        for wi, w in enumerate(env.workflows):
            from stabilize.events.base import EventType

            rows = env.event_rows(wi)
            for r in rows:
                r["event_type"] = EventType(r["event_type"]).name
            refs = {}
            for ww in env.workflows:
                for ident in [ww["id"], *ww["stage_ids"], *ww["task_ids"]]:
                    refs[ident] = env.ref(ident)
            tok = Tok(refs, [r["timestamp"] for r in rows])
            robj = {"scenario": scn, "workflow": wi}
            # ---- the property as stated: replayed final status == store status on covered entities ----
            from stabilize.events.replay import EventReplayer

            final = EventReplayer(env.event_store).rebuild_workflow_state(w["id"])
            store = env.store_statuses(wi)
            live = env.store.retrieve(w["id"])
            assert live.status.name == store[f"w{wi}"], "status table read differs from store.retrieve()"
            seen = {env.ref(r["entity_id"]) for r in rows}
            ctx.tag(f"wf-final:{store[f'w{wi}']}")
            audit_cancel = {env.ref(t.id) for s in live.stages for t in s.tasks if t.status.name == "CANCELED" and s.status.name == "CANCELED"}
            for ref, st_status in store.items():
                if ref == f"w{wi}":
                    rp = final.get("status")
                    kind = "workflow"
                elif "k" in ref:
                    ident = next(i for i in w["task_ids"] if env.ref(i) == ref)
                    rp = (final["tasks"].get(ident) or {}).get("status", "ABSENT") if ident in final["tasks"] else "ABSENT"
                    kind = "task"
                else:
                    ident = next(i for i in w["stage_ids"] if env.ref(i) == ref)
                    rp = (final["stages"].get(ident) or {}).get("status", "ABSENT") if ident in final["stages"] else "ABSENT"
                    kind = "stage"
                if verbose:
                    print(f"  {ref}: store={st_status} replay={rp}")
                if rp == st_status:
                    ctx.tag(f"agree:{kind}:{st_status}")
                    continue
                if rp in ("ABSENT", None) and st_status == "NOT_STARTED":
                    ctx.tag(f"untouched:{kind}")          # never went through any step
                    continue
                how = ""
                if kind == "task" and st_status == "CANCELED" and ref in audit_cancel and rp in ("RUNNING", "ABSENT"):
                    how = ":canceled-by-CancelStage"
                if kind == "task" and st_status == "SKIPPED" and rp == "RUNNING":
                    how = ":CompleteTask(SKIPPED)"
                if kind == "stage" and env.writer_of(ident, st_status) == "ContinueParentStage":
                    # a parent that ContinueParentStage marks failed / canceled because a before- or after-stage failed
                    how = ":written-by-ContinueParentStage"
                sig = f"replay-mismatch:{kind}:store={st_status}:replay={rp}{how}"
                ctx.violation(f"replayed status of {kind} {ref} is {rp}, the store holds {st_status}", sig,
                              robj | {"entity": ref, "store": st_status, "replay": rp, "events_of_entity":
                                      [(r["sequence"], r["event_type"], r["data"].get("status")) for r in rows if env.ref(r["entity_id"]) == ref]})
            # ---- every prefix, every snapshot position ----
            check_log(ctx, "real-engine-logs", rows, tok, env.event_store, w["id"], lt, robj)
            for r in rows:
                ctx.tag("ev:" + r["event_type"])
    finally:
        env.close()
    return len(ctx.monitor_hits) + sum(h["count"] for h in ctx.monitor_hits) - before


# --------------------------------------------------------------------------------------
# synthetic suite: arbitrary event lists through the real SqliteEventStore
# --------------------------------------------------------------------------------------

def gen_synthetic(rng) -> dict:
    n = rng.choice([0, 1, 2, 3, 5, 8, 12, 16])
    stages = ["sa", "sb", "sc"]
    tasks = ["ka", "kb", "kc"]
    events = []
    statuses = ["SUCCEEDED", "TERMINAL", "FAILED_CONTINUE", "CANCELED", "STOPPED", "SKIPPED", "REDIRECT", "weird"]
    for _ in range(n):
        r = rng.random()
        if r < 0.25:
            kind, eid = "workflow", "W"
            et = rng.choice(ETYPES[:7] + ["CONTEXT_UPDATED"] * 2 + ETYPES) if rng.random() < 0.85 else rng.choice(ETYPES)
        elif r < 0.6:
            kind, eid = "stage", rng.choice(stages)
            et = rng.choice(ETYPES[7:12] * 3 + ETYPES)
        else:
            kind, eid = "task", rng.choice(tasks)
            et = rng.choice(ETYPES[12:16] * 3 + ETYPES)
        data: dict[str, Any] = {}
        for key, vals in (("status", statuses), ("outputs", [{"o": 1}, {}, {"x": [1, 2]}]), ("error", ["boom", None]),
                          ("reason", ["why"]), ("ref_id", ["ra", "rb"]), ("type", ["ty"]), ("name", ["na", "nb"]),
                          ("stage_id", stages), ("application", ["app"]), ("retry_count", [0, 2, 7])):
            p = 0.15 if key == "retry_count" else 0.5
            if rng.random() < p:
                data[key] = rng.choice(vals)
        if rng.random() < 0.35:
            data["context"] = {rng.choice(["a", "b", "c"]): rng.choice([1, "x", None, {"n": 1}]) for _ in range(rng.randint(0, 2))}
        events.append({"kind": kind, "eid": eid, "etype": et, "data": data, "foreign_before": rng.random() < 0.25})
    explicit = []
    for _ in range(rng.randint(0, 3)):
        st = {"workflow_id": "W", "status": rng.choice([None, "RUNNING", "SUCCEEDED"]), "application": rng.choice([None, "app"]),
              "name": rng.choice([None, "nm"]), "start_time": rng.choice([None, "2020-01-01T00:00:00+00:00"]),
              "end_time": rng.choice([None, "2020-01-02T00:00:00+00:00"]),
              "context": {k: 1 for k in rng.sample(["a", "z"], rng.randint(0, 2))},
              "stages": {s: {"id": s, "ref_id": None, "type": None, "name": None, "status": rng.choice(statuses)} for s in rng.sample(stages, rng.randint(0, 2))},
              "tasks": {t: {"id": t, "name": None, "stage_id": None, "retry_count": rng.randint(0, 3)} for t in rng.sample(tasks, rng.randint(0, 2))}}
        explicit.append({"seq": rng.randint(0, 2 * n + 1), "state": st, "as_of": rng.choice([None, rng.randint(0, 2 * n + 2)])})
    return {"kind": "synthetic", "events": events, "explicit": explicit}


def run_synthetic(ctx, scn: dict, workdir: Path, lt: bool) -> None:
    from stabilize.events import SqliteEventStore
    from stabilize.events.base import EntityType, Event, EventMetadata, EventType

    from harness.evsrc import reset_globals

    reset_globals()
    p = Path(workdir) / "c12-syn.db"
    for suffix in ("", "-wal", "-shm"):
        q = Path(str(p) + suffix)
        if q.exists():
            q.unlink()
    es = SqliteEventStore(f"sqlite:///{p}", create_tables=True)
    try:
        for e in scn["events"]:
            if e.get("foreign_before"):
                es.append(Event(event_type=EventType.CUSTOM, entity_type=EntityType.WORKFLOW, entity_id="OTHER", workflow_id="OTHER",
                                metadata=EventMetadata(correlation_id="OTHER")))
            es.append(Event(event_type=EventType[e["etype"]], entity_type=EntityType(e["kind"]), entity_id=e["eid"], workflow_id="W",
                            data=e["data"], metadata=EventMetadata(correlation_id="W")))
        conn = es._get_connection()
        rows = [dict(r) | {"data": json.loads(r["data"] or "{}")} for r in conn.execute(
            "SELECT sequence, event_type, entity_type, entity_id, timestamp, data FROM events WHERE workflow_id='W' ORDER BY sequence")]
        for r in rows:
            r["event_type"] = EventType(r["event_type"]).name
        stamps = [r["timestamp"] for r in rows] + ["2020-01-01T00:00:00+00:00", "2020-01-02T00:00:00+00:00"]
        tok = Tok({}, stamps)
        explicit = [(x["seq"], x["state"], x["as_of"]) for x in scn["explicit"]]
        for r in rows:
            ctx.tag(f"syn:{r['entity_type']}:{r['event_type']}")
        check_log(ctx, "synthetic-logs", rows, tok, es, "W", lt, {"scenario": scn}, explicit=explicit, full_plan=True)
    finally:
        reset_globals()


# --------------------------------------------------------------------------------------
# entry points
# --------------------------------------------------------------------------------------

FIXED_REAL = [
    # (the witnesses of F3/F8a/F8b live in replays/C12 and run first) diamond with a skip + failed-continue; two interleaved workflows
    {"kind": "real", "wfs": [[{"tasks": ["S"]}, {"reqs": [0], "tasks": ["F"], "cont": True}, {"reqs": [0], "enabled": False},
                              {"reqs": [1, 2], "tasks": ["S"]}]], "reorder": 0.0, "cancel": {}, "pick_seed": 1},
    {"kind": "real", "wfs": [[{"tasks": ["T"]}, {"reqs": [0]}], [{"tasks": ["S", "X"]}]], "reorder": 0.3, "cancel": {}, "pick_seed": 7},
]


def _corpus() -> list[dict]:
    from harness import core

    out = []
    d = core.VERIF / "replays" / "C12"
    if d.is_dir():
        for f in sorted(d.glob("*.json")):
            try:
                body = json.loads(f.read_text())
                scn = body.get("replay", body).get("scenario")
                if scn:
                    out.append(scn)
            except Exception:
                pass
    return out


def _run(ctx, n_real: int, n_syn: int) -> None:
    import logging

    from harness import core

    logging.disable(logging.CRITICAL)   # the engine logs every scripted task failure with a traceback

    lt = loads_times_flag(ctx)
    ctx.extra["loader_restores_times"] = lt
    work = core.scratch_dir()
    try:
        for scn in _corpus() + FIXED_REAL:
            if scn.get("kind") == "synthetic":
                run_synthetic(ctx, scn, work, lt)
            else:
                run_real(ctx, scn, work, lt)
        for _ in range(n_real):
            run_real(ctx, gen_scenario(ctx.rng), work, lt)
        # workflows with synthetic before / after stages: same oracle (replayed status == stored status for the workflow, every
        # stage - children included - and every task; every prefix, every snapshot position)
        import time

        t0, before = time.time(), ctx.evaluations
        syn_scn = FIXED_SYNTH_STAGE + [gen_synth_stage_scenario(ctx.rng) for _ in range(max(1, n_real // 2))]
        for scn in syn_scn:
            run_real(ctx, scn, work, lt)
        ctx.extra["synthetic_stage_workloads"] = {"scenarios": len(syn_scn), "queries": ctx.evaluations - before, "wall_s": round(time.time() - t0, 1)}
        for _ in range(n_syn):
            run_synthetic(ctx, gen_synthetic(ctx.rng), work, lt)
    finally:
        shutil.rmtree(work, ignore_errors=True)


def run(ctx) -> None:
    _run(ctx, ctx.n(60, 500), ctx.n(120, 1200))


def search(ctx) -> None:
    _run(ctx, ctx.n(200, 800), ctx.n(400, 2000))


def replay(ctx, body) -> int:
    from harness import core

    scn = body.get("replay", body).get("scenario")
    if not scn:
        print("replay file has no scenario (proof/correspondence breakage without a failing input):")
        print(json.dumps({k: body.get(k) for k in ("proof_obligations_broken", "correspondence_broken")}, indent=1)[:3000])
        return 1
    work = core.scratch_dir()
    lt = loads_times_flag(ctx)
    try:
        if scn.get("kind") == "synthetic":
            run_synthetic(ctx, scn, work, lt)
        else:
            run_real(ctx, scn, work, lt, verbose=True)
    finally:
        shutil.rmtree(work, ignore_errors=True)
    for h in ctx.monitor_hits:
        print(f"FAILS: {h['what']}  [signature {h['signature']}]")
        r = h["replay"]
        print("  at:", json.dumps({k: r[k] for k in r if k != "scenario"}, default=str)[:600])
    for f in ctx.corr_failures[:3]:
        print("MODEL/IMPL DIFFER:", json.dumps(f, default=str)[:800])
    return 1 if (ctx.monitor_hits or ctx.corr_failures) else 0
