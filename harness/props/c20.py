"""C20 — graph validation and condition expressions are sound and total.

Mode-A correspondence of the two pure models (`topo`, `expr`) with the real functions, plus
implementation-side monitors for the property as stated:

  graph   Workflow.create / validate_stage_graph succeed  <=>  unique refs, known refs, no cycle
          (independent DFS oracle), right error class, topological_sort output is a permutation
          with every stage after its requisites and complete on valid graphs;
  expr    evaluate_expression(text, ctx) returns a value or raises ExpressionError - any other
          exception class is a VIOLATION; the context is not mutated; evaluation is repeatable;
  callers _apply_split_logic / _should_skip never raise on any condition text and turn a
          malformed condition into skip-branch / do-not-skip.
"""
from __future__ import annotations

import ast
import copy
import json
import os
import re
import traceback
import warnings
from pathlib import Path

RULE = (
    "graphs: random DAGs (0-16 stages, string refs incl. unicode) with zero or more injected defects "
    "(duplicate ref, self-edge, unknown ref, 2..n-cycle, synthetic stages that must be ignored), two driver lines per graph "
    "(validate, sort); a graph is distinct by its numbered canonical form and non-trivial when it has >= 2 stages. "
    "expressions: text generated from a grammar over every construct _eval_node supports (constants, names incl. the special "
    "names, attribute, subscript, all 10 comparison operators incl. chains, and/or, not/-/+/~, ternary, list, tuple) and every "
    "unsupported one (call, method call, lambda, binop, dict/set display, comprehensions, walrus, f-string, starred, await, "
    "yield, slice) x random JSON contexts (nested lists/dicts, big ints, unicode); the string handed to evaluate_expression is "
    "parsed with ast.parse by the harness and that tree is serialised for the model, so both sides evaluate the same tree; "
    "a `pairs` stream puts two related random values (equal, equal up to bool/int, prefix, one element changed, reordered dict) "
    "under p and q and runs every operator / subscript / unary template on them (primitive semantics); "
    "an exhaustive matrix (every unary/comparison/boolean/subscript operator x every pair of 20 operand kinds, ~11k expressions); "
    "a separate malformed stream (random fragments, null bytes, lone surrogates, BOM, nesting 150..12000 deep around the "
    "depth bound, sandbox-escape strings) goes through the monitors and through the model as a Parsed class. "
    "A case is distinct by (text, context) and non-trivial when its tree has >= 2 nodes. Floats, bytes, complex, Ellipsis "
    "and lone-surrogate strings are outside the model: such cases are monitored only (tag monitor-only:*)."
)
ASSUMPTIONS = [
    "contexts are JSON documents (None/bool/int/str/list/dict with string keys), as persisted stage contexts are; "
    "arbitrary Python objects with user-defined __eq__/__hash__/__neg__ in a context are out of scope",
    "expression is a str (the property says 'input text'); non-str conditions are exercised but only reported as a note",
    "CPython 3.12 ast.parse; the harness thread's stack has > 2*(_MAX_DEPTH+1) free frames (true for the engine's handler threads)",
    "`a is b` on two non-singleton objects is CPython-specific (interning): such cases are monitored on the implementation "
    "but not compared with the model (tag monitor-only:identity); `is` against None/True/False is compared exactly",
]
TRUSTED_BASE = [
    "expression model starts at the AST: text -> tree is CPython's ast.parse on both sides (the harness serialises the tree "
    "ast.parse returns for the very string given to evaluate_expression); the prologue of evaluate_expression (blank / "
    "true,1,false,0 fast path / SyntaxError / other parser exception) is classified by the harness with the same three "
    "Python expressions and enters the model as `Parsed`",
    "Python primitive semantics on {None,bool,int,str,list,tuple,dict[str]} (==, <, in, -x, truthiness, indexing, hash) are "
    "modelled in Stab.Expr.Value and validated only by the correspondence; floats/bytes/complex/Ellipsis are excluded",
    "RecursionError raised inside C-level comparisons of very deeply nested context values is not modelled "
    "(the fixed code catches it; JSON decoding bounds context nesting)",
    "translate/expr_shape.py: lexical facts about expressions.py and the two callers (dispatch list, except clauses, names used)",
    "topological_sort's order inside one Kahn layer depends on set iteration; compared per layer after sorting",
]

GUARDS = os.environ.get("C20_GUARDS", "111111")  # development aid: 110000 = the code without F2.diff
MODEL_STACK = 100000                             # frames the model's caller has left (irrelevant once the depth guard exists)
SPECIAL_NAMES = ("True", "true", "False", "false", "None", "none", "null")


class Unrepresentable(Exception):
    """value / constant outside the model's Value type"""


# ======================================================================================
# graph part
# ======================================================================================

REF_POOL = ["a", "b", "c", "d", "e", "f", "g", "h", "build", "deploy", "test-1", "stage_2", "Ünï", "阶段", "x1", "x2",
            "A", "B", "join", "split", "0", "1", "a.b", "a b", "🙂"]


def gen_graph(rng, thorough: bool) -> dict:
    n = rng.choice([0, 1, 2, 2, 3, 3, 4, 4, 5, 5, 6, 7, 8] + ([10, 12, 16] if thorough else [9]))
    names = rng.sample(REF_POOL, min(n, len(REF_POOL)))
    while len(names) < n:
        names.append(f"s{len(names)}")
    density = rng.choice([0.15, 0.3, 0.5, 0.8])
    stages = []
    for i, r in enumerate(names):
        reqs = sorted({names[j] for j in range(i) if rng.random() < density})
        stages.append({"ref": r, "reqs": reqs, "top": True})
    rng.shuffle(stages)
    injected = []
    k = rng.choice([0, 0, 0, 1, 1, 1, 2, 3]) if n else rng.choice([0, 0, 1])
    for _ in range(k):
        kind = rng.choice(["dup", "self", "unknown", "cycle", "cycle", "synthetic", "req-synthetic"])
        if kind == "dup" and len(stages) >= 2:
            a, b = rng.sample(range(len(stages)), 2)
            stages[a]["ref"] = stages[b]["ref"]
        elif kind == "dup" and len(stages) == 1:
            stages.append({"ref": stages[0]["ref"], "reqs": [], "top": True})
        elif kind == "self" and stages:
            s = rng.choice(stages)
            s["reqs"] = sorted(set(s["reqs"]) | {s["ref"]})
        elif kind == "unknown" and stages:
            s = rng.choice(stages)
            s["reqs"] = sorted(set(s["reqs"]) | {f"ghost{rng.randint(0, 2)}" for _ in range(rng.randint(1, 2))})
        elif kind == "cycle" and len(stages) >= 2:
            m = rng.randint(2, min(len(stages), 6))
            members = rng.sample(stages, m)
            for i, s in enumerate(members):
                s["reqs"] = sorted(set(s["reqs"]) | {members[(i + 1) % m]["ref"]})
        elif kind == "synthetic":
            ref = rng.choice([f"syn{rng.randint(0, 3)}"] + [s["ref"] for s in stages])
            reqs = rng.sample([s["ref"] for s in stages] + [ref, "ghost9"], rng.randint(0, min(2, len(stages) + 2)))
            stages.insert(rng.randint(0, len(stages)), {"ref": ref, "reqs": sorted(set(reqs)), "top": False})
        elif kind == "req-synthetic" and stages:
            stages.append({"ref": "synthetic-only", "reqs": [], "top": False})
            s = rng.choice([x for x in stages if x["top"]] or stages)
            s["reqs"] = sorted(set(s["reqs"]) | {"synthetic-only"})
        else:
            continue
        injected.append(kind)
    return {"stages": stages, "injected": injected}


def graph_numbering(stages: list[dict]) -> dict[str, int]:
    num: dict[str, int] = {}
    for s in stages:
        for r in [s["ref"], *s["reqs"]]:
            if r not in num:
                num[r] = len(num) + 1
    return num


def graph_line(stages: list[dict], num: dict[str, int]) -> str:
    if not stages:
        return "-"
    return ";".join(f"{num[s['ref']]}:{','.join(str(x) for x in sorted(num[r] for r in s['reqs']))}:{1 if s['top'] else 0}"
                    for s in stages)


def show_nums(xs) -> str:
    xs = sorted(xs)
    return ",".join(str(x) for x in xs) if xs else "-"


def build_stages(stages: list[dict]):
    from stabilize.models.stage import StageExecution

    return [StageExecution(ref_id=s["ref"], name=s["ref"], type="t", requisite_stage_ref_ids=set(s["reqs"]),
                           parent_stage_id=None if s["top"] else "01PARENT")
            for s in stages]


def graph_oracle(stages: list[dict]) -> dict:
    """Independent reading of the property: unique refs, known refs, no cycle (DFS, not Kahn)."""
    top = [s for s in stages if s["top"]]
    refs = [s["ref"] for s in top]
    unique = len(set(refs)) == len(refs)
    refset = set(refs)
    self_edge = any(s["ref"] in s["reqs"] for s in top)
    known = all(r in refset for s in top for r in s["reqs"])
    acyclic = None
    if unique and known:
        adj = {s["ref"]: list(s["reqs"]) for s in top}
        color: dict[str, int] = {}
        acyclic = True
        for root in adj:
            if color.get(root):
                continue
            stack = [(root, iter(adj[root]))]
            color[root] = 1
            while stack and acyclic:
                node, it = stack[-1]
                for nxt in it:
                    c = color.get(nxt, 0)
                    if c == 1:
                        acyclic = False
                        break
                    if c == 0:
                        color[nxt] = 1
                        stack.append((nxt, iter(adj[nxt])))
                        break
                else:
                    color[node] = 2
                    stack.pop()
            if not acyclic:
                break
    structural_ok = unique and known and not self_edge
    return {"unique": unique, "known": known, "self_edge": self_edge, "acyclic": acyclic,
            "valid": bool(structural_ok and acyclic), "structural_ok": structural_ok}


def run_validate(stages: list[dict], num: dict[str, int]) -> tuple[str, str]:
    """-> (canonical line, exception class name or 'ok')"""
    from stabilize.dag.topological import CircularDependencyError, InvalidStageGraphError, validate_stage_graph

    objs = build_stages(stages)
    try:
        validate_stage_graph(objs)
        return "ok", "ok"
    except InvalidStageGraphError as e:
        msg = str(e)
        kind = msg.split(":", 1)[0]
        m = re.search(r"'([^']*)'", msg)
        ref = num.get(m.group(1), 0) if m else 0
        if kind == "unknown_ref":
            try:
                unk = ast.literal_eval(msg[msg.index("["):])
            except Exception:
                unk = []
            return f"err unknown_ref {ref} {show_nums(num.get(u, 0) for u in unk)}", "InvalidStageGraphError"
        return f"err {kind} {ref}", "InvalidStageGraphError"
    except CircularDependencyError as e:
        return f"err cycle {show_nums(num.get(s.ref_id, 0) for s in e.stages)}", "CircularDependencyError"
    except Exception as e:  # noqa: BLE001
        return f"err other {type(e).__name__}", type(e).__name__


def split_layers(order, num) -> tuple[str, bool]:
    """Recover Kahn's layers from a flat order (greedy); second component False if the order is unsound."""
    done: set[str] = set()
    layers: list[list[int]] = []
    cur: list = []
    sound = True
    for st in order:
        if not set(st.requisite_stage_ref_ids) <= done:
            done |= {x.ref_id for x in cur}
            if cur:
                layers.append([num.get(x.ref_id, 0) for x in cur])
            cur = []
            if not set(st.requisite_stage_ref_ids) <= done:
                sound = False
        cur.append(st)
    if cur:
        layers.append([num.get(x.ref_id, 0) for x in cur])
    if not layers:
        return "ok -", sound
    return "ok " + "|".join(show_nums(l) for l in layers), sound


def run_sort(stages: list[dict], num: dict[str, int]):
    from stabilize.dag.topological import CircularDependencyError, topological_sort

    objs = build_stages(stages)
    try:
        out = topological_sort(objs)
    except CircularDependencyError as e:
        return f"err cycle {show_nums(num.get(s.ref_id, 0) for s in e.stages)}", None, objs
    except Exception as e:  # noqa: BLE001
        return f"err other {type(e).__name__}", None, objs
    line, _ = split_layers(out, num)
    return line, out, objs


def graph_monitors(ctx, stages: list[dict], num, vclass: str, sort_out, sort_objs) -> None:
    from stabilize.dag.topological import CircularDependencyError, InvalidStageGraphError
    from stabilize.models.workflow import Workflow

    o = graph_oracle(stages)
    rep = {"kind": "graph", "stages": stages}
    # 1. validate succeeds <=> valid
    if (vclass == "ok") != o["valid"]:
        what = "validate_stage_graph accepts an invalid graph" if vclass == "ok" else "validate_stage_graph rejects a valid graph"
        why = "dup" if not o["unique"] else "self" if o["self_edge"] else "unknown" if not o["known"] else "cycle"
        ctx.violation(what, f"graph:validate:{'accepts-invalid:' + why if vclass == 'ok' else 'rejects-valid'}", rep)
    elif vclass != "ok":
        expect = "InvalidStageGraphError" if not o["structural_ok"] else "CircularDependencyError"
        if vclass != expect:
            ctx.violation(f"validate_stage_graph raises {vclass}, expected {expect}", f"graph:validate:wrong-class:{vclass}", rep)
    # 2. Workflow.create does exactly that
    objs = build_stages(stages)
    try:
        wf = Workflow.create("app", "wf", objs)
        cclass = "ok"
        if wf.stages is not objs and list(wf.stages) != objs:
            ctx.violation("Workflow.create changed the stage list", "graph:create:stages-changed", rep)
    except InvalidStageGraphError:
        cclass = "InvalidStageGraphError"
    except CircularDependencyError:
        cclass = "CircularDependencyError"
    except Exception as e:  # noqa: BLE001
        cclass = type(e).__name__
    if cclass != vclass:
        ctx.violation(f"Workflow.create outcome {cclass} differs from validate_stage_graph {vclass}", "graph:create:differs", rep)
    # 3. topological_sort: sound, permutation, complete on valid graphs
    top_ids = sorted(x.id for x in sort_objs if x.parent_stage_id is None)
    if sort_out is not None:
        if sorted(x.id for x in sort_out) != top_ids:
            ctx.violation("topological_sort output is not a permutation of the top-level stages", "graph:toposort:not-permutation", rep)
        seen: set[str] = set()
        for st in sort_out:
            if not set(st.requisite_stage_ref_ids) <= seen:
                ctx.violation(f"topological_sort lists stage {st.ref_id!r} before one of its requisites", "graph:toposort:unsound", rep)
                break
            seen.add(st.ref_id)
    elif o["valid"]:
        ctx.violation("topological_sort fails on a valid graph", "graph:toposort:incomplete", rep)
    elif o["known"] and o["unique"] and o["acyclic"]:
        ctx.violation("topological_sort fails although there is no cycle", "graph:toposort:incomplete", rep)


class _Collect:
    def __init__(self):
        self.h: list[tuple[str, str]] = []

    def violation(self, what, sig, rep):
        self.h.append((what, sig))


def graph_hits(stages: list[dict]) -> list[tuple[str, str]]:
    """all graph monitors on one graph (implementation only)"""
    c = _Collect()
    num = graph_numbering(stages)
    _, vclass = run_validate(stages, num)
    _, sort_out, sort_objs = run_sort(stages, num)
    graph_monitors(c, stages, num, vclass, sort_out, sort_objs)
    return c.h


def shrink_graph_case(rep: dict, sig: str) -> dict:
    """delete stages, then requisites, while the same signature still fires (set iteration makes some failures flaky: try 3x)"""
    stages = copy.deepcopy(rep["stages"])

    def fires(st) -> bool:
        return any(any(s == sig for _, s in graph_hits(st)) for _ in range(3))

    if not fires(stages):
        return rep
    changed = True
    while changed:
        changed = False
        for i in range(len(stages)):
            trial = stages[:i] + stages[i + 1:]
            if fires(trial):
                stages, changed = trial, True
                break
        if changed:
            continue
        for i, st in enumerate(stages):
            for r in st["reqs"]:
                trial = copy.deepcopy(stages)
                trial[i]["reqs"] = [x for x in st["reqs"] if x != r]
                if fires(trial):
                    stages, changed = trial, True
                    break
            if changed:
                break
    return {**rep, "stages": stages}


def graph_case(ctx, hits, g: dict, inputs, lines, impl) -> None:
    stages = g["stages"]
    num = graph_numbering(stages)
    gl = graph_line(stages, num)
    vline, vclass = run_validate(stages, num)
    sline, sort_out, sort_objs = run_sort(stages, num)
    inputs += [{"op": "validate", **g}, {"op": "sort", **g}]
    lines += [f"topo validate {gl}", f"topo sort {gl}"]
    impl += [vline, sline]
    ctx.count(["graph", gl], nontrivial=len(stages) >= 2)
    ctx.tag("graph:" + (vline.split()[1] if vline != "ok" else "valid"))
    for k in g.get("injected", []):
        ctx.tag("graph-injected:" + k)
    c = _Collect()
    graph_monitors(c, stages, num, vclass, sort_out, sort_objs)
    for what, sig in c.h:
        hits.add(what, sig, {"kind": "graph", "stages": stages})


def graph_suite(ctx, n: int) -> None:
    inputs, lines, impl = [], [], []
    hits = Hits()
    for _ in range(n):
        graph_case(ctx, hits, gen_graph(ctx.rng, ctx.thorough), inputs, lines, impl)
    hits.flush(ctx)
    if lines:
        ctx.sample({"suite": "topo", "line": lines[min(8, len(lines) - 1)], "impl": impl[min(8, len(lines) - 1)]})
    ctx.correspond("topo", inputs, lines, impl)


# ======================================================================================
# expression part: serialisation
# ======================================================================================

def stok(s: str) -> str:
    for ch in s:
        if 0xD800 <= ord(ch) <= 0xDFFF:
            raise Unrepresentable("surrogate")
    return "s" + ".".join(str(ord(c)) for c in s)


def const_tok(v) -> str:
    if v is None:
        return "N"
    if v is True:
        return "T"
    if v is False:
        return "F"
    if type(v) is int:
        try:
            return f"i{v}"
        except ValueError:
            raise Unrepresentable("hugeint") from None
    if type(v) is str:
        return stok(v)
    raise Unrepresentable(type(v).__name__)


def vtoks(v, out: list[str]) -> None:
    if v is None or v is True or v is False or type(v) is int or type(v) is str:
        out.append(const_tok(v))
    elif type(v) is list or type(v) is tuple:
        out += ["L" if type(v) is list else "U", str(len(v))]
        for x in v:
            vtoks(x, out)
    elif type(v) is dict:
        out += ["D", str(len(v))]
        for k, x in v.items():
            if type(k) is not str:
                raise Unrepresentable("dictkey")
            out.append(stok(k))
            vtoks(x, out)
    else:
        raise Unrepresentable(type(v).__name__)


CMP_TOK = {ast.Eq: "eq", ast.NotEq: "ne", ast.Lt: "lt", ast.LtE: "le", ast.Gt: "gt", ast.GtE: "ge",
           ast.Is: "is", ast.IsNot: "isnot", ast.In: "in", ast.NotIn: "notin"}
UN_TOK = {ast.Not: "not", ast.USub: "neg", ast.UAdd: "pos", ast.Invert: "inv"}


def _is_singleton_syntax(n: ast.AST) -> bool:
    if isinstance(n, ast.Constant):
        return n.value is None or n.value is True or n.value is False
    return isinstance(n, ast.Name) and n.id in SPECIAL_NAMES


def ser_expr(root: ast.AST) -> tuple[list[str], set[str], bool, int]:
    """Prefix tokens of the tree (iterative: trees may be ~1000 deep), node kinds, identity-unspecified flag, node count."""
    out: list[str] = []
    kinds: set[str] = set()
    ident_unspecified = False
    count = 0
    stack: list = [root]
    while stack:
        n = stack.pop()
        if isinstance(n, str):
            out.append(n)
            continue
        count += 1
        if isinstance(n, ast.Constant):
            kinds.add("Constant")
            out += ["c", const_tok(n.value)]
        elif isinstance(n, ast.Name):
            kinds.add("Name")
            out += ["n", stok(n.id)]
        elif isinstance(n, ast.Attribute):
            kinds.add("Attribute")
            out.append("a")
            stack.append(stok(n.attr))
            stack.append(n.value)
        elif isinstance(n, ast.Subscript):
            kinds.add("Subscript")
            out.append("sub")
            stack.append(n.slice)
            stack.append(n.value)
        elif isinstance(n, ast.Compare):
            kinds.add("Compare")
            out += ["cmp", str(len(n.ops))]
            items: list = [n.left]
            operands = [n.left, *n.comparators]
            for i, (op, c) in enumerate(zip(n.ops, n.comparators)):
                kinds.add("op:" + type(op).__name__)
                if isinstance(op, (ast.Is, ast.IsNot)) and not (_is_singleton_syntax(operands[i]) or _is_singleton_syntax(operands[i + 1])):
                    ident_unspecified = True
                items += [CMP_TOK[type(op)], c]
            stack.extend(reversed(items))
        elif isinstance(n, ast.BoolOp):
            kinds.add("BoolOp")
            kinds.add("op:" + type(n.op).__name__)
            out += ["and" if isinstance(n.op, ast.And) else "or", str(len(n.values))]
            stack.extend(reversed(n.values))
        elif isinstance(n, ast.UnaryOp):
            kinds.add("UnaryOp")
            kinds.add("op:" + type(n.op).__name__)
            out.append(UN_TOK[type(n.op)])
            stack.append(n.operand)
        elif isinstance(n, ast.IfExp):
            kinds.add("IfExp")
            out.append("if")
            stack.extend([n.orelse, n.body, n.test])
        elif isinstance(n, (ast.List, ast.Tuple)):
            kinds.add(type(n).__name__)
            out += ["list" if isinstance(n, ast.List) else "tup", str(len(n.elts))]
            stack.extend(reversed(n.elts))
        else:
            kinds.add("unsupported:" + type(n).__name__)
            out += ["x", type(n).__name__]
    return out, kinds, ident_unspecified, count


def classify(text: str):
    """The prologue of evaluate_expression + ast.parse, as a Parsed class. -> (tokens | None if outside the model, kinds, ident flag, size)"""
    if not text or not text.strip():
        return ["blank"], {"parsed:blank"}, False, 0
    expr = text.strip()
    if expr.lower() in ("true", "1"):
        return ["fast1"], {"parsed:fast"}, False, 0
    if expr.lower() in ("false", "0"):
        return ["fast0"], {"parsed:fast"}, False, 0
    try:
        with warnings.catch_warnings():
            warnings.simplefilter("ignore")
            tree = ast.parse(expr, mode="eval")
    except SyntaxError:
        return ["syntax"], {"parsed:syntax"}, False, 0
    except RecursionError:
        return ["raised", "RecursionError"], {"parsed:raised:RecursionError"}, False, 0
    except MemoryError:
        return ["raised", "MemoryError"], {"parsed:raised:MemoryError"}, False, 0
    except ValueError:
        return ["raised", "ValueError"], {"parsed:raised:ValueError"}, False, 0
    try:
        toks, kinds, ident, size = ser_expr(tree.body)
    except Unrepresentable as u:
        return None, {f"monitor-only:{u}"}, False, 0
    return toks, kinds, ident, size


def ctx_toks(context: dict) -> list[str]:
    out = [str(len(context))]
    for k, v in context.items():
        out.append(stok(k))
        vtoks(v, out)
    return out


def exc_class(e: BaseException) -> str:
    from stabilize.expressions import ExpressionError

    for cls, name in ((ExpressionError, "ExpressionError"), (RecursionError, "RecursionError"), (MemoryError, "MemoryError"),
                      (TypeError, "TypeError"), (IndexError, "IndexError"), (ValueError, "ValueError")):
        if isinstance(e, cls):
            return name
    return type(e).__name__


def escape_site(e: BaseException) -> str:
    """Innermost frame of expressions.py in the traceback: a stable label of *where* the foreign exception came from."""
    site = "outside"
    for fs in traceback.extract_tb(e.__traceback__):
        if fs.filename.endswith("expressions.py"):
            site = (fs.line or "").strip()
            if isinstance(e, (RecursionError, MemoryError)):
                site = "ast.parse" if "ast.parse" in site else "_eval_node recursion" if fs.name == "_eval_node" else site
                if site == "ast.parse":
                    break
    return re.sub(r"\s+", " ", site)[:80]


def py_eval(text, context):
    """-> ('v', value) | ('err', class, exception)"""
    from stabilize.expressions import evaluate_expression

    with warnings.catch_warnings():
        warnings.simplefilter("ignore")
        try:
            return ("v", evaluate_expression(text, context))
        except (KeyboardInterrupt, SystemExit):
            raise
        except BaseException as e:  # noqa: BLE001
            return ("err", exc_class(e), e)


def canon_outcome(res, class_only: bool = False) -> str | None:
    if res[0] == "v":
        if class_only:
            return "v ?"
        out: list[str] = []
        try:
            vtoks(res[1], out)
        except Unrepresentable:
            return None
        return "v " + " ".join(out)
    return "err " + res[1]


# ---- monitors ---------------------------------------------------------------------------

class Hits:
    """collect monitor hits, keep the smallest witness per signature, report at the end"""

    def __init__(self):
        self.best: dict[str, tuple[int, str, dict]] = {}
        self.count: dict[str, int] = {}

    def add(self, what: str, sig: str, rep: dict) -> None:
        size = len(json.dumps(rep, default=str))
        self.count[sig] = self.count.get(sig, 0) + 1
        if sig not in self.best or size < self.best[sig][0]:
            self.best[sig] = (size, what, rep)

    def flush(self, ctx) -> None:
        for sig, (_, what, rep) in sorted(self.best.items()):
            rep = shrink_expr_case(rep, sig) if rep.get("kind") == "expr" else shrink_graph_case(rep, sig) if rep.get("kind") == "graph" else rep
            for _ in range(self.count[sig]):
                ctx.violation(what, sig, rep)
        self.best.clear()
        self.count.clear()


def expr_monitor(text: str, context: dict):
    """The property as stated, on the implementation only. -> (outcome, [(what, signature)])"""
    out = []
    before = copy.deepcopy(context)
    res = py_eval(text, context)
    if res[0] == "err" and res[1] != "ExpressionError":
        e = res[2]
        out.append((f"evaluate_expression raised {type(e).__name__} ({str(e)[:80]}) instead of a value / ExpressionError",
                    f"expr:escape:{res[1]}:{escape_site(e)}"))
    if context != before:
        out.append(("evaluate_expression mutated its context", "expr:impure:context-mutated"))
    res2 = py_eval(text, context)
    same = res2[0] == res[0] and (res[1] == res2[1] if res[0] == "err" else _same_value(res[1], res2[1]))
    if not same:
        out.append(("evaluate_expression is not repeatable on the same input", "expr:impure:not-repeatable"))
    return res, out


def _same_value(a, b) -> bool:
    try:
        return type(a) is type(b) and (a == b or (a != a and b != b))
    except Exception:  # noqa: BLE001
        return False


def shrink_expr_case(rep: dict, sig: str) -> dict:
    """drop context keys (then shorten nested values) while the same signature still fires"""
    text, context = rep["text"], copy.deepcopy(rep["context"])

    def fires(c) -> bool:
        try:
            _, hits = expr_monitor(text, copy.deepcopy(c))
        except Exception:  # noqa: BLE001
            return False
        return any(s == sig for _, s in hits)

    if not fires(context):
        return rep
    for k in list(context):
        trial = {kk: vv for kk, vv in context.items() if kk != k}
        if fires(trial):
            context = trial
    for k in list(context):
        for simple in (None, 0, "", [], {}):
            trial = dict(context)
            trial[k] = simple
            if trial[k] != context[k] and fires(trial):
                context = trial
                break
    return {**rep, "context": context}


def caller_monitor(text: str, context: dict, direct) -> list[tuple[str, str]]:
    """Both callers on the real classes: no exception, and the documented outcome."""
    from stabilize.handlers.complete_stage.split_logic import CompleteStagesSplitMixin
    from stabilize.handlers.start_stage.conditions import StartStageConditionsMixin
    from stabilize.models.stage import SplitType, StageExecution
    from stabilize.models.workflow import Workflow

    out = []
    # -- OR-split: d0 has no condition (always activated), d1 carries the condition
    up = StageExecution(ref_id="up", name="up", type="t", context=copy.deepcopy(context), split_type=SplitType.OR,
                        split_conditions={"d1": text})
    d0 = StageExecution(ref_id="d0", name="d0", type="t", requisite_stage_ref_ids={"up"})
    d1 = StageExecution(ref_id="d1", name="d1", type="t", requisite_stage_ref_ids={"up"})
    import logging

    logging.disable(logging.CRITICAL)
    saved_filters = warnings.filters[:]
    warnings.simplefilter("ignore")
    try:
        try:
            act, skipped = CompleteStagesSplitMixin()._apply_split_logic(up, [d0, d1])
            got = "activate" if d1 in act else "skip" if d1 in skipped else "lost"
        except (KeyboardInterrupt, SystemExit):
            raise
        except BaseException as e:  # noqa: BLE001
            got = "crash:" + exc_class(e)
        if direct[0] == "v":
            want = "activate" if direct[1] else "skip"
        elif direct[1] == "ExpressionError":
            want = "skip"
        else:
            want = None  # evaluate_expression itself already violates; the caller crash is reported on its own
        if got.startswith("crash"):
            out.append((f"_apply_split_logic raised {got[6:]} on a split condition", f"caller:split:{got}"))
        elif want is not None and got != want:
            out.append((f"_apply_split_logic: branch outcome {got}, expected {want}", f"caller:split:outcome:{got}-for-{want}"))
        # -- stageEnabled expression
        sctx = copy.deepcopy(context)
        sctx["stageEnabled"] = {"type": "expression", "expression": text}
        st = StageExecution(ref_id="s", name="s", type="t", context=sctx)
        wf = Workflow.create("app", "wf", [st])  # keep a reference: stage.execution is a weakref
        direct2 = py_eval(text, dict(st.context))
        try:
            r = StartStageConditionsMixin()._should_skip(st)
            got2 = "skip" if r is True else "noskip" if r is False else f"other:{r!r}"
        except (KeyboardInterrupt, SystemExit):
            raise
        except BaseException as e:  # noqa: BLE001
            got2 = "crash:" + exc_class(e)
        if direct2[0] == "v":
            want2 = "noskip" if direct2[1] else "skip"
        elif direct2[1] == "ExpressionError":
            want2 = "noskip"
        else:
            want2 = None
        if got2.startswith("crash"):
            out.append((f"_should_skip raised {got2[6:]} on a stageEnabled expression", f"caller:skip:{got2}"))
        elif want2 is not None and got2 != want2:
            out.append((f"_should_skip answered {got2}, expected {want2}", f"caller:skip:outcome:{got2}-for-{want2}"))
        del wf
    finally:
        logging.disable(logging.NOTSET)
        warnings.filters[:] = saved_filters
    return out


# ======================================================================================
# expression part: generators
# ======================================================================================

KEYS = ["x", "y", "z", "d", "items", "cfg", "flag", "n", "s", "a", "b", "k", "naïve", "数", "true", "None_", "status", "_p"]
MISSING = ["missing", "q", "undefined_name", "w"]
STR_ALPHABET = ["a", "b", "c", "A", "z", " ", "", "0", "1", "-", "_", ".", "é", "ß", "λ", "数", "🙂", "'", '"', "\\", "\n", "\t", "ab", "abc", "key", "x", "k"]


def gen_str(rng) -> str:
    return "".join(rng.choice(STR_ALPHABET) for _ in range(rng.choice([0, 1, 1, 2, 2, 3, 5])))


def gen_int(rng) -> int:
    return rng.choice([0, 1, 2, 3, -1, -2, 5, 7, 10, 255, 256, -257, 10 ** 18, 2 ** 63, -(2 ** 64) - 1, 10 ** 30, rng.randint(-50, 50)])


def gen_value(rng, depth: int):
    r = rng.random()
    if depth <= 0 or r < 0.5:
        return rng.choice([None, True, False, gen_int(rng), gen_int(rng), gen_str(rng), gen_str(rng), "abc", 1, 0, ""])
    if r < 0.75:
        return [gen_value(rng, depth - 1) for _ in range(rng.choice([0, 1, 2, 3, 4]))]
    return {rng.choice(KEYS + ["k1", "k2", "a b", ""]): gen_value(rng, depth - 1) for _ in range(rng.choice([0, 1, 2, 3]))}


def gen_context(rng) -> dict:
    n = rng.choice([0, 1, 2, 3, 4, 5, 6])
    c = {k: gen_value(rng, rng.choice([0, 1, 2, 3])) for k in rng.sample(KEYS, n)}
    for k in ("d", "cfg"):
        if k in c and rng.random() < 0.7:   # make sure mappings and sequences are common under the usual names
            c[k] = {rng.choice(KEYS + ["k1", ""]): gen_value(rng, 2) for _ in range(rng.choice([0, 1, 2, 3]))}
    if "items" in c and rng.random() < 0.7:
        c["items"] = [gen_value(rng, 1) for _ in range(rng.choice([0, 1, 2, 3, 5]))]
    return c


def mutate_value(rng, v):
    """a value related to `v`: equal, equal up to bool/int, a prefix, one element changed, reordered dict"""
    r = rng.random()
    if r < 0.2:
        return copy.deepcopy(v)
    if isinstance(v, bool):
        return int(v) if r < 0.6 else not v
    if isinstance(v, int):
        return rng.choice([v + 1, v - 1, -v, bool(v) if v in (0, 1) else v, str(v)])
    if isinstance(v, str):
        return rng.choice([v + "a", v[:-1], v[1:], v.upper(), v + v, "a" + v])
    if isinstance(v, list):
        w = copy.deepcopy(v)
        if w and r < 0.5:
            i = rng.randrange(len(w))
            w[i] = mutate_value(rng, w[i])
            return w
        return rng.choice([w[:-1], w + [gen_value(rng, 1)], w[::-1], w + w])
    if isinstance(v, dict):
        items = list(copy.deepcopy(v).items())
        rng.shuffle(items)
        w = dict(items)
        if w and r < 0.6:
            k = rng.choice(list(w))
            w[k] = mutate_value(rng, w[k])
        elif r < 0.8:
            w["extra"] = 1
        return w
    return rng.choice([0, "", [], {}, False])


PAIR_TEMPLATES = ["p == q", "p != q", "p < q", "p <= q", "p > q", "p >= q", "p in q", "p not in q", "q in p", "p is q", "p is not None",
                  "p[q]", "q[p]", "-p", "not p", "p.k", "p if q else 0", "[p] < [q]", "(p, 1) <= (q, 1)", "[p, q] == [q, p]", "p < q < p",
                  "p == q == p", "(p, q) in [(q, p), (p, q)]", "p[0] < q[0]", "p[-1]", "p[True]", "p and q", "p or q", "[p][q]", "p[(q,)]",
                  "(p,) < (q,)", "[[p]] >= [[q]]", "p in [q]", "p in (q, p)", "q[p] == p", "-p < q", "not p == q", "p.k[q]", "{k}[p]", "p[{k}]"]


def gen_pair_case(rng):
    a = gen_value(rng, rng.choice([0, 0, 1, 2, 2]))
    b = mutate_value(rng, a) if rng.random() < 0.6 else gen_value(rng, rng.choice([0, 1, 2]))
    t = rng.choice(PAIR_TEMPLATES).replace("{k}", rng.choice(["d", "'k'", "1", "items"]))
    c = {"p": a, "q": b}
    if rng.random() < 0.5:
        c["d"] = {"k": a, "a": b}
        c["items"] = [a, b, a]
    return t, c


CMP_TEXT = ["==", "!=", "<", "<=", ">", ">=", "is", "is not", "in", "not in"]
UNSUPPORTED = [
    "f({a})", "len({a})", "{a}.get('k')", "{a}.keys()", "__import__('os')", "lambda: {a}", "lambda q: q", "{a} + {b}", "{a} - {b}",
    "{a} * 2", "{a} / {b}", "{a} // {b}", "{a} % {b}", "{a} ** 2", "{a} @ {b}", "{a} << 1", "{a} >> 1", "{a} | {b}", "{a} & {b}",
    "{a} ^ {b}", "{{'k': {a}}}", "{{{a}}}", "{{}}", "[q for q in {a}]", "{{q for q in {a}}}", "{{q: 1 for q in {a}}}", "(q for q in {a})",
    "(w := {a})", "f'{{{a}}}'", "f'x'", "[*{a}]", "(*{a},)", "await {a}", "(yield)", "(yield {a})", "{a}[1:2]", "{a}[::2]", "{a}[:]",
    "{a}[1:2, 3]", "print", "{a}.__class__", "{a}.__class__.__mro__", "{a} if {b} else {a}({b})",
]
OUTSIDE_MODEL = ["1.5", "-2.5", "1e3", "float", "2j", "b'x'", "...", "1.0 == 1", "{a} < 2.5", "[1.5, {a}]", "-...", "-b'q'", "0.0 or {a}", "1e999"]


class ExprGen:
    def __init__(self, rng):
        self.rng = rng

    def name(self) -> str:
        r = self.rng.random()
        if r < 0.7:
            return self.rng.choice(KEYS)
        if r < 0.85:
            return self.rng.choice(MISSING)
        return self.rng.choice(SPECIAL_NAMES)

    def literal(self) -> str:
        r = self.rng.random()
        if r < 0.35:
            v = gen_int(self.rng)
            return self.rng.choice([str(v), str(v), hex(v) if v >= 0 else str(v), f"{v:_}" if v >= 0 else str(v)])
        if r < 0.7:
            return repr(gen_str(self.rng))
        return self.rng.choice(["None", "True", "False"])

    def atom(self) -> str:
        return self.name() if self.rng.random() < 0.55 else self.literal()

    def paren(self, s: str, p: float = 0.8) -> str:
        return f"({s})" if self.rng.random() < p else s

    def expr(self, d: int) -> str:
        rng = self.rng
        if d <= 0:
            return self.atom()
        r = rng.random()
        if r < 0.12:
            return self.atom()
        if r < 0.22:   # attribute chain
            base = self.postfix_base(d - 1)
            return base + "".join("." + rng.choice(KEYS + ["k1", "real", "get"]) for _ in range(rng.choice([1, 1, 2, 3])))
        if r < 0.36:   # subscript
            base = self.postfix_base(d - 1)
            key = rng.choice([self.expr(d - 1), self.literal(), str(rng.randint(-4, 4)), repr(rng.choice(KEYS)), "True",
                              f"[{self.expr(d - 1)}]", f"({self.expr(d - 1)},)", f"{self.atom()}, {self.atom()}", "[]", "()",
                              f"-{self.atom()}"])
            return f"{base}[{key}]"
        if r < 0.56:   # compare chain
            k = rng.choice([1, 1, 1, 2, 2, 3])
            parts = [self.paren(self.expr(d - 1), 0.85)]
            for _ in range(k):
                op = rng.choice(CMP_TEXT)
                rhs = self.paren(self.expr(d - 1), 0.85)
                if op in ("is", "is not") and rng.random() < 0.8:
                    rhs = rng.choice(["None", "True", "False", "none", "null", "true"])
                parts += [op, rhs]
            return " ".join(parts)
        if r < 0.68:   # boolop
            op = rng.choice([" and ", " or "])
            return op.join(self.paren(self.expr(d - 1), 0.7) for _ in range(rng.choice([2, 2, 3, 4])))
        if r < 0.80:   # unary
            op = rng.choice(["not ", "not ", "-", "-", "-", "+", "~"])
            return op + self.paren(self.expr(d - 1), 0.75)
        if r < 0.86:   # ternary
            return f"({self.expr(d - 1)} if {self.expr(d - 1)} else {self.expr(d - 1)})"
        if r < 0.94:   # list / tuple
            k = rng.choice([0, 1, 2, 3])
            elts = [self.expr(d - 1) for _ in range(k)]
            if rng.random() < 0.5:
                return "[" + ", ".join(elts) + "]"
            return "(" + ", ".join(elts) + ("," if k == 1 else "") + ")"
        # unsupported construct somewhere inside a supported one
        t = rng.choice(UNSUPPORTED)
        return self.paren(t.format(a=self.paren(self.expr(d - 1), 0.9), b=self.paren(self.expr(d - 1), 0.9)), 0.9)

    def postfix_base(self, d: int) -> str:
        if self.rng.random() < 0.7:
            return self.name()
        return f"({self.expr(d)})"


RAW_FRAGS = ['x', 'y', 'd', '1', '0', '-', 'not ', '(', ')', '[', ']', '{', '}', ',', ':', '.', 'a', ' and ', ' or ', ' in ', ' not in ',
             ' is ', ' is not ', '==', '!=', '<', '<=', '>', '>=', '"s"', "'t'", 'None', 'True', 'false', 'null', ' if ', ' else ',
             'lambda', 'f(', '**', '*', '+', '~', '\\', '\n', '\t', '\x00', '\ud800', 'é', 'λ', '1.5', '1e999', '1j', '...', 'b"x"',
             'f"{x}"', ':=', '@', '%', '//', '<<', '|', '&', '^', '`', '$', '?', '!', '#', ';', '=', '0x1F', '1_0', '0b1', '0o7',
             'await ', 'yield ', 'async ', 'for ', ' in range', 'import ', '__', '"""', '\x0c', '\r', '\ufeff', '\u2028', '¹', '२', ' ',
             'TRUE', 'False', '01', '9' * 30]
ESCAPES = [
    "__import__('os').system('touch {canary}')", "open('{canary}', 'w')", "().__class__.__bases__[0].__subclasses__()",
    "x.__class__.__init__.__globals__", "eval('1')", "exec('import os')", "compile('1', 'a', 'eval')", "getattr(x, 'y')",
    "[c for c in ().__class__.__base__.__subclasses__()]", "(lambda: __import__('os'))()", "globals()", "locals()",
    "__builtins__", "x.__dict__", "breakpoint()", "input()", "print('x')", "exit()", "type(x)(1)", "x.pop('a')", "d.clear()",
    "d.update(k=1)", "x.append(1)", "d.setdefault('zz', 1)", "d.__setitem__('zz', 1)",
]


def gen_raw(rng) -> str:
    return "".join(rng.choice(RAW_FRAGS) for _ in range(rng.randint(1, 9)))


def deep_texts(rng, thorough: bool):
    """nesting around the depth bound, beyond CPython's recursion limit and beyond the parser's stack"""
    depths = [150, 198, 199, 200, 201, 202, 250, 400, 600]
    depths += [900, 985, 995, 1100, 3000, 6500] if True else []
    if thorough:
        depths += [rng.randint(150, 1200) for _ in range(12)] + [12000]
    for k in depths:
        yield "not-chain", "not " * k + "x"
        yield "neg-chain", "-" * k + "1"
        yield "neg-chain-name", "-" * k + "n"
        yield "attr-chain", "x" + ".a" * k
        yield "subscript-chain", "x" + "[0]" * k
        if k <= 1200:
            yield "ternary-chain", "".join(f"{i % 3} if flag else " for i in range(k)) + "7"
            yield "paren-nest", "(" * k + "x" + ")" * k
            yield "list-nest", "[" * k + "x" + "]" * k
            yield "tuple-nest", "(" * k + "x" + ",)" * k
            yield "mixed-chain", "".join(rng.choice(["not ", "-", "not -"]) for _ in range(k)) + "n"
            yield "sub-in-key", "d" + "[d" * k + "]" * k


MATRIX_CONTEXT = {"vBig": 10 ** 400, "vFz": 0.0, "vN": None, "vT": True, "vF": False, "vI": 3, "vZ": 0, "vS": "ab", "vE": "", "vL": [1, "a"], "vLL": [[1], [1, 2]],
                  "vD": {"ab": 1, "k": [1]}, "vDD": {"k": [1], "ab": True}}
ARITH_ATOMS = ["vI", "vZ", "vS", "vN", "vL", "vT", "vBig", "vFz", "0", "1", "-1", "0.0", "1.5", "vMissing"]
MATRIX_ATOMS = ["vN", "vT", "vF", "vI", "vZ", "vS", "vE", "vL", "vLL", "vD", "vDD", "vMissing", "(1, 'a')", "()", "[]", "'a'", "1", "-1",
                "(vL, 1)", "[vD]"]


def matrix_texts():
    """every operator x every pair of operand kinds (exhaustive, ~6k expressions): the 'one operand-type combination' space"""
    for a in MATRIX_ATOMS:
        for op in ("not ", "-", "+", "~"):
            yield f"{op}{a}"
        yield f"{a}.ab"
        yield f"{a}.k.x"
        yield f"[{a}]"
        yield f"({a},)"
        yield f"1 if {a} else 2"
        for b in MATRIX_ATOMS:
            for op in CMP_TEXT:
                yield f"{a} {op} {b}"
            yield f"{a}[{b}]"
            yield f"{a} and {b}"
            yield f"{a} or {b}"
            yield f"[{a}] < [{b}]"
            yield f"{a} < {b} <= {a}"
            yield f"-{a} == {b}"
    # arithmetic / bitwise binary operators are not part of the documented grammar: whatever the evaluator does with them
    # (reject, or evaluate) no foreign exception may escape - zero divisors, huge operands, non-numeric operands
    for a in ARITH_ATOMS:
        for b in ARITH_ATOMS:
            for op in ("+", "-", "*", "/", "//", "%", "**", "<<", ">>", "|", "&", "^", "@"):
                yield f"{a} {op} {b}"
                yield f"{a} {op} {b} > 0"


# ======================================================================================
# expression part: suites
# ======================================================================================

def expr_case(ctx, hits: Hits, text: str, context: dict, stream: str, inputs, lines, impl, with_callers: bool) -> None:
    toks, kinds, ident_unspec, size = classify(text)
    res, mon = expr_monitor(text, context)
    rep = {"kind": "expr", "text": text, "context": context}
    for what, sig in mon:
        hits.add(what, sig, rep)
    ctx.tag("outcome:" + ("value" if res[0] == "v" else res[1]))
    if res[0] == "err":
        ctx.tag("error-kind:" + " ".join(str(res[2]).split(":")[0].split()[:3]))
    for k in kinds:
        ctx.tag(("node:" + k) if not k.startswith(("parsed:", "monitor-only:")) else k)
    ctx.tag("stream:" + stream)
    ctx.count(["expr", text, context], nontrivial=size >= 2 or stream != "grammar")
    if with_callers:
        for what, sig in caller_monitor(text, context, res):
            hits.add(what, sig, {"kind": "caller", "text": text, "context": context})
    if toks is None:
        return
    try:
        ctoks = ctx_toks(context)
    except Unrepresentable:
        ctx.tag("monitor-only:context")
        return
    if ident_unspec:
        # `a is b` on two non-singleton objects: CPython interning decides (and through chain short-circuiting even the
        # outcome class can depend on it, e.g. `'' is not '' <= true`); the theorems quantify over every identity oracle,
        # the implementation is monitored, the model is not consulted
        ctx.tag("monitor-only:identity")
        return
    out = canon_outcome(res, False)
    if out is None:
        ctx.tag("monitor-only:result")
        return
    if GUARDS[4] != "1" and stream.startswith("deep") and 120 < len(text) // 12 and len(text) < 9000:
        return  # development mode against the unfixed code: CPython's exact recursion threshold is not modelled
    stack = MODEL_STACK if GUARDS[4] == "1" else 1000
    inputs.append({"text": text, "context": context, "stream": stream})
    lines.append(" ".join(["expr", GUARDS, str(stack), "0", *ctoks, *toks]))
    impl.append(out)


def expr_suite(ctx, n_grammar: int, n_pairs: int, n_raw: int, deep: bool) -> None:
    rng = ctx.rng
    hits = Hits()
    inputs, lines, impl = [], [], []
    sampled = [False]

    def flush() -> None:
        if lines and not sampled[0]:
            i = min(11, len(lines) - 1)
            ctx.sample({"suite": "expr", "text": inputs[i]["text"], "context": inputs[i]["context"], "line": lines[i][:300], "impl": impl[i][:200]})
            sampled[0] = True
        if lines:
            ctx.correspond("expr", list(inputs), list(lines), list(impl))
        inputs.clear()
        lines.clear()
        impl.clear()

    g = ExprGen(rng)
    for i in range(n_grammar):
        if len(lines) >= 50000:
            flush()
        text = g.expr(rng.choice([1, 2, 2, 3, 3, 4, 5]))
        if rng.random() < 0.04:
            text = rng.choice(OUTSIDE_MODEL).format(a=g.atom())
        if rng.random() < 0.05:
            text = rng.choice([" ", "\t", "\n ", ""]) + text + rng.choice([" ", "\n", "  "])
        expr_case(ctx, hits, text, gen_context(rng), "grammar", inputs, lines, impl, with_callers=(i % 7 == 0))
    # fast path / blank / near misses
    for text in ["", " ", "\n", "\t \n", "true", "TRUE", " True ", "1", " 1", "false", "FALSE", "0", "0 ", "tRuE", "01", "1 ", "00", "truee",
                 "true false", "yes", "no", "on", "null", "none", "None", "true and false", "1 and 0", "not true", "not 1", "true == 1"]:
        expr_case(ctx, hits, text, gen_context(rng), "prologue", inputs, lines, impl, with_callers=True)
    flush()
    nm = 0
    for text in matrix_texts():
        nm += 1
        expr_case(ctx, hits, text, copy.deepcopy(MATRIX_CONTEXT), "matrix", inputs, lines, impl, with_callers=(nm % 13 == 0))
    ctx.extra["exhaustive_operator_x_operand_kind_matrix"] = nm
    flush()
    for i in range(n_pairs):
        text, cx = gen_pair_case(rng)
        expr_case(ctx, hits, text, cx, "pairs", inputs, lines, impl, with_callers=(i % 11 == 0))
        if len(lines) >= 50000:
            flush()
    for i in range(n_raw):
        expr_case(ctx, hits, gen_raw(rng), gen_context(rng), "raw", inputs, lines, impl, with_callers=(i % 5 == 0))
    # sandbox escapes: refused, and nothing happened
    from harness import core

    sd = core.scratch_dir()
    try:
        canary = sd / "c20-canary"
        for t in ESCAPES:
            cx = {"x": {"a": 1, "y": 2}, "d": {"k": 1}}
            before = copy.deepcopy(cx)
            text = t.format(canary=str(canary))
            expr_case(ctx, hits, text, cx, "escape", inputs, lines, impl, with_callers=True)
            if canary.exists() or cx != before:
                hits.add("a condition expression had a side effect", "expr:impure:side-effect", {"kind": "expr", "text": text, "context": before})
                if canary.exists():
                    canary.unlink()
    finally:
        import shutil

        shutil.rmtree(sd, ignore_errors=True)
    if deep:
        for kind, text in deep_texts(rng, ctx.thorough):
            cx = {"x": {"a": {"a": 1}}, "n": 3, "flag": False, "d": {"k": 1}}
            expr_case(ctx, hits, text, cx, "deep:" + kind, inputs, lines, impl, with_callers=(len(text) < 5000))
    # non-str conditions: outside the statement ("input text"), recorded as a note only
    nonstr = []
    for v in (True, 5, 1.5, ["x"], {"a": 1}, b"x"):
        r = py_eval(v, {})
        if r[0] == "err" and r[1] != "ExpressionError":
            nonstr.append(f"{v!r}->{r[1]}")
    if nonstr:
        ctx.notes.append("non-str expression (outside the property's quantifier) escapes with: " + ", ".join(nonstr))
    # ... but the two CALLERS take their condition from stage data (JSON), where a malformed condition may just as well be a
    # bool, a number, a list or a dict: "a malformed condition can skip a branch but cannot crash a stage"
    for v in (True, False, 0, 5, 1.5, ["x"], [], {"a": 1}, {}, b"x", ("x",), 10 ** 30):
        cx = gen_context(rng)
        for what, sig in caller_monitor(v, cx, py_eval(v, dict(cx))):
            hits.add(what, sig + ":non-str-condition", {"kind": "caller-nonstr", "condition": repr(v), "context": cx})
        ctx.count({"caller-nonstr": repr(v)}, True)
    flush()
    hits.flush(ctx)


# ======================================================================================
# replays, entry points
# ======================================================================================

def replay_case(ctx, body: dict, verbose: bool = False) -> list[tuple[str, str]]:
    """Re-run one replay body against the implementation; returns the monitor hits."""
    body = body.get("replay", body)
    kind = body.get("kind")
    found: list[tuple[str, str]] = []
    if kind == "graph":
        c = _Collect()
        stages = body["stages"]
        num = graph_numbering(stages)
        vline, vclass = run_validate(stages, num)
        sline, sort_out, sort_objs = run_sort(stages, num)
        graph_monitors(c, stages, num, vclass, sort_out, sort_objs)
        if verbose:
            print(f"  validate_stage_graph -> {vline}\n  topological_sort     -> {sline}\n  oracle               -> {graph_oracle(stages)}")
        found = c.h
    elif kind == "expr-repeat":
        # text = prefix * k + suffix for k in [lo, hi]: CPython's recursion threshold depends on the caller's stack depth
        lo, hi = body["count"]
        seen: set[str] = set()
        for k in range(lo, hi + 1):
            text = body["prefix"] * k + body["suffix"]
            res, hits = expr_monitor(text, copy.deepcopy(body.get("context", {})))
            for what, sig in hits:
                if sig not in seen:
                    seen.add(sig)
                    found.append((f"{what} [text = {body['prefix']!r}*{k} + {body['suffix']!r}]", sig))
                    if verbose:
                        print(f"  evaluate_expression({body['prefix']!r}*{k} + {body['suffix']!r}) raised {type(res[2]).__name__}: {str(res[2])[:100]}")
    elif kind in ("expr", "caller"):
        text, context = body["text"], body.get("context", {})
        res, found = expr_monitor(text, copy.deepcopy(context))
        if verbose:
            shown = repr(text) if len(text) < 120 else repr(text[:60]) + f"...({len(text)} chars)"
            print(f"  evaluate_expression({shown}, {json.dumps(context, default=str)[:200]})")
            print("  -> " + (f"value {res[1]!r}"[:200] if res[0] == "v" else f"raised {type(res[2]).__name__}: {str(res[2])[:120]}"))
        found = found + caller_monitor(text, copy.deepcopy(context), res)
    elif kind == "caller-nonstr":
        v = ast.literal_eval(body["condition"])
        context = body.get("context", {})
        found = [(w, sg + ":non-str-condition") for w, sg in caller_monitor(v, copy.deepcopy(context), py_eval(v, dict(context)))]
        if verbose:
            print(f"  callers with the non-string condition {v!r}: {found or 'no crash'}")
    else:
        raise ValueError(f"unknown replay kind {kind!r}")
    return found


def run_replays(ctx) -> None:
    d = Path(__file__).resolve().parent.parent.parent / "replays" / "C20"
    n = 0
    for f in sorted(d.glob("*.json")):
        body = json.loads(f.read_text())
        n += 1
        for what, sig in replay_case(ctx, body):
            ctx.violation(what, sig, {**body.get("replay", body), "from_replay": f.name})
        ctx.count(["replay", f.name])
    ctx.extra["replays_run"] = n


def run(ctx) -> None:
    from harness import core

    core.ensure_repo_on_path()
    run_replays(ctx)
    graph_suite(ctx, ctx.n(2500, 80000))
    expr_suite(ctx, ctx.n(9000, 300000), ctx.n(4000, 120000), ctx.n(2500, 80000), deep=True)


def search(ctx) -> None:
    """A proof obligation / the correspondence broke and no monitor fired: hunt with the monitors only, larger budget."""
    hits = Hits()
    rng = ctx.rng
    g = ExprGen(rng)
    for text in matrix_texts():
        cx = copy.deepcopy(MATRIX_CONTEXT)
        res, mon = expr_monitor(text, cx)
        for what, sig in mon + caller_monitor(text, cx, res):
            hits.add(what, sig, {"kind": "expr", "text": text, "context": MATRIX_CONTEXT})
    for i in range(ctx.n(40000, 300000)):
        text = g.expr(rng.choice([1, 2, 3, 4, 5])) if i % 3 else gen_raw(rng)
        context = gen_context(rng)
        res, mon = expr_monitor(text, context)
        for what, sig in mon:
            hits.add(what, sig, {"kind": "expr", "text": text, "context": context})
        if i % 4 == 0:
            for what, sig in caller_monitor(text, context, res):
                hits.add(what, sig, {"kind": "caller", "text": text, "context": context})
    hits.flush(ctx)
    for _ in range(ctx.n(20000, 150000)):
        gr = gen_graph(rng, True)
        stages = gr["stages"]
        for what, sig in graph_hits(stages):
            hits.add(what, sig, {"kind": "graph", "stages": stages})
    hits.flush(ctx)


def replay(ctx, body) -> int:
    from harness import core

    core.ensure_repo_on_path()
    print(f"replay C20: {body.get('what', body.get('replay', body).get('kind'))}")
    found = replay_case(ctx, body, verbose=True)
    for what, sig in found:
        print(f"  FAILS: {what}   [{sig}]")
    if not found:
        print("  property holds on this input")
    return 1 if found else 0
