"""C01 — crash anywhere, restart with recovery: same outcome as an uninterrupted run (engine-level: Mode-A trace differential + monitors; see harness/engine_suites.py)."""
from __future__ import annotations

from harness import conc_suite, engine_suites, synth_suites

RULE = ("random workflows (1-5 stages, every join type, scripted task outcomes incl. polling / transient / jump / suspend) x "
        "delivery schedules (fifo | random order | random + redelivery of unacknowledged messages | arbitrary incl. early re-polls), "
        "per workflow the reference FIFO run is taken, then the worker is killed at commit k of delivery j (quick: 5 sampled (j,k) per workflow, thorough: EVERY commit of every delivery), restarted, locks expired, recovery sweep(s), FIFO drain; every op is applied to the REAL engine and the Lean model, the state line after every op is compared; "
        "a trace is distinct by (spec, op list) and non-trivial when it has >= 8 ops and a non-FIFO choice or an injected op;"
        " PLUS the synthetic-stage family (harness/synth_suites.py, IMPLEMENTATION-ONLY: monitors on real-engine traces, no model line): workflows of 1-3 top-level stages (single | chain | two parallel roots | fan-in), some with 1-2 pre-declared STAGE_BEFORE and / or STAGE_AFTER children (children 1 task, parents 0-2; task results succeed | terminal | fail-continue | poll then succeed | suspend), stored through the real store, driven by the crash family only: reference in-order run, kill after k commits of delivery j (quick: 64 workflows x 5 points, those about parents / children / ContinueParentStage first; thorough: every point), restart, sweep(s) before or after the lock lapses, late redelivery of the un-acked row, in-order drain; judged by smon_c01 (statuses of all stages incl. children, per-task execution counts), smon_c05 and the transition-table monitor")
ASSUMPTIONS = ["delays are abstracted: budget-respecting schedules deliver a delayed message only when no immediate one is pending",
               "per-workflow circuit breaker disabled in the harness (volatile state outside the model)",
               "synthetic-stage family: the reference is the uninterrupted in-order run on the tree under test (recomputed on replay); comparison of statuses / execution counts is skipped for halting workflows when the crash run reorders messages, as in mon_c01",
               "synthetic-stage family: the nine defects it found on the unchanged tree (S1-S9) were repaired (F44-F51); its pending gate (synth_suites.PENDING) is empty, every synth: signature is reported"]
TRUSTED_BASE = ["Engine model (lean/Stab/Model/Engine.lean) is hand-written; tied to handlers/* by the trace differential on generated schedules only",
                "not modelled: synthetic stages (and ContinueParentStage), mutex/deferred choice, OR-split conditions, pause/resume, timeouts, PostgreSQL backend",
                "synthetic before/after stages are covered by an IMPLEMENTATION-ONLY family (harness/synth_suites.py): the property is stated by monitors on traces of the real engine; "
                "no theorem and no model correspondence speaks about them; trusted there: the generator, the monitors' reading of the property (ASSUMPTIONS), the queue's dead-letter rule as replayed by the harness (op q = the real check_and_move_expired after max_attempts deliveries)"]


def run(ctx) -> None:
    engine_suites.run_for(ctx, "C01")
    # synthetic before/after stages: implementation-only family (monitors on real-engine traces, no model line)
    synth_suites.run_for(ctx, "C01")
    # AddMultiInstance under a kill after each of its commits: implementation-only (the message is outside the Lean model)
    conc_suite.run_for(ctx, "C01", kinds=("mi",))


def search(ctx) -> None:
    engine_suites.search_for(ctx, "C01")


def replay(ctx, body) -> int:
    if conc_suite.is_replay(body):
        return conc_suite.replay(ctx, body)
    if synth_suites.is_synth_replay(body):
        return synth_suites.replay(ctx, body)
    return engine_suites.replay(ctx, body)
