"""C13 — events and the state they describe commit together."""
from __future__ import annotations

import json
import shutil
import sqlite3
from pathlib import Path
from typing import Any

RULE = ("txnscope-ops: random op sequences (begin / append / state write / commit / abort / nested begin up to depth 3 / inner abort with "
        "and without propagation / crash) on the REAL store.transaction() + EventRecorder + SqliteEventStore in one SQLite file with a "
        "synchronous bus subscriber that checks through a second connection whether the event row is committed at the moment it is "
        "published; per-op outputs and final durable/published/write logs compared with the Lean TxnScope model. "
        "engine-crash: small real workflows (event store in the same file) killed at EVERY commit index, consistency of events vs rows "
        "checked at the crash state and again after restart + drain. engine-faults: exception after the event append / in "
        "mark_message_processed inside the completion transaction, optimistic-lock conflict (version bumped through a second connection "
        "just before the handler's store_stage) for CompleteTask, CompleteStage, SkipStage. A case is distinct by (op list) resp. "
        "(workflow spec, crash index | fault) and non-trivial when it contains a rollback, a crash, a nested block or an injected fault. "
        "PLUS synthetic-stage workloads (IMPLEMENTATION-ONLY; signatures prefixed synth:): 8 fixed workflows with pre-declared STAGE_BEFORE / STAGE_AFTER children (succeeding, a failing sibling "
        "before-stage, failed parent with an after-stage, task-less parent, FAILED_CONTINUE / TERMINAL / SKIPPED / CANCELED / STOPPED children, a disabled parent) + generated ones through the same "
        "engine-crash suite (quick: every 5th commit index, offset = seed; thorough: every index) and engine-faults suite (quick: 2 fixed + 1 generated, first occurrence of each fault; thorough: all, "
        "first and second), same `consistency` oracle.")
ASSUMPTIONS = [
    "single worker thread per scope (the scope is thread-local); the event store uses the same connection string as the workflow store",
    "a process kill = a BaseException raised by the k-th real commit + rebuilding every engine object from the file",
    "the bus subscriber is synchronous (SubscriptionMode.SYNC)",
    "synthetic-stage workloads: 'completed by the regular task- or stage-completion step' is decided per row by the delivery that wrote it (evsrc writer attribution): a parent that "
    "ContinueParentStage marks failed (no event is recorded at all, nothing to commit together) is outside this property and counted under the tag outside-C13:...; it is C12's finding S10",
]
TRUSTED_BASE = [
    "events/txn_scope.py, EventRecorderBase._record and SqliteWorkflowStore.transaction() are modelled by hand (Stab.TxnScope), tied by Mode A on random op sequences",
    "SQLite: commit/rollback of one connection is atomic and covers every statement since the last commit; AUTOINCREMENT re-issues rolled-back numbers",
    "translate/event_sites.py: lexical position of recorder calls relative to `with ….transaction(…)` blocks",
    "that handlers never nest transaction blocks is observed (max scope depth over all engine runs), not proved",
]

SIG_NESTED = "nested-rollback-swallowed:published-not-durable"
SIG_F10_CRASH = "skip-event-without-skip:crash-between-append-and-commit"
SIG_F10_DUP = "duplicate-skip-event:retry-after-append"
SIG_WF_CRASH = "workflow-final-event-without-final-status:crash-between-append-and-commit"
SIG_WF_DUP = "duplicate-workflow-final-event:retry-after-append"
COMPLETION_TYPES = {"task.completed", "task.failed", "stage.completed", "stage.failed"}


# --------------------------------------------------------------------------------------
# suite 1: the real scope / recorder / store under arbitrary op sequences
# --------------------------------------------------------------------------------------

class ScopeRig:
    def __init__(self, workdir: Path):
        self.path = Path(workdir) / "c13-scope.db"
        for suffix in ("", "-wal", "-shm"):
            p = Path(str(self.path) + suffix)
            if p.exists():
                p.unlink()
        self.url = f"sqlite:///{self.path}"
        self.published: list[tuple[int, int, bool]] = []     # (tag, seq, committed at publication time)
        self.stack: list[Any] = []
        self.ro: sqlite3.Connection | None = None
        self._open()

    def _open(self) -> None:
        from stabilize import SqliteWorkflowStore
        from stabilize.events import SqliteEventStore, configure_event_sourcing, get_event_bus

        from harness.evsrc import reset_globals

        reset_globals()
        self.store = SqliteWorkflowStore(self.url, create_tables=True)
        self.es = SqliteEventStore(self.url, create_tables=True)
        self.rec = configure_event_sourcing(self.es)
        get_event_bus().subscribe("verif", self._on_event)
        if self.ro is None:
            self.ro = sqlite3.connect(str(self.path), isolation_level=None)

    def _on_event(self, e) -> None:  # noqa: ANN001
        row = self.ro.execute("SELECT event_id FROM events WHERE sequence=?", (e.sequence,)).fetchone()
        self.published.append((int(e.data["jump_type"]), e.sequence, row is not None and row[0] == e.event_id))

    def depth(self) -> int:
        from stabilize.events.txn_scope import current_scope

        sc = current_scope()
        return 0 if sc is None else sc.depth

    def op(self, o: str) -> str:
        if o == "B":
            cm = self.store.transaction()
            txn = cm.__enter__()
            self.stack.append((cm, txn))
            return f"d{self.depth()}"
        if o[0] == "A":
            ev = self.rec.record_jump_executed(workflow_id="w", from_stage_id="a", to_stage_id="b", jump_type=o[1:])
            return f"s{ev.sequence}"
        if o[0] == "W":
            if self.stack:
                self.stack[-1][1].mark_message_processed(message_id="w" + o[1:], handler_type="verif", execution_id=None)
            else:
                self.store.mark_message_processed("w" + o[1:], "verif", None)
            return "w"
        if o == "C":
            cm, _ = self.stack.pop()
            cm.__exit__(None, None, None)
            return f"d{self.depth()}p{len(self.published)}"
        if o == "R":
            cm, _ = self.stack.pop()
            exc = RuntimeError("injected")
            try:
                swallowed = cm.__exit__(RuntimeError, exc, None)
            except RuntimeError:
                swallowed = False
            assert not swallowed
            return f"d{self.depth()}p{len(self.published)}"
        if o == "X":
            # the process dies: open blocks never exit, connections vanish with their uncommitted work
            stack, self.stack = self.stack, []
            self._open()
            del stack
            return "x"
        raise AssertionError(o)

    def final(self) -> tuple[list[tuple[int, int]], list[int]]:
        dur = [(int(json.loads(d)["jump_type"]), s) for s, d in self.ro.execute("SELECT sequence, data FROM events ORDER BY sequence")]
        wr = [int(m[1:]) for (m,) in self.ro.execute("SELECT message_id FROM processed_messages ORDER BY rowid")]
        return dur, wr

    def close(self) -> None:
        from harness.evsrc import reset_globals

        self.stack = []
        if self.ro is not None:
            self.ro.close()
        reset_globals()


def gen_ops(rng) -> list[str]:
    n = rng.choice([1, 3, 5, 8, 12, 18])
    ops: list[str] = []
    depth = 0
    tag = 0
    for _ in range(n):
        r = rng.random()
        if depth == 0:
            if r < 0.45:
                ops.append("B"); depth = 1
            elif r < 0.7:
                tag += 1; ops.append(f"A{tag}")
            elif r < 0.85:
                tag += 1; ops.append(f"W{tag}")
            elif r < 0.92:
                ops.append("X")
            else:
                ops.append("B"); depth = 1
        else:
            if r < 0.35:
                tag += 1; ops.append(f"A{tag}")
            elif r < 0.5:
                tag += 1; ops.append(f"W{tag}")
            elif r < 0.68:
                ops.append("C"); depth -= 1
            elif r < 0.83:
                ops.append("R"); depth -= 1
                # an exception normally propagates: the enclosing blocks abort too
                if depth > 0 and rng.random() < 0.6:
                    ops += ["R"] * depth; depth = 0
            elif r < 0.93 and depth < 3:
                ops.append("B"); depth += 1
            else:
                ops.append("X"); depth = 0
    if depth and rng.random() < 0.8:
        ops += [rng.choice(["C", "R"]) for _ in range(depth)]
    return ops


def swallowed_pattern(ops: list[str]) -> bool:
    """Does some block commit at depth 1 after an inner block of it rolled back?"""
    depth = 0
    tainted = False
    for o in ops:
        if o == "B":
            if depth == 0:
                tainted = False
            depth += 1
        elif o == "C" and depth:
            depth -= 1
            if depth == 0 and tainted:
                return True
        elif o == "R" and depth:
            depth -= 1
            tainted = depth > 0
        elif o == "X":
            depth, tainted = 0, False
    return False


def clears_flag(ctx) -> bool:
    """Generated shape fact: does the inner-block branch of abort_store_transaction clear scope.pending?"""
    try:
        import translate.txn_shape as tsx

        return bool(tsx.extract()["inner_abort_clears_pending"])
    except Exception as e:
        ctx.notes.append(f"txn_shape translator failed in harness: {e}")
        return False


def run_scope_case(ctx, ops: list[str], work: Path, clears: bool = False) -> tuple[str, str]:
    rig = ScopeRig(work)
    try:
        outs = []
        for i, o in enumerate(ops):
            n_pub, (dur_before, _) = len(rig.published), rig.final()
            outs.append(rig.op(o))
            dur_after, _ = rig.final()
            # ---- monitors on the implementation ----
            if o == "R" and (len(rig.published) != n_pub or dur_after != dur_before):
                ctx.violation("a rolled-back block published or appended something", "abort-not-clean", {"ops": ops, "step": i})
            for tag, seq, committed in rig.published[n_pub:]:
                if not committed:
                    sig = SIG_NESTED if swallowed_pattern(ops[: i + 1]) else "published-before-commit"
                    ctx.violation(f"event tag {tag} (sequence {seq}) was published while its row was not committed", sig,
                                  {"ops": ops, "step": i, "tag": tag, "sequence": seq})
        dur, wr = rig.final()
        seqs = [s for _, s in dur]
        if seqs != sorted(set(seqs)):
            ctx.violation("durable sequences not strictly increasing", "sequence-not-increasing", {"ops": ops, "durable": dur})
        durset = set(dur)
        pubs = [(t, s) for t, s, _ in rig.published]
        if clears or not swallowed_pattern(ops):
            if any(p not in durset for p in pubs):
                ctx.violation("a published event is not durable", "published-not-durable", {"ops": ops, "published": pubs, "durable": dur})
            if [s for _, s in pubs] != sorted(s for _, s in pubs) or len(set(pubs)) != len(pubs):
                ctx.violation("publication order differs from append order", "publish-order", {"ops": ops, "published": pubs})

        def show(l):
            return ",".join(f"{t}@{s}" for t, s in l) or "-"

        impl = ("|".join(outs) or "-") + " # " + f"durable={show(dur)} published={show(pubs)} writes={','.join(map(str, wr)) or '-'} depth={rig.depth()}"
        return f"txnscope run {int(clears)} " + (";".join(ops) or "-"), impl
    finally:
        rig.close()


FIXED_OPS = [
    ["B", "W1", "A2", "C"], ["B", "W1", "A2", "R", "A3"], ["A1", "B", "A2", "B", "A3", "C", "R", "A4"],
    ["B", "A1", "B", "R", "C"],            # inner rollback swallowed, outer commits (model counterexample)
    ["B", "A1", "B", "R", "R", "A2"], ["B", "A1", "X", "A2", "B", "A3", "C"], ["B", "A1", "B", "A2", "C", "A3", "X", "A4"],
]


def scope_suite(ctx, n: int, work: Path) -> None:
    inputs, lines, impl = [], [], []
    cases = [list(x) for x in FIXED_OPS] + [gen_ops(ctx.rng) for _ in range(n)]
    clears = clears_flag(ctx)
    ctx.extra["inner_abort_clears_pending"] = clears
    for ops in cases:
        line, out = run_scope_case(ctx, ops, work, clears)
        inputs.append(ops)
        lines.append(line)
        impl.append(out)
        ctx.count(ops, nontrivial=any(o in ("R", "X") for o in ops) or ops.count("B") > 1)
        for o in set(x[0] for x in ops):
            ctx.tag("op:" + o)
        if swallowed_pattern(ops):
            ctx.tag("ops:inner-rollback-swallowed")
        if any(a == "B" and b == "B" for a, b in zip(ops, ops[1:])) or ops.count("B") > 1:
            ctx.tag("ops:multi-block")
    ctx.sample({"suite": "txnscope-ops", "line": lines[3], "impl": impl[3]})
    ctx.correspond("txnscope-ops", inputs, lines, impl)


# --------------------------------------------------------------------------------------
# engine level
# --------------------------------------------------------------------------------------

def consistency(ctx, env, robj: dict, where: str, crashed: bool, lossy: bool = False) -> None:
    """Events table vs stage/task rows + subscriber log, at a crash state or at the end of a run."""
    rows = env.event_rows()
    status = {}
    for wi in range(len(env.workflows)):
        status.update(env.store_statuses(wi))
    by_ent: dict[str, list[dict]] = {}
    for r in rows:
        by_ent.setdefault(env.ref(r["entity_id"]) or "?", []).append(r)
    # P1: no completion event for an entity whose row is not in that completed status
    for r in rows:
        ref = env.ref(r["entity_id"])
        if r["event_type"] in COMPLETION_TYPES or (r["event_type"] == "stage.skipped" and r["source_handler"] == "CompleteStageHandler"):
            want = r["data"].get("status", "SKIPPED" if r["event_type"] == "stage.skipped" else None)
            if status.get(ref) != want:
                ctx.violation(f"{where}: {r['event_type']} event (status {want}) is durable but the row of {ref} holds {status.get(ref)}",
                              f"phantom-completion-event:{r['event_type']}", robj | {"where": where, "entity": ref, "event": r["event_type"], "row": status.get(ref)})
            else:
                ctx.tag("ok:completion-event-has-row")
    # P2: no completed row written by CompleteTask / CompleteStage without its event
    for ref, st in status.items():
        kinds = None
        if "k" in ref and st in ("SUCCEEDED", "TERMINAL", "FAILED_CONTINUE", "STOPPED", "REDIRECT"):
            kinds = ("task.completed", "task.failed")
        elif "s" in ref and "k" not in ref and st in ("SUCCEEDED", "FAILED_CONTINUE", "TERMINAL", "STOPPED"):
            kinds = ("stage.completed", "stage.failed")
        if kinds:
            ident = next((i for w in env.workflows for i in [*w["stage_ids"], *w["task_ids"]] if env.ref(i) == ref), None)
            if "k" not in ref and env.writer_of(ident, st) == "ContinueParentStage":
                # the property speaks of completions "committed by the regular task- or stage-completion step"; a parent that
                # ContinueParentStage marks failed because a before / after-stage failed is written by another step, which
                # records no event at all (nothing to commit together) - a C12 matter (replay), counted here
                ctx.tag("outside-C13:parent-failed-by-ContinueParentStage(no-event-recorded)")
                continue
            if not any(r["event_type"] in kinds and r["data"].get("status") == st for r in by_ent.get(ref, [])):
                how = ""
                if "k" not in ref:
                    # CompleteStageHandler's `except Exception` fallback stores TERMINAL + context["exception"] and records nothing
                    sid = next(i for w in env.workflows for i in w["stage_ids"] if env.ref(i) == ref)
                    sctx = json.loads(env.ro.execute("SELECT context FROM stage_executions WHERE id=?", (sid,)).fetchone()["context"] or "{}")
                    if st == "TERMINAL" and "injected failure" in json.dumps(sctx.get("exception", "")):
                        how = ":error-path-of-CompleteStage-after-injected-failure"
                ctx.violation(f"{where}: row of {ref} holds {st} (written by the completion step) but no completion event is durable",
                              f"completed-row-without-event:{kinds[0].split('.')[0]}{how}", robj | {"where": where, "entity": ref, "row": st})
            else:
                ctx.tag("ok:completed-row-has-event")
    # P3: subscriber saw only committed events, in order, each once; without a crash it saw all of them
    durable_ids = [r["event_id"] for r in rows]
    pub_ids = [p["event_id"] for p in env.published]
    for p in env.published:
        if not p["committed"]:
            ctx.violation(f"{where}: {p['type']} was published before its row was committed", "published-before-commit",
                          robj | {"where": where, "event": p["type"], "sequence": p["seq"]})
    if any(i not in set(durable_ids) for i in pub_ids):
        ctx.violation(f"{where}: a published event is not durable", "published-not-durable", robj | {"where": where})
    if len(set(pub_ids)) != len(pub_ids):
        ctx.violation(f"{where}: an event was published twice", "published-twice", robj | {"where": where})
    if not crashed and not lossy and pub_ids != durable_ids:
        ctx.violation(f"{where}: subscriber log differs from the durable events (crash-free run)", "subscriber-log-differs",
                      robj | {"where": where, "published": len(pub_ids), "durable": len(durable_ids)})
    seqs = [r["sequence"] for r in rows]
    if seqs != sorted(set(seqs)):
        ctx.violation(f"{where}: sequences not unique/increasing", "sequence-not-increasing", robj | {"where": where})
    # observations outside the completion steps (F10 and its workflow-level twin): event recorded BEFORE the transaction
    for ref, evs in by_ent.items():
        skips = [r for r in evs if r["event_type"] == "stage.skipped" and r["source_handler"] == "SkipStageHandler"]
        if skips and status.get(ref) != "SKIPPED":
            ctx.violation(f"{where}: STAGE_SKIPPED recorded by SkipStageHandler is durable (and was published) but the row of {ref} holds {status.get(ref)}",
                          SIG_F10_CRASH if crashed else "skip-event-without-skip", robj | {"where": where, "entity": ref, "row": status.get(ref)})
        if len(skips) > 1:
            ctx.violation(f"{where}: {len(skips)} STAGE_SKIPPED events for one skip of {ref}", SIG_F10_DUP, robj | {"where": where, "entity": ref, "count": len(skips)})
        fin = [r for r in evs if r["event_type"] in ("workflow.completed", "workflow.failed", "workflow.canceled")]
        if fin and status.get(ref) not in ("SUCCEEDED", "TERMINAL", "CANCELED"):
            ctx.violation(f"{where}: {fin[0]['event_type']} is durable (and was published) but the workflow row holds {status.get(ref)}",
                          SIG_WF_CRASH if crashed else "workflow-final-event-without-final-status", robj | {"where": where, "entity": ref, "row": status.get(ref)})
        if len(fin) > 1:
            ctx.violation(f"{where}: {len(fin)} final workflow events for {ref}", SIG_WF_DUP, robj | {"where": where, "entity": ref, "count": len(fin)})


class DepthWatch:
    """Observe the maximal scope depth the engine ever reaches (do handlers nest transaction blocks?)."""

    def __init__(self) -> None:
        import stabilize.events.txn_scope as ts

        self.ts = ts
        self.orig = ts.begin_store_transaction
        self.max = 0

        def begin(conn, url):  # noqa: ANN001
            self.orig(conn, url)
            sc = ts.current_scope()
            if sc is not None:
                self.max = max(self.max, sc.depth)

        ts.begin_store_transaction = begin

    def stop(self) -> int:
        self.ts.begin_store_transaction = self.orig
        return self.max


ENGINE_SPECS = [
    [{"tasks": ["S"]}],
    [{"tasks": ["S", "S"]}, {"reqs": [0], "tasks": ["S"]}],
    [{"tasks": ["S"]}, {"reqs": [0], "enabled": False}, {"reqs": [1], "tasks": ["S"]}],
    [{"tasks": ["T"]}, {"reqs": [0], "tasks": ["S"]}],
    [{"tasks": ["F"], "cont": True}, {"reqs": [0], "tasks": ["S"]}],
    [{"tasks": ["S"]}, {"reqs": [0], "tasks": ["S"]}, {"reqs": [0], "enabled": False}, {"reqs": [1, 2], "tasks": ["S"]}],
    [{"tasks": ["S", "P"]}],
    [{"tasks": ["C"]}, {"reqs": [0]}],
    # upstream completions that also write the downstream join's tracking context (auto-commit store outside the block)
    [{"tasks": ["S"]}, {"tasks": ["S"]}, {"reqs": [0, 1], "join": "DISCRIMINATOR", "tasks": ["S"]}],
    [{"tasks": ["S"]}, {"tasks": ["F"], "cont": True}, {"reqs": [0, 1], "join": "N_OF_M", "threshold": 1, "tasks": ["S"]}],
]


# synthetic before / after stages (implementation-only workloads: the txn-scope model says nothing about them; the same
# `consistency` oracle is applied, children are ordinary stage refs w0s<idx> after the top-level ones)
SYNTH_ENGINE_SPECS = [
    [{"tasks": ["S"], "synth": [{"owner": "B", "tasks": ["S"]}, {"owner": "A", "tasks": ["S"]}]}],
    [{"tasks": ["S"], "synth": [{"owner": "B", "tasks": ["S"]}, {"owner": "B", "tasks": ["T"]}]}, {"reqs": [0], "tasks": ["S"]}],
    [{"tasks": ["T"], "synth": [{"owner": "A", "tasks": ["S"]}]}],
    [{"tasks": [], "synth": [{"owner": "B", "tasks": ["F"]}, {"owner": "A", "tasks": ["S"]}]}, {"tasks": ["S"]}],
    [{"tasks": ["S"], "cont": True, "synth": [{"owner": "A", "tasks": ["T"]}, {"owner": "A", "tasks": ["S"]}]}],
    [{"tasks": ["S", "S"], "synth": [{"owner": "B", "tasks": ["K"]}, {"owner": "A", "tasks": ["C"]}]}],
    [{"tasks": ["S"]}, {"reqs": [0], "enabled": False, "synth": [{"owner": "B", "tasks": ["S"]}]}, {"reqs": [1], "tasks": ["S"], "synth": [{"owner": "A", "tasks": ["P"]}]}],
    [{"tasks": ["S"], "synth": [{"owner": "A", "tasks": ["F"]}, {"owner": "A", "tasks": ["S"]}]}],     # FAILED_CONTINUE after-stage: finishes its parent itself
    # CHAINS of before- and after-stages (the second child has the first one as requisite)
    [{"tasks": ["S"], "synth": [{"owner": "B", "tasks": ["S"]}, {"owner": "B", "tasks": ["S"], "req": 0}, {"owner": "A", "tasks": ["S"]}, {"owner": "A", "tasks": ["S"], "req": 2}]}],
    [{"tasks": ["S"], "synth": [{"owner": "B", "tasks": ["F"]}, {"owner": "B", "tasks": ["S"], "req": 0}, {"owner": "A", "tasks": ["T"]}, {"owner": "A", "tasks": ["S"], "req": 2}]}],
]


def gen_synth_engine_spec(rng) -> list[dict]:
    n = rng.choice([1, 1, 2])
    spec = []
    for i in range(n):
        sp: dict[str, Any] = {"reqs": [i - 1] if i and rng.random() < 0.5 else [], "tasks": [rng.choice("SSSSSTF") for _ in range(rng.choice([0, 1, 1, 2]))]}
        if rng.random() < 0.2:
            sp["cont"] = True
        spec.append(sp)
    par = rng.randrange(n)
    nb, na = rng.choice([(1, 0), (0, 1), (1, 1), (2, 0), (0, 2), (1, 1)])
    spec[par]["synth"] = [{"owner": "B", "tasks": [rng.choice("SSSSTFKC")]} for _ in range(nb)] + \
                         [{"owner": "A", "tasks": [rng.choice("SSSSTFKC")]} for _ in range(na)]
    if nb == 2 and rng.random() < 0.5:
        spec[par]["synth"][1]["req"] = 0
    if na == 2 and rng.random() < 0.5:
        spec[par]["synth"][nb + 1]["req"] = nb
    return spec


def gen_engine_spec(rng) -> list[dict]:
    from harness.props.c12 import gen_spec

    spec = gen_spec(rng)[:3]
    for i, sp in enumerate(spec):
        sp["reqs"] = [r for r in sp["reqs"] if r < len(spec)]
        sp["tasks"] = [t if t != "X" else "T" for t in sp["tasks"]][:2]
    return spec


def crash_suite(ctx, specs: list[list[dict]], work: Path, stride: int = 1, offset: int = 0) -> None:
    """kill at EVERY commit index (stride 1); the synthetic-stage workloads of the quick tier use every `stride`-th index,
    starting at `offset` (which rotates with the seed), so that all of them fit into the budget"""
    from harness.evsrc import CTL, Crash, Env

    for spec in specs:
        # crash-free run: number of commits, final checks
        env = Env(work, name="c13")
        watch = DepthWatch()
        try:
            env.add_workflow(spec)
            CTL.arm(10 ** 9)
            env.drain()
            total = CTL.commits
            CTL.arm(None)
            consistency(ctx, env, {"suite": "engine-crash", "spec": spec, "crash_at": None}, "end of crash-free run", crashed=False)
        finally:
            ctx.tag(f"max-scope-depth:{watch.stop()}")
            env.close()
        ctx.count(["crash-free", spec], nontrivial=False)
        for k in range(offset % stride if stride > 1 else 0, total, stride):
            robj = {"suite": "engine-crash", "spec": spec, "crash_at": k}
            env = Env(work, name="c13")
            try:
                env.add_workflow(spec)      # 2 commits of its own happen before arming
                CTL.arm(k)
                died = False
                try:
                    env.drain()
                except Crash:
                    died = True
                CTL.arm(None)
                ctx.count(["crash", spec, k])
                if not died:
                    ctx.tag("crash:not-reached")
                    continue
                ctx.tag("crash:died")
                pub_before = list(env.published)
                env.restart()
                env.published = pub_before
                consistency(ctx, env, robj, f"state after kill at commit {k}", crashed=True)
                env.drain()
                consistency(ctx, env, robj, f"after restart and drain (kill at commit {k})", crashed=True)
            finally:
                env.close()
    ctx.corr_suites["engine-crash-points"] += 0


def _inside_txn_handler(handler: str) -> bool:
    """Does this handler record its event inside its transaction (per the generated site table of the tree under check)?"""
    try:
        import translate.event_sites as es

        mod = {"CompleteTask": "handlers/complete_task.py", "CompleteStage": "handlers/complete_stage/handler.py",
               "SkipStage": "handlers/skip_stage.py", "CompleteWorkflow": "handlers/complete_workflow.py"}[handler]
        rows = [r for r in es.extract()["rows"] if r["module"] == mod and r["kind"] in ("direct", "helper-call")]
        return bool(rows) and all(r["position"] == "inside" for r in rows)
    except Exception:
        return False


def fault_suite(ctx, specs: list[list[dict]], work: Path, only: dict | None = None, nths: tuple = (1, 2)) -> None:
    """Injected failures inside / around the completion transaction."""
    from stabilize.events.store.sqlite.store import SqliteEventStore
    from stabilize.persistence.sqlite.transaction import AtomicTransaction

    from harness.evsrc import Env

    faults = [{"kind": k, "handler": h, "nth": n} for k in ("mark", "append", "append-before", "cas") for h in ("CompleteTask", "CompleteStage", "SkipStage", "CompleteWorkflow")
              for n in nths]
    if only is not None:
        faults = [only]
    for spec in specs:
        for fault in faults:
            if fault["kind"] == "cas" and fault["handler"] == "CompleteWorkflow":
                continue
            robj = {"suite": "engine-faults", "spec": spec, "fault": fault}
            env = Env(work, name="c13")
            state = {"seen": 0, "fired": False, "msg": None}
            orig_mark, orig_append, orig_store = AtomicTransaction.mark_message_processed, SqliteEventStore.append, AtomicTransaction.store_stage
            orig_deliver = env.deliver

            def deliver(row_id, _env=env, _state=state, _orig=orig_deliver):
                row = _env.ro.execute("SELECT message_type FROM queue_messages WHERE id=?", (row_id,)).fetchone()
                _state["msg"] = row["message_type"] if row else None
                try:
                    return _orig(row_id)
                finally:
                    _state["msg"] = None

            def hit(_state=state, _fault=fault) -> bool:
                if _state["fired"] or _state["msg"] != _fault["handler"]:
                    return False
                _state["seen"] += 1
                if _state["seen"] == _fault["nth"]:
                    _state["fired"] = True
                    return True
                return False

            def mark(self, *a, **k):
                if fault["kind"] == "mark" and hit():
                    raise RuntimeError("injected failure in mark_message_processed")
                return orig_mark(self, *a, **k)

            def append(self, event, connection=None):
                if fault["kind"] == "append-before" and hit():
                    # the append ITSELF fails with a non-transient error (nothing was inserted): the completion must not commit
                    raise TypeError("injected failure of the event append itself")
                out = orig_append(self, event, connection=connection)
                if fault["kind"] == "append" and hit():
                    raise RuntimeError("injected failure after the event append")
                return out

            def store_stage(self, stage, expected_phase=None, _env=env):
                if fault["kind"] == "cas" and hit():
                    _env.ro.execute("UPDATE stage_executions SET version = version + 1 WHERE id = ?", (stage.id,))
                return orig_store(self, stage, expected_phase=expected_phase)

            AtomicTransaction.mark_message_processed, SqliteEventStore.append, AtomicTransaction.store_stage = mark, append, store_stage
            env.deliver = deliver
            try:
                env.add_workflow(spec)
                trace = env.drain()
                if state["fired"]:
                    ctx.tag(f"fault:{fault['kind']}:{fault['handler']}")
                    ctx.count(["fault", spec, fault])
                    # an exception raised right after a standalone (outside-transaction) append leaves that event durable
                    # but unpublished: allowed ("only committed events are published"), so equality is not demanded there
                    lossy = fault["kind"] == "append" and not _inside_txn_handler(fault["handler"])
                    consistency(ctx, env, robj | {"trace": trace}, f"after fault {fault['kind']} in {fault['handler']} #{fault['nth']}",
                                crashed=False, lossy=lossy)
                    if env.pending():
                        ctx.tag("fault:not-drained")
            finally:
                AtomicTransaction.mark_message_processed, SqliteEventStore.append, AtomicTransaction.store_stage = orig_mark, orig_append, orig_store
                env.close()


def _run(ctx, n_ops: int, n_crash_specs: int, n_fault_specs: int) -> None:
    import logging

    from harness import core

    logging.disable(logging.CRITICAL)
    work = core.scratch_dir()
    try:
        for f in sorted((core.VERIF / "replays" / "C13").glob("*.json")) if (core.VERIF / "replays" / "C13").is_dir() else []:
            body = json.loads(f.read_text())
            _replay_body(ctx, body.get("replay", body), work)
        scope_suite(ctx, n_ops, work)
        specs = ENGINE_SPECS + [gen_engine_spec(ctx.rng) for _ in range(n_crash_specs)]
        crash_suite(ctx, specs, work)
        fspecs = ENGINE_SPECS[:6] + [gen_engine_spec(ctx.rng) for _ in range(n_fault_specs)]
        fault_suite(ctx, fspecs, work)
        # synthetic before / after stages: same suites, same oracle, implementation-only (signatures prefixed synth:)
        import time

        t0 = time.time()
        from harness.synth_suites import PrefixCtx

        sctx = PrefixCtx(ctx)
        pick = ctx.rng.sample(range(len(SYNTH_ENGINE_SPECS)), len(SYNTH_ENGINE_SPECS))
        before = ctx.evaluations
        # quick: every fixed workload + one generated, killed at every 5th commit index (offset = seed); thorough: every index
        sspecs = list(SYNTH_ENGINE_SPECS) + [gen_synth_engine_spec(ctx.rng) for _ in range(max(1, n_crash_specs // 4))]
        crash_suite(sctx, sspecs, work, stride=1 if ctx.thorough else 5, offset=ctx.seed)
        n_fixed_fault = len(SYNTH_ENGINE_SPECS) if ctx.thorough else 2
        sfspecs = [SYNTH_ENGINE_SPECS[i] for i in pick[:n_fixed_fault]] + [gen_synth_engine_spec(ctx.rng) for _ in range(max(1, n_fault_specs // 2))]
        fault_suite(sctx, sfspecs, work, nths=(1, 2) if ctx.thorough else (1,))
        ctx.extra["synthetic_stage_workloads"] = {"model": "none (implementation-only: the consistency oracle on the real engine)",
                                                  "crash_specs": len(sspecs), "fault_specs": len(sfspecs),
                                                  "cases": ctx.evaluations - before, "wall_s": round(time.time() - t0, 1)}
    finally:
        shutil.rmtree(work, ignore_errors=True)


def run(ctx) -> None:
    _run(ctx, ctx.n(400, 4000), ctx.n(4, 60), ctx.n(2, 30))


def search(ctx) -> None:
    _run(ctx, ctx.n(1500, 6000), ctx.n(12, 80), ctx.n(6, 40))


def _replay_body(ctx, r: dict, work: Path) -> None:
    if "ops" in r:
        line, out = run_scope_case(ctx, r["ops"], work, clears_flag(ctx))
        ctx.correspond("txnscope-ops", [r["ops"]], [line], [out])
    elif r.get("suite") == "engine-crash" and r.get("crash_at") == "all":
        crash_suite(ctx, [r["spec"]], work)
    elif r.get("suite") == "engine-crash":
        from harness.evsrc import CTL, Crash, Env

        env = Env(work, name="c13")
        try:
            env.add_workflow(r["spec"])
            CTL.arm(r["crash_at"])
            try:
                env.drain()
            except Crash:
                pass
            CTL.arm(None)
            pub = list(env.published)
            env.restart()
            env.published = pub
            consistency(ctx, env, r, f"state after kill at commit {r['crash_at']}", crashed=True)
            env.drain()
            consistency(ctx, env, r, f"after restart and drain (kill at commit {r['crash_at']})", crashed=True)
        finally:
            env.close()
    elif r.get("suite") == "engine-faults":
        fault_suite(ctx, [r["spec"]], work, only=r["fault"])


def replay(ctx, body) -> int:
    import logging

    from harness import core

    logging.disable(logging.CRITICAL)
    r = body.get("replay", body)
    if not isinstance(r, dict) or not ({"ops", "suite"} & set(r)):
        print("replay file has no failing input (proof/correspondence breakage):")
        print(json.dumps({k: body.get(k) for k in ("proof_obligations_broken", "correspondence_broken")}, indent=1)[:3000])
        return 1
    work = core.scratch_dir()
    try:
        _replay_body(ctx, r, work)
    finally:
        shutil.rmtree(work, ignore_errors=True)
    for h in ctx.monitor_hits:
        print(f"FAILS: {h['what']}  [signature {h['signature']}]")
    for f in ctx.corr_failures[:3]:
        print("MODEL/IMPL DIFFER:", json.dumps(f, default=str)[:800])
    return 1 if (ctx.monitor_hits or ctx.corr_failures) else 0
