"""C16 — a stage sees exactly its ancestors' outputs, the nearest ancestor winning."""
from __future__ import annotations

import itertools
import json
import shutil
from pathlib import Path
from typing import Any

from harness import core, engine_pairs

RULE = (
    "ancestor-merge: random DAGs (1-8 stages, stage i requires a random subset of 0..i-1, random ref-id strings so the "
    "Python set iteration order varies), outputs drawn from a small key pool so keys overlap (atoms None/int/str, lists of atoms, "
    "dicts str->atom), written into real stage rows of a real SqliteWorkflowStore; every stage also outputs a list-valued probe key "
    "holding its own ordinal, so the merged probe value IS the order the code's Kahn pass used; the model must (a) accept that order "
    "as a linear extension of the ancestor sub-DAG and (b) give exactly the same merged dict for it; additionally the result must be "
    "the merge of SOME linear extension (complete enumeration in the model). plan: the real _plan_stage on a reloaded stage with random "
    "own context and random reducers vs planMerge. reducers: every permutation (n<=4 values) of random value multisets through the "
    "real reducer functions vs the model, and the order-insensitivity oracles. loop: real engine runs of jump loops (A -> .. -> B, B jumps "
    "back to A n times, A's outputs change per iteration) recording what B's task is handed. engine-dag: real engine runs of random DAGs "
    "with a scripted task per stage recording the context it is handed. A case is distinct by its canonical driver line; non-trivial when "
    "the target stage has >= 2 ancestors (merge), >= 2 values (reducers) or >= 2 iterations (loop). "
    "PLUS the interleaving pair `startmerge` (harness/engine_pairs.py, Mode B, implementation-only): a1, a2 -> j -> d with the upstreams publishing "
    "items=[a1] / [a2], score=3 / 4, j's own context items=[own], score=0 and output_reducers score=sum; StartStage(j) x a persistent SignalStage(j) in "
    "both directions with the other worker's whole delivery at EVERY legal DB-call point (in particular between StartStage's claim commit and its plan "
    "commit, so that the plan commit loses its version check and merges the re-read row); the context handed to j's task must equal what the un-raced "
    "in-order run hands over (items = a1, a2, own; score = 7), keys starting with `_` aside.")
ASSUMPTIONS = [
    "values are JSON atoms None/int/str, lists of atoms, dicts str->atom (no floats, no bools: Python's `in`/== would identify 1, 1.0 and True)",
    "stage graphs are valid (Workflow.create rejects dangling requisites and cycles; C20)",
    "tasks do not write the engine's reserved `_...` context keys; reserved keys are ignored when comparing contexts",
    "jump-loop model: tasks return outputs only (no TaskResult.context / jump_context writes)",
    "max/min over list or dict values and collect/extend over dict values are outside the modelled value space and not generated",
    "startmerge pair: Mode B granularity (the signal handler runs atomically inside a read / write window of StartStage, and vice versa); one fixed workflow",
]
TRUSTED_BASE = [
    "the hand-written model Stab.Merge of get_merged_ancestor_outputs / _plan_stage / reducers.py / reset_stage_for_retry(context part), "
    "tied to the code by this correspondence only",
    "the order of the direct upstream branches handed to the reducers is whatever get_upstream_stages returns (SQL without ORDER BY); "
    "the model takes it as an input",
    "startmerge pair: no model line — the reference is the real engine's own un-raced in-order run of the same snapshot (computed in the worker "
    "process before the schedules), so the oracle is 'a concurrent non-claim write to the stage row does not change what planning hands to the task'; "
    "that the un-raced value is the right merge is what the plan / engine-dag suites and the theorems are about",
]

PROBE = "zz"
F17_SIG = "F17:rearmed-stage-sees-stale-ancestor-values"


# ------------------------------------------------------------------------------------------------
# canonical text encoding (mirrors Stab.Merge.showOuts / parseOuts)
# ------------------------------------------------------------------------------------------------

def enc_atom(a: Any) -> str:
    if a is None:
        return "n"
    if isinstance(a, bool) or isinstance(a, float):
        raise ValueError(f"outside the modelled value space: {a!r}")
    if isinstance(a, int):
        return f"i{a}"
    if isinstance(a, str):
        return "s" + a
    raise ValueError(f"outside the modelled value space: {a!r}")


def enc_value(v: Any, sort_dict: bool = False) -> str:
    if isinstance(v, list):
        return ":".join(["L"] + [enc_atom(x) for x in v])
    if isinstance(v, dict):
        items = sorted(v.items()) if sort_dict else list(v.items())
        out = ["D"]
        for k, a in items:
            out += [k, enc_atom(a)]
        return ":".join(out)
    return enc_atom(v)


def enc_outs(d: dict, canonical: bool = False) -> str:
    """canonical=True: keys sorted (what the model prints); False: insertion order (what the code iterates)."""
    if not d:
        return "-"
    keys = sorted(d) if canonical else list(d)
    return ",".join(f"{k}={enc_value(d[k], canonical)}" for k in keys)


def strip_reserved(d: dict) -> dict:
    return {k: v for k, v in d.items() if not k.startswith("_")}


def enc_nats(xs) -> str:
    xs = list(xs)
    return ".".join(str(x) for x in xs) if xs else "-"


def enc_graph(reqs: list[list[int]], outs: list[dict]) -> str:
    return "|".join(f"{i};{enc_nats(reqs[i])};{enc_outs(outs[i])}" for i in range(len(reqs)))


def outcome(fn) -> str:
    """canonical outcome of an implementation call returning a dict of outputs"""
    try:
        r = fn()
    except ValueError:
        return "error:ValueError"
    except TypeError:
        return "error:TypeError"
    return enc_outs(strip_reserved(r), canonical=True)


# ------------------------------------------------------------------------------------------------
# generators
# ------------------------------------------------------------------------------------------------

KEYS = ["k0", "k1", "k2", "k3", "k4"]


def gen_atom(rng, kind=None):
    kind = kind or rng.choice(["int", "int", "str", "none"])
    if kind == "int":
        return rng.choice([rng.randint(-3, 9), rng.randint(-3, 9), 10 ** 20 + rng.randint(0, 3)])
    if kind == "str":
        return "".join(rng.choice("abc01") for _ in range(rng.randint(0, 3)))
    return None


def gen_value(rng, allow_dict=True):
    r = rng.random()
    if r < 0.45:
        return gen_atom(rng)
    if r < 0.9 or not allow_dict:
        return [gen_atom(rng) for _ in range(rng.randint(0, 4))]
    return {f"d{rng.randint(0, 3)}": gen_atom(rng) for _ in range(rng.randint(0, 3))}


def gen_dag(rng, nmax=8):
    n = rng.randint(1, nmax)
    dens = rng.choice([0.2, 0.4, 0.7])
    reqs = []
    for i in range(n):
        r = [j for j in range(i) if rng.random() < dens]
        if i and not r and rng.random() < 0.6:
            r = [rng.randrange(i)]
        reqs.append(r)
    return reqs


def gen_outs(rng, n, list_bias=None):
    """overlapping output keys; each key tends to be scalar- or list-valued across stages (so that both the
    pure cases and the mixed ones occur)"""
    list_bias = list_bias or {k: rng.choice([0.0, 0.1, 0.9, 1.0, 0.5]) for k in KEYS}
    outs = []
    for _ in range(n):
        o = {}
        for k in KEYS:
            if rng.random() < 0.45:
                if rng.random() < list_bias[k]:
                    o[k] = [gen_atom(rng) for _ in range(rng.randint(0, 4))]
                else:
                    v = gen_value(rng)
                    o[k] = v if not isinstance(v, list) else gen_atom(rng)
        outs.append(o)
    return outs


def rand_refs(rng, n):
    seen, out = set(), []
    while len(out) < n:
        r = "".join(rng.choice("abcdefghijklmnopqrstuvwxyz") for _ in range(rng.randint(1, 6)))
        if r not in seen:
            seen.add(r)
            out.append(r)
    return out


def closure(reqs: list[list[int]]) -> list[set[int]]:
    anc: list[set[int]] = []
    for i, r in enumerate(reqs):
        s = set(r)
        for j in r:
            s |= anc[j]
        anc.append(s)
    return anc


# ------------------------------------------------------------------------------------------------
# implementation-side oracles (the property as stated; independent of the Lean driver)
# ------------------------------------------------------------------------------------------------

def append_new(existing: list, new: list) -> list:
    """the property's "list values accumulate" (without repeating an item), written independently of the code"""
    out = list(existing)
    for x in new:
        if not any(enc_atom(x) == enc_atom(y) for y in out):
            out.append(x)
    return out


def check_merged_property(ctx, what: str, reqs, outs, s: int, merged: dict, own: dict | None, reducer_keys=(), replay=None):
    """merged = what stage `s` sees (reserved + probe keys stripped). own=None: the bare ancestor merge."""
    ancs = closure(reqs)
    anc = ancs[s]
    own = own or {}
    producers: dict[str, list[int]] = {}
    for a in sorted(anc):
        for k in outs[a]:
            producers.setdefault(k, []).append(a)
    visible = set(merged)
    expect_keys = set(producers) | {k for k in own if k not in reducer_keys}
    for k in sorted(visible - expect_keys):
        foreign = [i for i in range(len(outs)) if i not in anc and k in outs[i]]
        ctx.violation(f"{what}: stage {s} sees key {k!r} that neither it nor an ancestor holds (non-ancestors holding it: {foreign})",
                      "merge:foreign-key", replay)
    for k in sorted(expect_keys - visible):
        ctx.violation(f"{what}: stage {s} does not see key {k!r} (ancestor producers {producers.get(k)}, own {k in own})",
                      "merge:missing-key", replay)
    for k in sorted(visible & expect_keys):
        if k in reducer_keys:
            continue
        ps = producers.get(k, [])
        vals = [outs[p][k] for p in ps]
        v = merged[k]
        if k in own and not isinstance(own[k], list):
            ctx.tag("oracle-own-scalar")
            if v != own[k]:
                ctx.violation(f"{what}: stage {s}: own context value {k}={own[k]!r} does not win (sees {v!r})",
                              "plan:own-not-winning", replay)
            continue
        lists = vals + ([own[k]] if k in own else [])
        if all(isinstance(x, list) for x in lists):
            ctx.tag("oracle-list-key")
            want = [e for x in lists for e in x]
            if not isinstance(v, list) or {enc_atom(e) for e in v} != {enc_atom(e) for e in want}:
                ctx.violation(f"{what}: stage {s}: list key {k!r} = {v!r} does not hold exactly the elements of {lists!r}",
                              "merge:list-elements", replay)
            elif all(len(set(map(enc_atom, x))) == len(x) for x in lists) and len(set(map(enc_atom, v))) != len(v):
                ctx.violation(f"{what}: stage {s}: list key {k!r} = {v!r} has duplicates although none of {lists!r} has",
                              "merge:list-duplicates", replay)
            continue
        if k in own:
            continue  # own list over a mix of list / non-list ancestors: depends on the unordered part
        tops = [p for p in ps if all(q == p or q in ancs[p] for q in ps)]
        if tops and not isinstance(outs[tops[0]][k], list):
            ctx.tag("oracle-path-ordered-key")
            if v != outs[tops[0]][k]:
                ctx.violation(f"{what}: stage {s}: key {k!r}: the nearest producer on every path is stage {tops[0]} "
                              f"with {outs[tops[0]][k]!r} but the stage sees {v!r}", "merge:nearest-not-winning", replay)
        elif not tops and all(not isinstance(x, list) for x in vals):
            ctx.tag("oracle-unordered-key")
            maximal = [p for p in ps if not any(p in ancs[q] for q in ps)]
            if not any(v == outs[p][k] for p in maximal):
                ctx.violation(f"{what}: stage {s}: key {k!r} = {v!r} is not the value of any unshadowed producer {maximal}",
                              "merge:shadowed-value-visible", replay)


# ------------------------------------------------------------------------------------------------
# suites on a real store
# ------------------------------------------------------------------------------------------------

class Env:
    """one scratch SQLite file with a real store (+ planner mixin instance)"""

    def __init__(self):
        from stabilize import SqliteWorkflowStore
        from stabilize.handlers.start_stage.planner import StartStagePlannerMixin

        self.dir = core.scratch_dir()
        self.cs = f"sqlite:///{self.dir}/c16.db"
        self.store = SqliteWorkflowStore(connection_string=self.cs, create_tables=True)

        class Planner(StartStagePlannerMixin):
            pass

        self.planner = Planner()
        self.planner.repository = self.store

    def close(self):
        try:
            self.store.close()
        except Exception:
            pass
        reset_singletons()
        shutil.rmtree(self.dir, ignore_errors=True)


def reset_singletons():
    from stabilize import RunTaskHandler
    from stabilize.events import reset_event_bus, reset_event_migrator, reset_event_recorder
    from stabilize.persistence.connection import ConnectionManager, SingletonMeta
    from stabilize.resilience.cancellation import reset_cancellation_state

    SingletonMeta.reset(ConnectionManager)
    RunTaskHandler._executing_tasks.clear()
    reset_cancellation_state()
    reset_event_bus()
    reset_event_recorder()
    reset_event_migrator()
    from stabilize.queue.dedup import reset_deduplicator

    reset_deduplicator()


def build_workflow(refs, reqs, outs, ctxs=None, reducers=None, impl="c16"):
    from stabilize import StageExecution
    from stabilize.models.task import TaskExecution
    from stabilize.models.workflow import Workflow

    stages = []
    for i, ref in enumerate(refs):
        stages.append(StageExecution(
            ref_id=ref, type="test", name=ref,
            requisite_stage_ref_ids={refs[j] for j in reqs[i]},
            outputs=json.loads(json.dumps(outs[i])) if outs is not None else {},
            context=json.loads(json.dumps((ctxs or {}).get(i, {}))),
            output_reducers=dict((reducers or {}).get(i, {})),
            tasks=[TaskExecution.create(name="t", implementing_class=impl, stage_start=True, stage_end=True)],
        ))
    return Workflow.create(application="c16", name="c16", stages=stages)


def merge_case(ctx, env: Env, case: dict, lines, inputs, impl, suite_tags):
    """one stored workflow; every stage of it is a target of get_merged_ancestor_outputs"""
    reqs, outs, refs = case["reqs"], case["outs"], case["refs"]
    n = len(reqs)
    pouts = [dict(o, **{PROBE: [i]}) for i, o in enumerate(outs)]
    wf = build_workflow(refs, reqs, pouts)
    env.store.store(wf)
    graph = enc_graph(reqs, pouts)
    ancs = closure(reqs)
    for s in case.get("targets", range(n)):
        merged = env.store.get_merged_ancestor_outputs(wf.id, refs[s])
        order = merged.get(PROBE, [])
        line = f"merge merged {s} {enc_nats(order)} {graph}"
        lines.append(line)
        inputs.append({"suite": "ancestor-merge", "case": case, "target": s})
        impl.append(enc_outs(merged, canonical=True))
        ctx.count(line, nontrivial=len(ancs[s]) >= 2)
        ctx.tag(f"ancestors={min(len(ancs[s]), 7)}")
        if len(ancs[s]) <= case.get("admits_max", 6):
            lines.append(f"merge admits {s} {enc_outs(merged, canonical=True)} {graph}")
            inputs.append({"suite": "ancestor-admits", "case": case, "target": s})
            impl.append("true")
        # oracle
        seen = {k: v for k, v in merged.items() if k != PROBE}
        check_merged_property(ctx, "get_merged_ancestor_outputs", reqs, outs, s, seen, None,
                              replay={"kind": "merge", "case": case, "target": s})
        if sorted(order) != sorted(ancs[s]):
            ctx.violation(f"get_merged_ancestor_outputs: stage {s} merged the stages {sorted(order)} but its ancestors are {sorted(ancs[s])}",
                          "merge:wrong-ancestor-set", {"kind": "merge", "case": case, "target": s})
    # unknown stage
    assert env.store.get_merged_ancestor_outputs(wf.id, "no-such-stage") == {}
    env.store.delete(wf.id)


def gen_merge_case(rng) -> dict:
    reqs = gen_dag(rng)
    return {"reqs": reqs, "outs": gen_outs(rng, len(reqs)), "refs": rand_refs(rng, len(reqs))}


REDUCERS = ["collect", "append", "extend", "sum", "max", "min", "merge", "first", "last"]


def gen_reducer_value(rng, name):
    if name in ("max", "min"):
        mode = rng.choice(["int", "int", "str", "mixed"])
        if mode == "mixed":
            return gen_atom(rng)
        if mode == "int" and rng.random() < 0.2:
            return 0        # the falsy extremum: a reducer that filters on truthiness instead of `is not None` drops it
        return gen_atom(rng, rng.choice([mode, mode, mode, "none"]))
    if name in ("collect", "append", "extend"):
        return gen_value(rng, allow_dict=False)
    if name == "sum":
        r = rng.random()
        return gen_atom(rng, "int") if r < 0.7 else (None if r < 0.85 else gen_value(rng))
    if name == "merge":
        r = rng.random()
        return {f"d{rng.randint(0, 4)}": gen_atom(rng) for _ in range(rng.randint(0, 3))} if r < 0.8 else gen_value(rng)
    return gen_value(rng)


def gen_plan_case(rng) -> dict:
    reqs = gen_dag(rng)
    n = len(reqs)
    s = n - 1 if rng.random() < 0.7 else rng.randrange(n)
    outs = gen_outs(rng, n)
    reducers: dict[str, str] = {}
    if rng.random() < 0.6:
        for k in rng.sample(KEYS, rng.randint(1, 3)):
            name = rng.choice(REDUCERS + (["nope"] if rng.random() < 0.1 else []))
            reducers[k] = name
            # make the direct upstream values suit the reducer most of the time
            for b in reqs[s]:
                if rng.random() < 0.8:
                    if rng.random() < 0.8:
                        outs[b][k] = gen_reducer_value(rng, name)
                    else:
                        outs[b].pop(k, None)
    own = {}
    for k in KEYS + ["own0", "own1"]:
        if rng.random() < 0.35:
            own[k] = gen_value(rng)
    return {"reqs": reqs, "outs": outs, "refs": rand_refs(rng, n), "target": s, "reducers": reducers, "own": own}


def reducer_unsupported(case) -> bool:
    """would the real reducer leave the modelled value space (not generated, but guard anyway)"""
    s, reqs, outs = case["target"], case["reqs"], case["outs"]
    for k, name in case["reducers"].items():
        vals = [outs[b][k] for b in reqs[s] if k in outs[b]]
        if name in ("max", "min") and any(isinstance(v, (list, dict)) for v in vals):
            return True
        if name in ("collect", "append", "extend") and any(isinstance(v, dict) for v in vals):
            return True
    return False


def plan_case(ctx, env: Env, case: dict, lines, inputs, impl):
    reqs, outs, refs, s = case["reqs"], case["outs"], case["refs"], case["target"]
    if reducer_unsupported(case):
        ctx.tag("plan-skipped-unsupported")
        return
    pouts = [dict(o, **{PROBE: [i]}) for i, o in enumerate(outs)]
    wf = build_workflow(refs, reqs, pouts, ctxs={s: case["own"]}, reducers={s: case["reducers"]})
    env.store.store(wf)
    loaded = env.store.retrieve(wf.id)
    stage = loaded.stage_by_ref_id(refs[s])
    bo = [refs.index(u.ref_id) for u in env.store.get_upstream_stages(wf.id, refs[s])]
    holder: dict = {}

    def call():
        env.planner._plan_stage(stage)
        holder["ctx"] = stage.context
        return stage.context

    got = outcome(call)
    order = holder.get("ctx", {}).get(PROBE) if "ctx" in holder else None
    if order is None:
        order = env.store.get_merged_ancestor_outputs(wf.id, refs[s]).get(PROBE, [])
    graph = enc_graph(reqs, pouts)
    red = ",".join(f"{k}={v}" for k, v in case["reducers"].items()) or "-"
    line = f"merge stageplan {s} {enc_nats(order)} {enc_nats(bo)} {red} {enc_outs(case['own'])} {graph}"
    lines.append(line)
    inputs.append({"suite": "plan", "case": case})
    impl.append(got)
    ctx.count(line, nontrivial=bool(case["own"]) and len(reqs[s]) >= 1)
    ctx.tag("plan-reducers" if case["reducers"] else "plan-no-reducers", "plan-error" if got.startswith("error") else "plan-ok")
    if "ctx" in holder:
        seen = {k: v for k, v in strip_reserved(holder["ctx"]).items() if k != PROBE}
        check_merged_property(ctx, "_plan_stage", reqs, outs, s, seen, case["own"], reducer_keys=set(case["reducers"]),
                              replay={"kind": "plan", "case": case})
    env.store.delete(wf.id)


# ------------------------------------------------------------------------------------------------
# reducers: every permutation of the branch order
# ------------------------------------------------------------------------------------------------

def reducer_outcome(fn, vals) -> str:
    try:
        r = fn(list(vals))
    except ValueError:
        return "error:ValueError"
    except TypeError:
        return "error:TypeError"
    try:
        return enc_value(r, sort_dict=True)
    except ValueError:
        return "unsupported"


def arith_oracle(name: str, pv: list, got: str) -> str | None:
    """'fan-in reducers combine the values of ALL upstream branches': independent arithmetic oracle for sum / max / min over
    integer branch values (None = the branch did not publish the key)"""
    ints = [v for v in pv if isinstance(v, int) and not isinstance(v, bool)]
    if name not in ("sum", "max", "min") or not ints or not all(v is None or (isinstance(v, int) and not isinstance(v, bool)) for v in pv):
        return None
    want = {"sum": sum, "max": max, "min": min}[name](ints)
    if got != enc_value(want):
        return f"reducer {name} over branch values {pv!r} gives {got} - not the {name} of all published values ({enc_value(want)})"
    return None


def reducers_suite(ctx):
    from stabilize.reducers import _BUILTIN_REDUCERS, apply_output_reducers, get_reducer

    if sorted(_BUILTIN_REDUCERS) != sorted(REDUCERS):
        ctx.corr_failures.append({"suite": "reducers", "input": "registry", "driver_line": "-", "impl": sorted(_BUILTIN_REDUCERS),
                                  "model": sorted(REDUCERS)})
    lines, inputs, impl = [], [], []
    rng = ctx.rng
    for _ in range(ctx.n(250, 2500)):
        name = rng.choice(REDUCERS)
        n = rng.choice([1, 2, 2, 3, 3, 4])
        vals = [gen_reducer_value(rng, name) for _ in range(n)]
        fn = get_reducer(name)
        results = {}
        for perm in set(itertools.permutations(range(n))):
            pv = [vals[i] for i in perm]
            got = reducer_outcome(fn, pv)
            results[perm] = got
            line = f"merge reduce {name} " + "|".join(enc_value(v) for v in pv)
            lines.append(line)
            inputs.append({"suite": "reducers", "name": name, "values": pv})
            impl.append(got)
            ctx.count(line, nontrivial=n >= 2)
        ctx.tag(f"reducer={name}")
        distinct = set(results.values())
        rep = {"kind": "reducer", "name": name, "values": vals}
        for perm, got in results.items():
            msg = arith_oracle(name, [vals[i] for i in perm], got)
            if msg:
                ctx.violation(msg, f"reducer:{name}:not-all-branches", {"kind": "reducer", "name": name, "values": [vals[i] for i in perm]})
                break
        if name in ("sum", "max", "min") and len(distinct) > 1:
            ctx.violation(f"reducer {name} depends on the order of the branches: {vals!r} -> {sorted(distinct)}",
                          f"reducer:{name}:order-dependent", rep)
        if name in ("collect", "append", "extend"):
            ms = {tuple(sorted(r.split(":")[1:])) if r.startswith("L") else r for r in distinct}
            if len(ms) > 1:
                ctx.violation(f"reducer {name}: the multiset of collected items depends on the branch order: {vals!r}",
                              f"reducer:{name}:multiset-order-dependent", rep)
        if name == "merge":
            dicts = [v for v in vals if isinstance(v, dict)]
            allkeys = [k for d in dicts for k in d]
            if len(allkeys) == len(set(allkeys)) and len(distinct) > 1:
                ctx.violation(f"reducer merge of key-disjoint dicts depends on the branch order: {vals!r}",
                              "reducer:merge:disjoint-order-dependent", rep)
    # apply_output_reducers: missing keys in some branches, several reducers, unknown names
    for _ in range(ctx.n(150, 1500)):
        nb = rng.randint(0, 4)
        reducers = {}
        for k in rng.sample(KEYS, rng.randint(1, 3)):
            reducers[k] = rng.choice(REDUCERS + (["nope"] if rng.random() < 0.08 else []))
        branches = []
        for _b in range(nb):
            o = {}
            for k in KEYS:
                if rng.random() < 0.6:
                    o[k] = gen_reducer_value(rng, reducers.get(k, "first"))
            branches.append(o)
        if reducer_unsupported({"target": 0, "reqs": [list(range(len(branches)))], "outs": branches, "reducers": reducers}):
            continue
        got = outcome(lambda: apply_output_reducers(reducers, branches))
        red = ",".join(f"{k}={v}" for k, v in reducers.items())
        # planMerge with empty ancestors and empty own context = apply_output_reducers
        line = f"merge plan {red} - {'|'.join(enc_outs(b) for b in branches) or '-'} -"
        lines.append(line)
        inputs.append({"suite": "apply-reducers", "reducers": reducers, "branches": branches})
        impl.append(got)
        ctx.count(line, nontrivial=nb >= 2)
        ctx.tag("apply-error" if got.startswith("error") else "apply-ok")
    ctx.sample({"suite": "reducers", "line": lines[0], "impl": impl[0]})
    ctx.correspond("reducers", inputs, lines, impl)


# ------------------------------------------------------------------------------------------------
# real engine scenarios
# ------------------------------------------------------------------------------------------------

class Engine:
    """SqliteWorkflowStore + SqliteQueue + QueueProcessor with one scripted task class"""

    def __init__(self, script):
        from stabilize import Orchestrator, QueueProcessor, SqliteQueue, SqliteWorkflowStore, Task, TaskRegistry, TaskResult

        reset_singletons()
        self.dir = core.scratch_dir()
        cs = f"sqlite:///{self.dir}/c16e.db"
        self.store = SqliteWorkflowStore(connection_string=cs, create_tables=True)
        self.queue = SqliteQueue(connection_string=cs, table_name="queue_messages")
        self.queue._create_table()
        self.seen: list[tuple[str, dict]] = []
        self.count: dict[str, int] = {}
        eng = self

        class Scripted(Task):
            def execute(self, stage):
                ref = stage.ref_id
                i = eng.count.get(ref, 0)
                eng.count[ref] = i + 1
                eng.seen.append((ref, json.loads(json.dumps(dict(stage.context)))))
                act = script(ref, i)
                if act.get("jump"):
                    if act.get("outputs"):
                        return TaskResult.jump_to(act["jump"], outputs=act["outputs"])
                    return TaskResult.jump_to(act["jump"])
                return TaskResult.success(outputs=act.get("outputs") or {})

        reg = TaskRegistry()
        reg.register("c16", Scripted)
        import os

        from stabilize.resilience.config import HandlerConfig, reset_handler_config

        # default engine except for the real-time delays (a not-yet-ready join / CompleteWorkflow re-polls after 15 s by
        # default); the handlers read their delay from the process-wide default config, i.e. the environment
        os.environ["STABILIZE_HANDLER_RETRY_DELAY_S"] = "0.02"
        reset_handler_config()
        hc = HandlerConfig(handler_retry_delay_seconds=0.02, task_backoff_min_delay_ms=1, task_backoff_max_delay_ms=2)
        self.processor = QueueProcessor(self.queue, store=self.store, task_registry=reg, handler_config=hc)
        self.orch = Orchestrator(self.queue)

    def run(self, wf, timeout=60.0):
        self.store.store(wf)
        self.orch.start(wf)
        self.processor.process_all(timeout=timeout)
        return self.store.retrieve(wf.id)

    def close(self):
        try:
            self.store.close()
        except Exception:
            pass
        reset_singletons()
        shutil.rmtree(self.dir, ignore_errors=True)


def gen_loop_case(rng) -> dict:
    chain = rng.choice([0, 0, 1, 2])           # stages between A and B
    iters = rng.randint(2, 4)
    keys = rng.sample(KEYS, rng.randint(1, 3))
    per_iter = []
    for _ in range(iters):
        o = {}
        for k in keys:
            o[k] = gen_atom(rng, "int") if k in keys[:1] or rng.random() < 0.5 else [gen_atom(rng, "int") for _ in range(rng.randint(0, 3))]
        per_iter.append(o)
    own = {}
    if rng.random() < 0.5:
        for k in rng.sample(KEYS + ["own0"], rng.randint(1, 2)):
            own[k] = gen_atom(rng, "int") if rng.random() < 0.5 else [gen_atom(rng, "int") for _ in range(rng.randint(0, 2))]
    return {"chain": chain, "a_outputs": per_iter, "own": own}


def loop_variant() -> str:
    """Which model variant the jump-loop suite is compared with: `fixed` (the planner records hydrated keys, the re-arm
    drops them: `planned_context_is_current_iteration` is a theorem) unless known_findings.json declares F17 a *known*,
    unrepaired finding of this checkout — then the code is compared with the `legacy` variant (for which the
    counterexample theorem holds) and the oracle below still reports the finding on every run."""
    for k in core.load_known():
        if k.get("property") == "C16" and k.get("kind") == "known" and k.get("signature") == F17_SIG:
            return "legacy"
    return "fixed"


F17_WITNESS = {"chain": 0, "a_outputs": [{"k0": 1, "k1": [1]}, {"k0": 2, "k1": [2]}, {"k0": 3, "k1": [3]}], "own": {}}


def loop_case(ctx, case: dict, lines, inputs, impl):
    """A -> M1 -> .. -> B; B jumps back to A until A has produced all its per-iteration outputs."""
    chain, a_out, own = case["chain"], case["a_outputs"], case["own"]
    n_iter = len(a_out)
    refs = ["A"] + [f"M{i}" for i in range(chain)] + ["B"]
    reqs = [[]] + [[i] for i in range(len(refs) - 1)]

    def script(ref, i):
        if ref == "A":
            return {"outputs": a_out[min(i, n_iter - 1)]}
        if ref == "B":
            return {"jump": "A"} if i < n_iter - 1 else {"outputs": {}}
        return {"outputs": {}}

    eng = Engine(script)
    try:
        wf = build_workflow(refs, reqs, None, ctxs={len(refs) - 1: own})
        res = eng.run(wf)
        seen_b = [strip_reserved(c) for r, c in eng.seen if r == "B"]
        status = res.status.name
    finally:
        eng.close()
    line = f"merge loop {loop_variant()} - {enc_outs(own)} " + "|".join(enc_outs(o) for o in a_out)
    lines.append(line)
    inputs.append({"suite": "loop", "case": case})
    impl.append("|".join(enc_outs(c, canonical=True) for c in seen_b) + ("" if status == "SUCCEEDED" else f" status={status}"))
    ctx.count(line, nontrivial=n_iter >= 2)
    ctx.tag(f"loop-iters={n_iter}", f"loop-chain={chain}", "loop-own" if own else "loop-no-own")
    # oracle: the property as stated, iteration by iteration
    if len(seen_b) != n_iter:
        ctx.violation(f"jump loop: B ran {len(seen_b)} times, expected {n_iter} (workflow {status})", "loop:iteration-count",
                      {"kind": "loop", "case": case})
        return
    for i, c in enumerate(seen_b):
        want = dict(own)
        for k, v in a_out[i].items():
            if k not in own:
                want[k] = v
            elif isinstance(own[k], list) and isinstance(v, list):
                want[k] = append_new(v, own[k])
        for k in sorted(set(want) | set(c)):
            if c.get(k, "<absent>") != want.get(k, "<absent>"):
                ctx.violation(
                    f"jump loop A{'->M' * chain}->B, B jumps back to A: in iteration {i + 1} A output {a_out[i]!r} (B's own context {own!r}) "
                    f"but B's task was handed {k}={c.get(k, '<absent>')!r} instead of {want.get(k, '<absent>')!r} "
                    f"(the context planned in an earlier iteration is kept as B's own context)",
                    F17_SIG if i > 0 else "loop:first-iteration-context-wrong", {"kind": "loop", "case": case, "seen_by_B": seen_b})
                return


def gen_engine_case(rng) -> dict:
    reqs = gen_dag(rng, nmax=7)
    n = len(reqs)
    outs = gen_outs(rng, n)
    ctxs = {}
    reducers = {}
    for i in range(n):
        if rng.random() < 0.4:
            ctxs[i] = {k: gen_value(rng) for k in rng.sample(KEYS + ["own0"], rng.randint(1, 3))}
        if len(reqs[i]) >= 2 and rng.random() < 0.5:
            k = f"r{i}"          # one reducer key per join stage, so two joins never disagree about a branch's value type
            name = rng.choice(["sum", "max", "min", "collect", "extend", "last", "first", "merge"])
            reducers[i] = {k: name}
            for b in reqs[i]:
                outs[b][k] = gen_reducer_value(rng, name if name not in ("sum",) else "sum")
                if name == "sum":
                    outs[b][k] = gen_atom(rng, "int")
                if name in ("max", "min"):
                    outs[b][k] = gen_atom(rng, "int")
    return {"reqs": reqs, "outs": outs, "refs": rand_refs(rng, n), "ctxs": {str(k): v for k, v in ctxs.items()},
            "reducers": {str(k): v for k, v in reducers.items()}}


def engine_case(ctx, case: dict, lines, inputs, impl):
    reqs, outs, refs = case["reqs"], case["outs"], case["refs"]
    ctxs = {int(k): v for k, v in case["ctxs"].items()}
    reducers = {int(k): v for k, v in case["reducers"].items()}
    n = len(reqs)
    pouts = [dict(o, **{PROBE: [i]}) for i, o in enumerate(outs)]

    def script(ref, i):
        return {"outputs": pouts[refs.index(ref)]}

    eng = Engine(script)
    try:
        wf = build_workflow(refs, reqs, None, ctxs=ctxs, reducers=reducers)
        res = eng.run(wf)
        seen = {r: c for r, c in eng.seen}
        bos = {i: [refs.index(u.ref_id) for u in eng.store.get_upstream_stages(wf.id, refs[i])] for i in range(n)}
        status = res.status.name
    finally:
        eng.close()
    graph = enc_graph(reqs, pouts)
    ancs = closure(reqs)
    for s in range(n):
        if refs[s] not in seen:
            if status == "SUCCEEDED":
                ctx.violation(f"engine run: stage {s} never executed although the workflow {status}", "engine:stage-not-run",
                              {"kind": "engine", "case": case})
            continue
        c = strip_reserved(seen[refs[s]])
        order = c.get(PROBE, [])
        red = ",".join(f"{k}={v}" for k, v in reducers.get(s, {}).items()) or "-"
        own = ctxs.get(s, {})
        line = f"merge stageplan {s} {enc_nats(order)} {enc_nats(bos[s])} {red} {enc_outs(own)} {graph}"
        lines.append(line)
        inputs.append({"suite": "engine-dag", "case": case, "target": s})
        impl.append(enc_outs(c, canonical=True))
        ctx.count(line, nontrivial=len(ancs[s]) >= 2)
        handed = {k: v for k, v in c.items() if k != PROBE}
        check_merged_property(ctx, "context handed to the task", reqs, outs, s, handed, own,
                              reducer_keys=set(reducers.get(s, {})), replay={"kind": "engine", "case": case, "target": s})
    ctx.tag(f"engine-status={status}", f"engine-stages={n}")


def gen_fwdjump_case(rng) -> dict:
    """chain s0 -> s1 -> ... -> s(n-1); stage `src` jumps FORWARD to `tgt` (> src + 1) with outputs: the source ends SUCCEEDED
    and stays an ancestor of the target, so what it published must reach the target and everything behind it"""
    n = rng.randint(4, 6)
    src = rng.randint(0, n - 3)
    tgt = rng.randint(src + 2, n - 1)
    outs = gen_outs(rng, n)
    for i in range(src + 1, tgt):
        outs[i] = {}                      # skipped stages publish nothing
    if not outs[src]:
        outs[src] = {rng.choice(KEYS): gen_atom(rng, "int")}
    if src > 0 and rng.random() < 0.7:      # a farther ancestor publishing the same key: the nearer one (the jump source) wins
        k = rng.choice(sorted(outs[src]))
        outs[rng.randrange(src)][k] = gen_value(rng, allow_dict=False)
    return {"n": n, "src": src, "tgt": tgt, "outs": outs, "refs": rand_refs(rng, n)}


def fwdjump_case(ctx, case: dict) -> None:
    n, src, tgt, outs, refs = case["n"], case["src"], case["tgt"], case["outs"], case["refs"]
    reqs = [[] if i == 0 else [i - 1] for i in range(n)]

    def script(ref, i):
        k = refs.index(ref)
        if k == src:
            return {"jump": refs[tgt], "outputs": outs[src]}
        return {"outputs": outs[k]}

    eng = Engine(script)
    try:
        wf = build_workflow(refs, reqs, None)
        res = eng.run(wf)
        seen = {r: c for r, c in eng.seen}
        status = res.status.name
        stage_status = {st.ref_id: st.status.name for st in res.stages}
    finally:
        eng.close()
    ctx.count({"fwdjump": [n, src, tgt]}, nontrivial=True)
    ctx.tag(f"fwdjump-status={status}")
    rep = {"kind": "fwdjump", "case": case}
    if status != "SUCCEEDED" or any(stage_status.get(refs[i]) != "SKIPPED" for i in range(src + 1, tgt)):
        ctx.tag("fwdjump-unexpected-run")
        return
    for s in range(tgt, n):
        if refs[s] not in seen:
            ctx.violation(f"forward jump {src}->{tgt}: stage {s} never executed although the workflow SUCCEEDED", "fwdjump:stage-not-run", rep)
            continue
        handed = {k: v for k, v in strip_reserved(seen[refs[s]]).items()}
        check_merged_property(ctx, f"context handed to stage {s} behind a forward jump {src}->{tgt}", reqs, outs, s, handed, {},
                              replay={**rep, "target": s})


# ------------------------------------------------------------------------------------------------
# entry points
# ------------------------------------------------------------------------------------------------

def run_replays(ctx, lines, inputs, impl, env):
    d = core.VERIF / "replays" / "C16"
    for f in sorted(d.glob("*.json")) if d.is_dir() else []:
        body = json.loads(f.read_text())
        body = body.get("replay", body)
        if isinstance(body, dict) and "enginepair" in body:
            continue      # Mode B engine-pair witnesses are re-run by harness/engine_pairs.py (replay_units)
        dispatch(ctx, body, lines, inputs, impl, env)
        ctx.tag("replay-file")


def dispatch(ctx, body, lines, inputs, impl, env):
    kind = body.get("kind")
    if kind == "loop":
        loop_case(ctx, body["case"], lines, inputs, impl)
    elif kind == "merge":
        case = dict(body["case"])
        merge_case(ctx, env, case, lines, inputs, impl, None)
    elif kind == "plan":
        plan_case(ctx, env, body["case"], lines, inputs, impl)
    elif kind == "engine":
        engine_case(ctx, body["case"], lines, inputs, impl)
    elif kind == "fwdjump":
        fwdjump_case(ctx, body["case"])
    elif kind == "reducer":
        from stabilize.reducers import get_reducer

        vals = body["values"]
        for perm in itertools.permutations(range(len(vals))):
            pv = [vals[i] for i in perm]
            lines.append(f"merge reduce {body['name']} " + "|".join(enc_value(v) for v in pv))
            inputs.append(body)
            impl.append(reducer_outcome(get_reducer(body["name"]), pv))
            msg = arith_oracle(body["name"], pv, impl[-1])
            if msg:
                ctx.violation(msg, f"reducer:{body['name']}:not-all-branches", body)
    else:
        raise core.Infra(f"unknown C16 replay kind {kind!r}")


def run(ctx) -> None:
    core.ensure_repo_on_path()
    pairs = engine_pairs.start(ctx, "C16")     # the startmerge pair runs in worker processes while the suites below run here
    try:
        _run_suites(ctx)
    except BaseException:
        pairs["pool"].terminate()
        raise
    engine_pairs.finish(ctx, pairs)


def _run_suites(ctx) -> None:
    rng = ctx.rng
    env = Env()
    try:
        lines, inputs, impl = [], [], []
        run_replays(ctx, lines, inputs, impl, env)
        if lines:
            ctx.correspond("replays", inputs, lines, impl)

        lines, inputs, impl = [], [], []
        # hand-picked shapes first: chain, diamond, wide fan-in, deep chain (> 2 levels)
        fixed = [
            {"reqs": [[], [0], [1], [2], [3]], "outs": [{"k0": 0, "k1": [0]}, {"k0": 1}, {"k1": [2, 0]}, {"k0": "x"}, {}], "refs": ["a", "b", "c", "d", "e"]},
            {"reqs": [[], [0], [0], [1, 2]], "outs": [{"k0": 0, "k2": 0}, {"k0": 1, "k2": 1}, {"k2": 2, "k1": [1, 1]}, {}], "refs": ["r", "x", "y", "j"]},
            {"reqs": [[], [], [], [], [0, 1, 2, 3]], "outs": [{"k0": [1]}, {"k0": [2, 1]}, {"k0": 5}, {"k0": [3]}, {}], "refs": ["p", "q", "rr", "s", "t"]},
        ]
        for case in fixed:
            merge_case(ctx, env, case, lines, inputs, impl, None)
        for _ in range(ctx.n(150, 1500)):
            merge_case(ctx, env, gen_merge_case(rng), lines, inputs, impl, None)
        ctx.sample({"suite": "ancestor-merge", "line": lines[0], "impl": impl[0]})
        ctx.correspond("ancestor-merge", inputs, lines, impl)

        lines, inputs, impl = [], [], []
        for _ in range(ctx.n(300, 3000)):
            plan_case(ctx, env, gen_plan_case(rng), lines, inputs, impl)
        if lines:
            ctx.sample({"suite": "plan", "line": lines[0], "impl": impl[0]})
        ctx.correspond("plan", inputs, lines, impl)
    finally:
        env.close()

    reducers_suite(ctx)

    lines, inputs, impl = [], [], []
    loop_case(ctx, F17_WITNESS, lines, inputs, impl)
    for _ in range(ctx.n(6, 40)):
        loop_case(ctx, gen_loop_case(rng), lines, inputs, impl)
    ctx.sample({"suite": "loop", "line": lines[0], "impl": impl[0]})
    ctx.correspond("loop", inputs, lines, impl)

    lines, inputs, impl = [], [], []
    for _ in range(ctx.n(12, 100)):
        engine_case(ctx, gen_engine_case(rng), lines, inputs, impl)
    if lines:
        ctx.sample({"suite": "engine-dag", "line": lines[0], "impl": impl[0]})
    ctx.correspond("engine-dag", inputs, lines, impl)

    # forward jumps that carry outputs (implementation + the ancestor-merge oracle; the chain shape needs no model line)
    for _ in range(ctx.n(8, 60)):
        fwdjump_case(ctx, gen_fwdjump_case(rng))


def search(ctx) -> None:
    """a proof obligation or the correspondence broke and no oracle fired: larger budget against the oracles"""
    core.ensure_repo_on_path()
    env = Env()
    try:
        sink: tuple[list, list, list] = ([], [], [])
        for _ in range(ctx.n(2000, 6000)):
            merge_case(ctx, env, gen_merge_case(ctx.rng), *sink, None)
            plan_case(ctx, env, gen_plan_case(ctx.rng), *sink)
            if ctx.monitor_hits:
                return
    finally:
        env.close()
    reducers_suite(ctx)
    if ctx.monitor_hits:
        return
    sink = ([], [], [])
    for _ in range(ctx.n(30, 100)):
        loop_case(ctx, gen_loop_case(ctx.rng), *sink)
        engine_case(ctx, gen_engine_case(ctx.rng), *sink)
        if ctx.monitor_hits:
            return


def replay(ctx, body) -> int:
    core.ensure_repo_on_path()
    rp = body.get("replay") or body
    if isinstance(rp, dict) and "enginepair" in rp:
        return engine_pairs.replay(ctx, body, "C16")
    body = body.get("replay", body)
    env = Env()
    lines, inputs, impl = [], [], []
    try:
        dispatch(ctx, body, lines, inputs, impl, env)
    finally:
        env.close()
    model = ctx.lean(lines)
    for i, (l, a) in enumerate(zip(lines, impl)):
        print("driver line :", l)
        print("implementation:", a)
        if model is not None:
            print("model         :", model[i], "" if model[i] == a else "   <-- differs")
    for h in ctx.monitor_hits:
        print("PROPERTY FAILS:", h["what"])
    bad = bool(ctx.monitor_hits) or (model is not None and any(m != a for m, a in zip(model, impl)))
    return 1 if bad else 0
