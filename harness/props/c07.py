"""C07 — concurrent writers never silently overwrite each other.

Mode A: 2-3 logical clients, each a dedicated thread with its own SQLite connection (connections are thread-local in
ConnectionManager), scheduled call-by-call by the harness, doing read / modify / write (auto-commit | transaction |
with expected_phase) / retry on ONE stage with tasks through the public store API.  After every op the durable stage row
and task rows (read through a separate connection) and the outcome (ok / ConcurrencyError) are compared with the Lean
model `Stab.CasRow`.  The engine-level pairs (two upstream completions on one join stage, signal vs task result, cancel vs task
completion) run under Mode B in worker processes: harness/engine_pairs.py (started first, collected last).

Torn reads: a read call (retrieve_stage, retrieve, get_{upstream,downstream,synthetic}_stages, and the upstream / synthetic
stage objects retrieve_stage hangs on `execution.stages`) is several SQL statements.  Client A is parked (dbshim gate) before
statement k of its read call, for EVERY k, while client B performs a complete committed write to the same stage; A then
modifies another field and writes.  The real store is compared, schedule by schedule, with the split-read model
(`cas split s …`: readRow / readTasks / readEnd with B's ops in between) and implementation-only monitors check that a
successful write keeps every committed field it did not touch and that an object mixing two row states is refused.
"""
from __future__ import annotations

import json
import re
import shutil
import sqlite3
import uuid
from pathlib import Path

from harness import core, engine_pairs
from harness.dbshim import CTL, Worker, install

RULE = ("random interleavings (10-32 ops) of read / modify (append a log entry, optionally set the stage status, set a task's "
        "status, add a task) / write(auto-commit | transaction) with or without expected_phase / retry by 2-3 clients on one "
        "stage with 0-3 tasks, plus (rarely) an outside writer bumping a task row; a case is distinct by its canonical "
        "(initial status, #tasks, op list) and non-trivial when two clients hold a snapshot of the same version and both write; "
        "torn reads: exhaustive product of read API (7: retrieve_stage, retrieve, get_upstream/downstream/synthetic_stages, and the "
        "upstream / synthetic objects on retrieve_stage(other).execution.stages) x EVERY statement index k of that read call "
        "(k = 0: writer entirely before, k = #statements: entirely after the read; the count is measured, so an added statement is "
        "covered) x writer B kind (context key via auto-commit, status via transaction, task status via transaction) x A's write "
        "(auto-commit | transaction, without | with expected_phase = the status A read) x #tasks, plus random schedules with two "
        "writers parked in two gaps, retries and status / task modifications by A; non-trivial when B commits strictly inside A's read; "
        "torn writes: clients 0 and 1 read the same version and set different context keys, client 0's store_stage (transaction | auto-commit, "
        "without | with expected_phase) is parked before EVERY statement of that call at which its connection holds no write lock (before the "
        "SELECT at its head, and between that SELECT and the UPDATE) while client 1's complete write commits, or client 1 writes after the call, "
        "on a stage with 0, 1 and 2 task rows (0 = only the stage-row version check guards the write); "
        "multi-row transactions: client 0 holds a stage S (0, 1, 2 task rows) and a second stage T of the same workflow, a peer makes T stale (or not), "
        "client 0 stores S and then T in ONE transaction (the second store loses its version check), and afterwards RE-USES its in-memory S for a "
        "further write without re-reading, at each of the 4 positions inside the peer's read-modify-write of S (and once more after it), re-save "
        "through the transaction or auto-commit path; plus the variant where the second 'row' is a task row of S bumped by an outside writer")
ASSUMPTIONS = [
    "interleaving granularity is the store API call: SQLite admits one writer at a time, so statements of two store_stage "
    "calls cannot interleave between the first UPDATE and the commit (trusted: SQLite locking)",
    "in the random Mode-A suite (cas-mode-a) a read is one atomic call; the torn-read suite splits every read API at every "
    "SQL statement boundary with a complete committed write of another connection in between (statement = one "
    "sqlite3.Connection.execute call; a writer cannot commit INSIDE one SELECT: SQLite statement isolation, trusted)",
    "multi-row suite: the single-row model has no second row: ops on T are not model steps, and a two-row transaction whose second row was "
    "stale is NO step (no effect on S, the client's remembered version of S as before) — which is exactly the claim being tested; whether T is "
    "stale is read from the T row through the separate admin connection",
    "torn-write suite: a writer is parked only where its connection is not in a transaction (Python's sqlite3 opens the transaction at the "
    "first INSERT/UPDATE/DELETE); at the statements after its first DML a second writer would block on SQLite's lock until the first commits "
    "(equivalent to running after it), those points are counted and not run",
    "torn-read suite: which statement supplies the stage row / the task rows of the returned object is recognised as the first "
    "full-row SELECT on stage_executions / task_executions whose result contains the target (per API: the n-th such statement); "
    "a wrong recognition shows up as a correspondence failure because the object handed out is part of the compared output",
    "if a store_stage call that raised ConcurrencyError leaves a write transaction open on its connection (it did before the "
    "F33 repair) the harness commits it at once — what that connection's next commit would do — and the monitor "
    "`failed-write-changed-row` checks that the durable rows did not change",
]
TRUSTED_BASE = [
    "hand-written model lean/Stab/Model/CasRow.lean of store_stage (store and transaction) and upsert_task, tied to the code by "
    "the Mode-A differential and by the generated SQL shapes (lean/Stab/Gen/StoreSql.lean, theorems gen_*)",
    "hand-written split-read model (CasRow.SOp: readRow / readTasks / readVer / readEnd, Variant.sameStatement = the code) of the "
    "seven read paths, tied to the code by the torn-read differential (every statement index of every read API) and by the generated "
    "read-path facts (StoreSql.readPathVersionAssignments / readPathVersionSelects / rowToStage*FromRow, theorem "
    "gen_read_version_same_statement); statements of a read that touch other tables / other stages are not modelled (no effect on "
    "the object's version, status, context, tasks)",
    "SQLite: single writer, atomic commit/rollback, UNIQUE/PRIMARY KEY enforcement (IntegrityError)",
]


RULE = RULE + "; " + engine_pairs.RULE
ASSUMPTIONS = ASSUMPTIONS + engine_pairs.ASSUMPTIONS
TRUSTED_BASE = TRUSTED_BASE + engine_pairs.TRUSTED_BASE


class Bed:
    def __init__(self, status: int, ntasks: int, base: Path, clients: list[Worker]):
        from stabilize.persistence.connection import ConnectionManager, SingletonMeta

        self.clients = clients
        self.path = str(base / f"c-{uuid.uuid4().hex[:8]}.db")
        self.cs = f"sqlite:///{self.path}"
        SingletonMeta.reset(ConnectionManager)
        CTL.arm_crash(None)
        self.status0 = status
        self.ntasks = ntasks
        self.ops: list[str] = []
        self.outs: list[str] = []
        self.hits: list[tuple[str, str]] = []
        self.tags: list[str] = []
        self.obj: dict[int, object] = {}
        self.pend: dict[int, list[tuple]] = {}
        self.tid: dict[str, int] = {}
        self.next_tid = ntasks
        self.committed: list[tuple] = []          # modifications of the writes that reported success, commit order
        self.based_on: list[tuple[int, int]] = []  # (client, version the successful write was based on)
        self.lost_reported = False
        self.rebase = None          # durable rows right after another client's writes that ran INSIDE this client's write call (torn-write suite)
        self._build()
        self.admin = sqlite3.connect(self.path, timeout=30, isolation_level=None, check_same_thread=False)

    def _build(self) -> None:
        from stabilize import SqliteWorkflowStore, StageExecution, TaskExecution, Workflow
        from stabilize.models.status import WorkflowStatus

        self.STAT = list(WorkflowStatus)

        def mk():
            self.store = SqliteWorkflowStore(self.cs, create_tables=True)
            tasks = []
            for i in range(self.ntasks):
                t = TaskExecution.create(name=f"t{i}", implementing_class="x", stage_start=(i == 0), stage_end=(i == self.ntasks - 1))
                tasks.append(t)
            st = StageExecution.create(type="x", name="s", ref_id="s", context={"log": []})
            st.tasks = tasks
            st.status = self.STAT[self.status0]
            wf = Workflow.create(application="verif", name="c07", stages=[st])
            self.store.store(wf)
            self.stage_id = st.id
            return [t.id for t in tasks]

        ids = self.clients[0].call(mk)
        for i, t in enumerate(ids):
            self.tid[t] = i

    def close(self) -> None:
        from stabilize.persistence.connection import ConnectionManager, SingletonMeta

        st = self.store
        for w in self.clients:
            try:
                w.call(st.close)
            except BaseException:  # noqa: BLE001
                pass
        self.admin.close()
        SingletonMeta.reset(ConnectionManager)
        for suf in ("", "-wal", "-shm", "-journal"):
            try:
                Path(self.path + suf).unlink()
            except FileNotFoundError:
                pass

    # ---- observation --------------------------------------------------------------------
    def db(self) -> dict:
        v, s, ctx = self.admin.execute("SELECT version, status, context FROM stage_executions WHERE id = ?", (self.stage_id,)).fetchone()
        trs = self.admin.execute("SELECT id, version, status FROM task_executions WHERE stage_id = ? ORDER BY id ASC", (self.stage_id,)).fetchall()
        names = [x.name for x in self.STAT]
        return {"version": v, "status": names.index(s), "payload": json.loads(ctx).get("log", []),
                "tasks": [(self.tid.get(i, -1), ver, names.index(stt)) for i, ver, stt in trs]}

    def state_line(self) -> str:
        d = self.db()
        pl = ",".join(str(x) for x in d["payload"]) if d["payload"] else "-"
        ts = ",".join(f"{a}.{b}.{c}" for a, b, c in d["tasks"]) if d["tasks"] else "-"
        return f"{d['version']}.{d['status']}.{pl}#{ts}"

    # ---- ops ----------------------------------------------------------------------------------
    def _apply_mod(self, c: int, mod: tuple) -> None:
        """in-memory modification of client c's StageExecution"""
        from stabilize import TaskExecution

        st = self.obj[c]
        set_status, entry, task_st, add = mod
        if set_status is not None:
            st.status = self.STAT[set_status]
        st.context["log"] = list(st.context.get("log", [])) + [entry]
        if task_st is not None:
            k, v = task_st
            if k < len(st.tasks):
                st.tasks[k].status = self.STAT[v]
        if add:
            t = TaskExecution.create(name=f"n{self.next_tid}", implementing_class="x")
            t.status = self.STAT[1]
            self.tid[t.id] = self.next_tid
            self.next_tid += 1
            st.tasks.append(t)

    def _write(self, c: int, txn: bool, phase: int | None) -> str:
        from stabilize.errors import ConcurrencyError

        st = self.obj[c]
        store = self.store
        ph = self.STAT[phase].name if phase is not None else None
        based = st.version

        also = list(getattr(self, "_also", None) or [])     # multi-row suite: further rows stored in the SAME transaction after the stage

        def f():
            if txn:
                with store.transaction() as t:
                    t.store_stage(st, expected_phase=ph)
                    for other in also:
                        t.store_stage(other)
            else:
                store.store_stage(st, expected_phase=ph)

        before = self.db()
        try:
            self.clients[c].call(f)
            out = "ok"
        except ConcurrencyError:
            out = "conflict"

            def fix():
                conn = store._get_connection()
                if conn.in_transaction:
                    conn.commit()
                    return True
                return False

            if self.clients[c].call(fix):
                self.tags.append("open-write-txn-after-ConcurrencyError")
            after = self.db()
            if self.rebase is not None:
                before = self.rebase
            if after != before:
                out = "conflict-partial"
        if out == "ok":
            self.committed += self.pend[c]
            self.pend[c] = []
            if any(v == based for _, v in self.based_on):
                self.hit(f"two writes based on stage version {based} both succeeded", "two-winners-one-version")
            self.based_on.append((c, based))
        elif out == "conflict-partial":
            if any(o.startswith("bump") for o in self.ops):
                self.hit("with an outside writer of a task row: auto-commit store_stage raised ConcurrencyError from upsert_task after its stage "
                         "UPDATE succeeded and did not roll back; the connection's next commit made the stage change durable although the "
                         "caller was told the write failed", "failed-write-changed-row:outside-task-writer")
            else:
                self.hit("a store_stage call that raised ConcurrencyError changed the durable row although no outside writer touched the task rows",
                         "half-applied-write-without-outside-writer")
        return out

    def hit(self, what: str, sig: str) -> None:
        self.hits.append((what, sig))

    def check_fold(self, after: str) -> None:
        """lost-update detector: the durable payload/status must be the fold of the successful modifications, in commit order"""
        if self.lost_reported:
            return
        d = self.db()
        want_payload = [m[1] for m in self.committed]
        want_status = self.status0
        for m in self.committed:
            if m[0] is not None:
                want_status = m[0]
        if d["payload"] != want_payload or d["status"] != want_status:
            if any(s.startswith("failed-write-changed-row") or s.startswith("half-applied") for _, s in self.hits):
                return  # consequence of the reported cause
            missing = [e for e in want_payload if e not in d["payload"]]
            extra = [e for e in d["payload"] if e not in want_payload]
            kind = "committed-change-missing" if missing else ("uncommitted-change-present" if extra else "status-or-order")
            self.lost_reported = True
            self.hit(f"after `{after}` the stage row holds payload {d['payload']} / status {d['status']} but the successful writes, in commit "
                     f"order, give {want_payload} / {want_status}", f"lost-update:{kind}")

    def step(self, op: str) -> None:
        toks = op.split(":")
        k, c = toks[0], int(toks[1])
        store = self.store
        out = "ok"
        if k == "read":
            self.obj[c] = self.clients[c].call(lambda: store.retrieve_stage(self.stage_id))
            self.pend[c] = []
        elif k == "mod":
            if c not in self.obj:
                out = "noobj"
            else:
                mod = (None if toks[2] == "-" else int(toks[2]), int(toks[3]),
                       None if toks[4] == "-" else tuple(int(x) for x in toks[4].split(".")), toks[5] == "1")
                self._apply_mod(c, mod)
                self.pend[c].append(mod)
        elif k in ("write", "retry"):
            if c not in self.obj:
                out = "noobj"
            else:
                txn = toks[2] == "t"
                phase = None if toks[3] == "-" else int(toks[3])
                if k == "retry":
                    mods = list(self.pend[c])
                    self.obj[c] = self.clients[c].call(lambda: store.retrieve_stage(self.stage_id))
                    self.pend[c] = []
                    for m in mods:
                        self._apply_mod(c, m)
                        self.pend[c].append(m)
                out = self._write(c, txn, phase)
        elif k == "bump":
            ids = [i for i, o in self.tid.items() if o == c]
            if ids:
                self.admin.execute("UPDATE task_executions SET version = version + 1 WHERE id = ?", (ids[0],))
        else:
            raise core.Infra(f"unknown op {op}")
        self.ops.append(op)
        self.outs.append(out + "#" + self.state_line())
        self.check_fold(op)


# ------------------------------------------------------------------------------------------------

class Pool:
    def __init__(self) -> None:
        self.clients = [Worker(f"c{i}") for i in range(3)]
        self.base = core.scratch_dir()

    def close(self) -> None:
        for w in self.clients:
            w.stop()
        shutil.rmtree(self.base, ignore_errors=True)


def gen_ops(rng, thorough: bool) -> tuple[int, int, list[str]]:
    status = rng.choice([0, 1, 1, 1, 3])
    ntasks = rng.choice([0, 1, 2, 3])
    nc = rng.choice([2, 3])
    n = rng.randint(10, 32 if thorough else 26)
    ops = [f"read:{c}" for c in range(nc) if rng.random() < 0.8]
    entry = 1
    bump_ok = rng.random() < 0.12
    live_tasks = ntasks
    for _ in range(n):
        c = rng.randrange(nc)
        x = rng.random()
        if x < 0.16:
            ops.append(f"read:{c}")
        elif x < 0.50:
            st = rng.choice(["-", "-", "1", "3", "4", "2"])
            ts = "-"
            if live_tasks and rng.random() < 0.4:
                ts = f"{rng.randrange(live_tasks)}.{rng.choice([1, 4, 6])}"
            add = "1" if rng.random() < 0.12 else "0"
            ops.append(f"mod:{c}:{st}:{entry}:{ts}:{add}")
            entry += 1
        elif x < 0.80:
            ph = "-" if rng.random() < 0.6 else str(rng.choice([status, 1, 3, 4]))
            ops.append(f"write:{c}:{rng.choice(['p', 't', 't'])}:{ph}")
        elif x < 0.96 or not bump_ok or not live_tasks:
            ph = "-" if rng.random() < 0.8 else str(rng.choice([1, 3, 4]))
            ops.append(f"retry:{c}:{rng.choice(['p', 't'])}:{ph}")
        else:
            ops.append(f"bump:{rng.randrange(live_tasks)}")
    return status, ntasks, ops


def run_fixed(pool: Pool, status: int, ntasks: int, ops: list[str]) -> Bed:
    bed = Bed(status, ntasks, pool.base, pool.clients)
    try:
        for op in ops:
            bed.step(op)
    finally:
        bed.close()
    return bed


def shrink(pool: Pool, status: int, ntasks: int, ops: list[str], sig: str, budget: int = 100) -> list[str]:
    def fails(o):
        try:
            return any(s == sig for _, s in run_fixed(pool, status, ntasks, o).hits)
        except Exception:
            return False

    cur, n, runs = list(ops), 2, 0
    while len(cur) >= 2 and runs < budget:
        chunk = max(1, len(cur) // n)
        reduced = False
        for i in range(0, len(cur), chunk):
            cand = cur[:i] + cur[i + chunk:]
            runs += 1
            if cand and fails(cand):
                cur, n, reduced = cand, max(n - 1, 2), True
                break
            if runs >= budget:
                break
        if not reduced:
            if chunk == 1:
                break
            n = min(n * 2, len(cur))
    return cur


def _nontrivial(bed: Bed) -> bool:
    return any(o.startswith("conflict") for o in (x.split("#")[0] for x in bed.outs))


def _report(ctx, pool: Pool, bed: Bed, ops: list[str], do_shrink: bool = True) -> None:
    seen = set()
    for what, sig in bed.hits:
        if sig in seen:
            continue
        seen.add(sig)
        o = ops
        if do_shrink and not any(h["signature"] == sig for h in ctx.monitor_hits):
            o = shrink(pool, bed.status0, bed.ntasks, ops, sig)
            w2 = [w for w, s in run_fixed(pool, bed.status0, bed.ntasks, o).hits if s == sig]
            what = w2[0] if w2 else what
        ctx.violation(what, sig, {"status": bed.status0, "ntasks": bed.ntasks, "ops": o})


def _suite(ctx, pool: Pool, n: int, name: str) -> None:
    inputs, lines, impl = [], [], []
    for _ in range(n):
        status, ntasks, ops = gen_ops(ctx.rng, ctx.thorough)
        bed = run_fixed(pool, status, ntasks, ops)
        ctx.count([status, ntasks, ops], nontrivial=_nontrivial(bed))
        for o, r in zip(bed.ops, bed.outs):
            ctx.tag("op:" + o.split(":")[0] + ("" if o.split(":")[0] not in ("write", "retry") else "-" + o.split(":")[2] + ("-phase" if o.split(":")[3] != "-" else "")))
            ctx.tag("out:" + r.split("#")[0])
        for t in bed.tags:
            ctx.tag(t)
        inputs.append({"status": status, "ntasks": ntasks, "ops": ops})
        lines.append(f"cas {status} {ntasks} " + ";".join(ops))
        impl.append("|".join(bed.outs))
        if len(ctx.samples) < 3:
            ctx.sample({"suite": name, "status": status, "ntasks": ntasks, "ops": ops[:12], "last": bed.outs[-1]})
        if bed.hits:
            _report(ctx, pool, bed, ops)
    ctx.correspond(name, inputs, lines, impl)


def _upsert_suite(ctx, pool: Pool, n: int) -> None:
    """helpers.upsert_task as a function: (task table, task id, in-memory version, status) -> table' / ConcurrencyError"""
    from stabilize import TaskExecution
    from stabilize.errors import ConcurrencyError
    from stabilize.persistence.sqlite.helpers import upsert_task

    inputs, lines, impl = [], [], []
    bed = Bed(1, 3, pool.base, pool.clients)
    try:
        store = bed.store
        for _ in range(n):
            # bring the three rows to random versions through the outside writer, then one upsert with a chosen version
            vers = []
            ops = []
            for t in range(3):
                k = ctx.rng.randrange(3)
                for _ in range(k):
                    ops.append(f"bump:{t}")
            target = ctx.rng.randrange(4)   # 3 = a task that has no row yet
            d0 = bed.db()
            for o in ops:
                bed.step(o)
            d = bed.db()
            cur = {a: b for a, b, _ in d["tasks"]}
            mem_ver = ctx.rng.choice([cur.get(target, 0), cur.get(target, 0), ctx.rng.randrange(0, 8)])
            stt = ctx.rng.choice([1, 4, 6])
            if target in cur:
                tid = [i for i, o in bed.tid.items() if o == target][0]
                t = TaskExecution.create(name="u", implementing_class="x")
                t.id = tid
            else:
                t = TaskExecution.create(name="u", implementing_class="x")
                bed.tid[t.id] = 1000
            t.version = mem_ver
            t.status = bed.STAT[stt]

            def f():
                conn = store._get_connection()
                try:
                    upsert_task(conn, t, bed.stage_id)
                    conn.commit()
                    return f"ok:{t.version}"
                except ConcurrencyError:
                    conn.rollback()
                    return "conflict"

            out = bed.clients[0].call(f)
            d2 = bed.db()
            rows_before = ",".join(f"{a}.{b}.{c}" for a, b, c in d["tasks"])
            rows_after = ",".join(f"{a}.{b}.{c}" for a, b, c in d2["tasks"])
            tnum = target if target in cur else 1000
            inputs.append({"rows": rows_before, "task": [tnum, mem_ver, stt]})
            lines.append(f"cas upsert {rows_before} {tnum}.{mem_ver}.{stt}")
            impl.append(f"{out}#{rows_after}")
            ctx.count(["upsert", rows_before, tnum, mem_ver, stt], nontrivial=True)
            ctx.tag("upsert:" + out.split(":")[0])
            if target not in cur:
                # remove the inserted row again so the table keeps three rows
                bed.admin.execute("DELETE FROM task_executions WHERE id = ?", (t.id,))
                del bed.tid[t.id]
            # monitor: an upsert with a stale version must not change the row
            if target in cur and mem_ver != cur[target] and d2["tasks"] != d["tasks"]:
                ctx.violation(f"upsert_task with in-memory version {mem_ver} changed a row at version {cur[target]}",
                              "task-upsert-overwrote-newer-version", {"rows": rows_before, "task": [tnum, mem_ver, stt]})
            if target in cur and mem_ver == cur[target]:
                got = {a: b for a, b, _ in d2["tasks"]}
                if got.get(target) != cur[target] + 1:
                    ctx.violation("upsert_task with the matching version did not bump the row version", "task-version-not-bumped",
                                  {"rows": rows_before, "task": [tnum, mem_ver, stt]})
    finally:
        bed.close()
    ctx.correspond("upsert-task", inputs, lines, impl)


# ------------------------------------------------------------------------------------------------
# torn reads: a read call is several SQL statements; another client's committed write falls between two of them
# ------------------------------------------------------------------------------------------------

_FULL_STAGE_ROW = re.compile(r"^\s*SELECT\s+(\*|stage_executions\.\*)\s+FROM\s+stage_executions\b", re.I | re.S)
_TASK_ROWS = re.compile(r"^\s*SELECT\s+\*\s+FROM\s+task_executions\b", re.I | re.S)


class ReadApi:
    """one way the handlers obtain the StageExecution they later pass to store_stage"""

    def __init__(self, call, pick, row_rank: int = 0):
        self.call = call          # (store, bed) -> whatever the API returns
        self.pick = pick          # (result, bed) -> the target StageExecution inside it
        self.row_rank = row_rank  # the object is built from the n-th full-row SELECT that returns the target


def _by_id(stages, bed):
    return [x for x in stages if x.id == bed.stage_id][0]


READ_APIS: dict[str, ReadApi] = {
    # with_stage / with_task / every `fresh = repository.retrieve_stage(id)` in the handlers
    "retrieve_stage": ReadApi(lambda st, b: st.retrieve_stage(b.stage_id), lambda r, b: r),
    # with_execution, workflow_control, jump_to_stage, start_stage conditions: stages of a retrieved workflow
    "retrieve": ReadApi(lambda st, b: st.retrieve(b.wf_id), lambda r, b: _by_id(r.stages, b)),
    "get_upstream_stages": ReadApi(lambda st, b: st.get_upstream_stages(b.wf_id, "d"), _by_id),
    "get_downstream_stages": ReadApi(lambda st, b: st.get_downstream_stages(b.wf_id, "u"), _by_id),
    "get_synthetic_stages": ReadApi(lambda st, b: st.get_synthetic_stages(b.wf_id, b.parent_id), _by_id),
    # `stage.execution.stages` of a retrieved stage holds its upstream and synthetic stages (complete_stage/split_logic stores those)
    "retrieve_stage.upstream": ReadApi(lambda st, b: st.retrieve_stage(b.down_id), lambda r, b: _by_id(r.execution.stages, b)),
    "retrieve_stage.synthetic": ReadApi(lambda st, b: st.retrieve_stage(b.parent_id), lambda r, b: _by_id(r.execution.stages, b)),
}

B_KINDS = {
    # a complete committed read-modify-write of client 1, each bumping the row version as the real code does
    "ctx": ["read:1", "mod:1:-:7:-:0", "write:1:p:-"],          # another context key, auto-commit path
    "status": ["read:1", "mod:1:3:7:-:0", "write:1:t:-"],       # stage status, transactional path
    "task": ["read:1", "mod:1:-:7:0.4:0", "write:1:t:-"],       # a task's status, transactional path
}
A_WRITES = ["write:0:p:-", "write:0:t:-", "write:0:p:@", "write:0:t:@"]   # @ = expected_phase := the status A's object carries


class TornBed(Bed):
    """p (parent) ⊃ s;  u → s → d : the target stage `s` (with the tasks) is reachable through every read API"""

    def _build(self) -> None:
        from stabilize import SqliteWorkflowStore, StageExecution, TaskExecution, Workflow
        from stabilize.models.stage import SyntheticStageOwner
        from stabilize.models.status import WorkflowStatus

        self.STAT = list(WorkflowStatus)
        self.api = "?"
        self.bkind = "?"
        self.snaps: list[dict] = []
        self.stmts: list[str] = []
        self.torn: dict[int, bool] = {}
        self.keep = None
        self.nstmts = 0
        self.obj2: dict[int, object] = {}       # multi-row suite: each client's in-memory copy of a SECOND row (stage d of the same workflow)
        self._also = None
        self.trace_ops: list[str] = []
        self.rebase_full = None
        self.sig_prefix = "torn-read:lost-update"
        self.was_torn = False
        self.obj_desc = ""

        def mk():
            self.store = SqliteWorkflowStore(self.cs, create_tables=True)
            tasks = []
            for i in range(self.ntasks):
                tasks.append(TaskExecution.create(name=f"t{i}", implementing_class="x", stage_start=(i == 0), stage_end=(i == self.ntasks - 1)))
            par = StageExecution.create(type="x", name="p", ref_id="p", context={})
            up = StageExecution.create(type="x", name="u", ref_id="u", context={})
            st = StageExecution.create(type="x", name="s", ref_id="s", context={"log": []}, requisite_stage_ref_ids={"u"})
            st.tasks = tasks
            st.status = self.STAT[self.status0]
            down = StageExecution.create(type="x", name="d", ref_id="d", context={}, requisite_stage_ref_ids={"s"})
            wf = Workflow.create(application="verif", name="c07torn", stages=[par, up, st, down])
            # made a synthetic child of `p` after the submit-time graph validation (the engine injects synthetic stages later, too)
            st.parent_stage_id = par.id
            st.synthetic_stage_owner = SyntheticStageOwner.STAGE_BEFORE
            self.store.store(wf)
            self.stage_id, self.wf_id, self.parent_id, self.down_id = st.id, wf.id, par.id, down.id
            return [t.id for t in tasks]

        ids = self.clients[0].call(mk)
        for i, t in enumerate(ids):
            self.tid[t] = i

    def full(self) -> dict:
        """the durable row as the monitors see it: version, status, every context key, task (ordinal -> (version, status))"""
        v, stt, cx = self.admin.execute("SELECT version, status, context FROM stage_executions WHERE id = ?", (self.stage_id,)).fetchone()
        trs = self.admin.execute("SELECT id, version, status FROM task_executions WHERE stage_id = ? ORDER BY id ASC", (self.stage_id,)).fetchall()
        names = [x.name for x in self.STAT]
        return {"version": v, "status": names.index(stt), "context": json.loads(cx),
                "tasks": {self.tid.get(i, -1): (ver, names.index(s2)) for i, ver, s2 in trs}}

    def _apply_mod(self, c: int, mod: tuple) -> None:
        super()._apply_mod(c, mod)
        self.obj[c].context[f"k{mod[1]}"] = mod[1]      # every modification also owns a context key nobody else writes

    def obj_line(self, st) -> str:
        names = [x.name for x in self.STAT]
        pl = ",".join(str(x) for x in st.context.get("log", [])) or "-"
        ts = ",".join(f"{self.tid.get(t.id, -1)}.{t.version}.{names.index(t.status.name)}" for t in st.tasks) or "-"
        return f"{st.version}.{names.index(st.status.name)}.{pl}@{ts}"

    def is_torn(self, st) -> bool:
        """the object is not the image of ONE durable state of the row (stage part and task part from the same state)"""
        names = [x.name for x in self.STAT]
        mine = (st.version, names.index(st.status.name), json.dumps(st.context, sort_keys=True),
                {self.tid.get(t.id, -1): (t.version, names.index(t.status.name)) for t in st.tasks})
        return not any(mine == (sn["version"], sn["status"], json.dumps(sn["context"], sort_keys=True), sn["tasks"]) for sn in self.snaps)

    def row2_version(self) -> int:
        return self.admin.execute("SELECT version FROM stage_executions WHERE id = ?", (self.down_id,)).fetchone()[0]

    def step2(self, op: str) -> str:
        """ops of the multi-row suite on the second row T (= stage d) and the two-row transaction; returns what happened (for the trace).
        read2:c | mod2:c:<entry> | write2:c (single-row transaction on T) | txn2:c (ONE transaction: store S, then store T)"""
        from stabilize.errors import ConcurrencyError

        toks = op.split(":")
        k, c = toks[0], int(toks[1])
        store = self.store
        if k == "read2":
            self.obj2[c] = self.clients[c].call(lambda: store.retrieve_stage(self.down_id))
            return f"T v{self.obj2[c].version}"
        if k == "mod2":
            self.obj2[c].context[f"t{toks[2]}"] = int(toks[2])
            return "ok"
        if k == "write2":
            t2 = self.obj2[c]

            def f():
                with store.transaction() as t:
                    t.store_stage(t2)

            try:
                self.clients[c].call(f)
                return f"ok, T row v{self.row2_version()}"
            except ConcurrencyError:
                return "conflict"
        if k == "txn2":
            t2 = self.obj2[c]
            stale = self.row2_version() != t2.version
            self._also = [t2]
            try:
                self.step(f"write:{c}:t:-")
            finally:
                self._also = None
            out = self.outs[-1].split("#")[0]
            if stale:
                # model: a transaction whose second row loses its version check has NO effect on the first row and leaves the client's
                # remembered versions as they were - i.e. it is no step of the single-row model at all
                self.ops.pop()
                last = self.outs.pop()
                if out == "ok":
                    self.hit("a transaction storing S and then T committed although T's version check had to fail (T was stale)",
                             "multi-row:stale-second-row-committed")
                return f"{out} (T stale: whole transaction must roll back) S row after: {last.split('#', 1)[1]}; in-memory S version {self.obj[c].version}"
            return f"{out}, S row after: {self.outs[-1].split('#', 1)[1]}"
        raise core.Infra(f"unknown op {op}")

    def step(self, op: str) -> None:
        toks = op.split(":")
        if toks[0] not in ("write", "retry") or int(toks[1]) not in self.obj:
            super().step(op)
            if toks[0] == "read":
                self.torn[int(toks[1])] = False
            return
        c = int(toks[1])
        before = self.full()
        pend = list(self.pend[c])
        torn = self.torn.get(c, False) and toks[0] == "write"
        positions = {m[2][0] for m in pend if m[2] is not None}
        touched = {self.tid.get(self.obj[c].tasks[k].id, -1) for k in positions if k < len(self.obj[c].tasks)}
        saved, self.lost_reported = self.lost_reported, True     # the specific monitor below looks first
        try:
            super().step(op)
        finally:
            self.lost_reported = saved
        out = self.outs[-1].split("#")[0]
        after = self.full()
        if self.rebase_full is not None:
            before, self.rebase_full = self.rebase_full, None      # another client committed inside this write call: that is the state to preserve
        if out != "ok":
            self.check_fold(op)
            return
        self.torn[c] = False
        lost = []
        for k, v in before["context"].items():
            if k != "log" and after["context"].get(k) != v:
                lost.append(f"context key {k}")
        if not any(m[0] is not None for m in pend) and after["status"] != before["status"]:
            lost.append(f"status {before['status']} -> {after['status']}")
        for t, (_, stt) in before["tasks"].items():
            if t not in touched and t in after["tasks"] and after["tasks"][t][1] != stt:
                lost.append(f"task {t} status {stt} -> {after['tasks'][t][1]}")
        if after["version"] != before["version"] + 1:
            lost.append(f"version {before['version']} -> {after['version']} (not +1)")
        if lost or torn:
            self.lost_reported = True    # the generic fold monitor would only repeat this
            self.hit(f"{self.api}: client {c}'s store_stage (`{op}`) SUCCEEDED"
                     + (" with an object that mixes two states of the row (torn read: " + self.obj_desc + ")" if torn else "")
                     + (f" and silently reverted committed changes it never touched: {', '.join(lost)}" if lost else "")
                     + f"; row before the write {_short(before)}, after {_short(after)}",
                     f"{self.sig_prefix}:{self.api}:{self.bkind}")
        else:
            self.check_fold(op)


def _short(d: dict) -> str:
    return f"v{d['version']} status={d['status']} context={json.dumps(d['context'], sort_keys=True)} tasks={d['tasks']}"


def run_torn(pool: Pool, sc: dict, trace: list[str] | None = None) -> TornBed:
    """sc = {api, status, ntasks, bkind, mid: [[k, [ops of other clients]] …], a: [ops of client 0 after the read]}
    k = index of the statement of A's read call BEFORE which A is parked; k >= #statements = after the call returned."""
    api = READ_APIS[sc["api"]]
    bed = TornBed(sc["status"], sc["ntasks"], pool.base, pool.clients)
    bed.api, bed.bkind = sc["api"], sc.get("bkind", "mixed")
    a = bed.clients[0]
    mids = {int(k): list(ops) for k, ops in sc["mid"]}
    seen = {"n": 0, "rows": 0, "row_at": None, "tasks_at": None}
    store = bed.store

    def say(x: str) -> None:
        if trace is not None:
            trace.append(x)

    def record(op: str, out: str) -> None:
        bed.ops.append(op)
        bed.outs.append(out + "#" + bed.state_line())

    def gate(sql, params):
        i = seen["n"]
        seen["n"] += 1
        if i in mids:
            a.park_here({"k": i})
        kind = "other"
        try:
            if seen["row_at"] is None and _FULL_STAGE_ROW.match(sql):
                cur = bed.admin.execute(sql, params)
                col = [d[0] for d in cur.description].index("id")
                if any(r[col] == bed.stage_id for r in cur.fetchall()):
                    if seen["rows"] == api.row_rank:
                        seen["row_at"], kind = i, "row"
                    seen["rows"] += 1
            elif seen["row_at"] is not None and seen["tasks_at"] is None and _TASK_ROWS.match(sql) and _names_target(params, bed.stage_id):
                seen["tasks_at"], kind = i, "tasks"
        except sqlite3.Error:
            pass
        bed.stmts.append(f"{i}:{kind}:" + " ".join(sql.split())[:90])
        say(f"  A stmt {i:2d} [{kind:5s}] " + " ".join(sql.split())[:110])
        if kind == "row":
            record("rrow:0", "ok")
        elif kind == "tasks":
            record("rtasks:0", "ok")

    bed.snaps.append(bed.full())
    try:
        CTL.gates[a.ident] = gate
        a.start_call(lambda: api.call(store, bed))
        while True:
            kind, val = a.wait_parked_or_done()
            if kind == "done":
                break
            say(f"  A parked before stmt {val['k']}")
            for op in mids.pop(val["k"]):
                bed.step(op)
                say(f"    {op:24s} -> {bed.outs[-1]}")
            bed.snaps.append(bed.full())
            a.resume()
        CTL.gates.pop(a.ident, None)
        bed.keep = val
        st = api.pick(val, bed)
        bed.obj[0], bed.pend[0] = st, []
        bed.nstmts = seen["n"]
        bed.torn[0] = bed.was_torn = bed.is_torn(st)
        bed.obj_desc = f"object {bed.obj_line(st)} context keys {sorted(k for k in st.context if k != 'log')}"
        record("rend:0", "ok@" + bed.obj_line(st))
        say(f"  A's read returned {bed.obj_desc}" + ("   <-- TORN: no single durable state of the row looks like this" if bed.torn[0] else ""))
        for k in sorted(mids):        # writers entirely after the read call
            for op in mids[k]:
                bed.step(op)
                say(f"    {op:24s} -> {bed.outs[-1]}")
            bed.snaps.append(bed.full())
        names = [x.name for x in bed.STAT]
        for op in sc["a"]:
            if op.endswith(":@"):
                op = op[:-1] + str(names.index(bed.obj[0].status.name))
            nh = len(bed.hits)
            bed.step(op)
            say(f"  {op:26s} -> {bed.outs[-1]}")
            for what, sig in bed.hits[nh:]:
                say(f"PROPERTY FAILS at step `{op}`: {what}  [{sig}]")
    finally:
        CTL.gates.pop(a.ident, None)
        if a.busy:
            a.resume(abort=True)
            try:
                a.wait_parked_or_done(10)
            except BaseException:  # noqa: BLE001
                pass
        bed.close()
    return bed


def _names_target(params, stage_id: str) -> bool:
    vals = params.values() if isinstance(params, dict) else params
    return any(v == stage_id for v in vals)


def _torn_line(bed: TornBed) -> str:
    return f"cas split s {bed.status0} {bed.ntasks} " + ";".join(bed.ops)


def torn_scenarios(pool: Pool, ntasks_by_api) -> list[dict]:
    """the exhaustive product; the number of statements of each read call is measured on the tree under test"""
    out = []
    for name in READ_APIS:
        for nt in ntasks_by_api(name):
            n = run_torn(pool, {"api": name, "status": 1, "ntasks": nt, "mid": [], "a": []}).nstmts
            for k in range(n + 1):
                for bk, bops in B_KINDS.items():
                    if bk == "task" and nt == 0:
                        continue
                    for aw in A_WRITES:
                        out.append({"api": name, "status": 1, "ntasks": nt, "bkind": bk, "mid": [[k, bops]],
                                    "a": ["mod:0:-:8:-:0", aw]})
    return out


def gen_torn(rng, thorough: bool) -> dict:
    """random: one or two writers parked in one or two gaps (or after the read), A modifies status / tasks too, writes, retries"""
    name = rng.choice(list(READ_APIS))
    nt = rng.choice([0, 1, 2, 3])
    status = rng.choice([0, 1, 1, 3])
    entry = [1]

    def writer(c: int) -> list[str]:
        ops = [f"read:{c}"]
        for _ in range(rng.choice([1, 1, 2])):
            stt = rng.choice(["-", "-", "1", "3", "4"])
            ts = f"{rng.randrange(nt)}.{rng.choice([1, 4, 6])}" if nt and rng.random() < 0.4 else "-"
            add = "1" if rng.random() < 0.1 else "0"
            ops.append(f"mod:{c}:{stt}:{entry[0]}:{ts}:{add}")
            entry[0] += 1
        ops.append(f"{rng.choice(['write', 'write', 'retry'])}:{c}:{rng.choice(['p', 't'])}:-")
        return ops

    ks = sorted(rng.sample(range(0, 13), rng.choice([1, 1, 2])))
    mid = [[k, writer(1 + i)] for i, k in enumerate(ks)]
    a = []
    for _ in range(rng.choice([1, 1, 2])):
        stt = rng.choice(["-", "-", "-", "4"])
        ts = f"{rng.randrange(nt)}.{rng.choice([1, 4, 6])}" if nt and rng.random() < 0.3 else "-"
        a.append(f"mod:0:{stt}:{entry[0]}:{ts}:0")
        entry[0] += 1
    a.append(f"write:0:{rng.choice(['p', 't'])}:{rng.choice(['-', '-', '@'])}")
    if rng.random() < 0.5:
        a.append(f"retry:0:{rng.choice(['p', 't'])}:-")
    return {"api": name, "status": status, "ntasks": nt, "bkind": "mixed", "mid": mid, "a": a}


def _torn_suite(ctx, pool: Pool) -> None:
    inputs, lines, impl = [], [], []

    def one(sc: dict, tag: str) -> None:
        bed = run_torn(pool, sc)
        inside = any(0 < int(k) < bed.nstmts for k, _ in sc["mid"])
        ctx.count(["torn", sc], nontrivial=True)
        ctx.tag(f"torn:{tag}", "torn:api:" + sc["api"], "torn:B-inside-read" if inside else "torn:B-before-or-after-read",
                "torn:A-object-" + ("mixes-two-row-states" if bed.was_torn else "whole"))
        for o in bed.outs[-len(sc["a"]):] if sc["a"] else []:
            ctx.tag("torn:A-out:" + o.split("#")[0])
        inputs.append({"torn": sc})
        lines.append(_torn_line(bed))
        impl.append("|".join(bed.outs))
        if len([x for x in ctx.samples if "torn" in x]) < 2 and inside:
            ctx.sample({"suite": "torn-read", "torn": sc, "statements": bed.stmts, "outs": bed.outs})
        seen = set()
        for what, sig in bed.hits:
            if sig not in seen:
                seen.add(sig)
                ctx.violation(what, sig, {"torn": sc})

    scs = torn_scenarios(pool, (lambda n: [1, 0, 2] if n == "retrieve_stage" else [1]) if not ctx.thorough else (lambda n: [1, 0, 2]))
    for sc in scs:
        one(sc, "enumerated")
    ctx.extra["torn_read_enumerated"] = len(scs)
    ctx.extra["torn_read_statements_per_api"] = {}
    for sc in scs:
        key = f"{sc['api']}/{sc['ntasks']}"
        ctx.extra["torn_read_statements_per_api"][key] = max(ctx.extra["torn_read_statements_per_api"].get(key, 0), int(sc["mid"][0][0]))
    for _ in range(ctx.n(250, 2000)):
        one(gen_torn(ctx.rng, ctx.thorough), "random")
    ctx.correspond("torn-read", inputs, lines, impl)


# ------------------------------------------------------------------------------------------------
# torn writes: a store_stage call is several SQL statements too (existence / version SELECT, UPDATE, task upserts, COMMIT)
# ------------------------------------------------------------------------------------------------

class _GatedClient:
    """stands in for a Worker inside ONE Bed: its first call runs under the statement gate (start_call / park / resume), later calls are plain"""

    def __init__(self, w: Worker, on_park) -> None:
        self.w, self.on_park, self.armed = w, on_park, False

    def call(self, fn, timeout: float = 120.0):
        if not self.armed:
            return self.w.call(fn, timeout)
        self.armed = False
        self.w.start_call(fn)
        while True:
            kind, val = self.w.wait_parked_or_done(timeout)      # raises what the call raised (ConcurrencyError)
            if kind == "done":
                return val
            self.on_park(val)
            self.w.resume()

    def __getattr__(self, n):
        return getattr(self.w, n)


def run_torn_write(pool: Pool, sc: dict, trace: list[str] | None = None) -> TornBed:
    """sc = {status, ntasks, path: t|p, phase: -|@, k, b: [ops of client 1]}: clients 0 and 1 read the SAME version and modify different
    context keys; client 0's store_stage (transaction | auto-commit) is parked before its statement k — only where its connection holds no
    write lock, i.e. before the SELECT at its head and between that SELECT and the UPDATE (Python's sqlite3 BEGINs at the first DML) — while
    client 1 performs its complete committed write; k >= #statements: client 1 writes after client 0's call returned."""
    bed = TornBed(sc["status"], sc["ntasks"], pool.base, pool.clients)
    bed.api = "store_stage." + ("transaction" if sc["path"] == "t" else "auto-commit")
    bed.bkind = f"tasks{sc['ntasks']}"
    bed.sig_prefix = "torn-write:lost-update"
    a = pool.clients[0]
    seen = {"n": 0, "parked": False, "skipped": False}
    store = bed.store

    def say(x: str) -> None:
        if trace is not None:
            trace.append(x)

    def gate(sql, params):
        i = seen["n"]
        seen["n"] += 1
        intxn = bool(store._get_connection().in_transaction)
        say(f"  A stmt {i:2d} {'*' if intxn else ' '} " + " ".join(sql.split())[:110])
        bed.stmts.append(f"{i}:{'*' if intxn else ''}" + " ".join(sql.split())[:60])
        if i == sc["k"]:
            if intxn:
                seen["skipped"] = True       # A holds SQLite's write lock: B's write would simply block until A commits
            else:
                seen["parked"] = True
                a.park_here({"k": i})

    def on_park(info) -> None:
        say(f"  A parked before stmt {info['k']} of its store_stage")
        for op in sc["b"]:
            bed.step(op)
            say(f"    {op:24s} -> {bed.outs[-1]}")
        bed.rebase, bed.rebase_full = bed.db(), bed.full()

    proxy = _GatedClient(a, on_park)
    bed.clients = [proxy] + list(pool.clients[1:])
    try:
        for op in ("read:0", "read:1", "mod:0:-:8:-:0", "mod:1:-:7:-:0"):
            bed.step(op)
        names = [x.name for x in bed.STAT]
        ph = "-" if sc["phase"] == "-" else str(names.index(bed.obj[0].status.name))
        wop = f"write:0:{sc['path']}:{ph}"
        CTL.gates[a.ident] = gate
        proxy.armed = True
        nh = len(bed.hits)
        try:
            bed.step(wop)
        finally:
            CTL.gates.pop(a.ident, None)
            proxy.armed = False
        bed.nstmts = seen["n"]
        say(f"  {wop:26s} -> {bed.outs[-1]}")
        for what, sig in bed.hits[nh:]:
            say(f"PROPERTY FAILS at step `{wop}`: {what}  [{sig}]")
        bed.rebase = None
        bed.was_torn = seen["parked"]
        bed.skipped = seen["skipped"]
        if not seen["parked"]:
            for op in sc["b"]:
                nh = len(bed.hits)
                bed.step(op)
                say(f"  {op:26s} -> {bed.outs[-1]}")
                for what, sig in bed.hits[nh:]:
                    say(f"PROPERTY FAILS at step `{op}`: {what}  [{sig}]")
    finally:
        CTL.gates.pop(a.ident, None)
        if a.busy:
            a.resume(abort=True)
            try:
                a.wait_parked_or_done(10)
            except BaseException:  # noqa: BLE001
                pass
        bed.clients = list(pool.clients)
        bed.close()
    return bed


def torn_write_scenarios(pool: Pool, thorough: bool) -> list[dict]:
    out = []
    for nt in (0, 1, 2):
        for path in ("t", "p"):
            for phase in ("-", "@"):
                for bpath in (("t", "p") if thorough else ("t",)):
                    base = {"status": 1, "ntasks": nt, "path": path, "phase": phase, "b": [f"write:1:{bpath}:-"]}
                    n = run_torn_write(pool, {**base, "k": 10 ** 6}).nstmts
                    for k in range(n + 1):
                        out.append({**base, "k": k})
    return out


def _torn_write_suite(ctx, pool: Pool) -> None:
    inputs, lines, impl = [], [], []
    n_inside = 0
    for sc in torn_write_scenarios(pool, ctx.thorough):
        bed = run_torn_write(pool, sc)
        if bed.skipped:
            ctx.tag("torn-write:point-inside-write-transaction(not-run)")
            continue
        ctx.count(["tornwrite", sc], nontrivial=True)
        ctx.tag("torn-write:" + ("B-inside-A's-store_stage" if bed.was_torn else "B-after-A"), f"torn-write:path={sc['path']}", f"torn-write:tasks={sc['ntasks']}")
        for o in bed.outs[-2:]:
            ctx.tag("torn-write:out:" + o.split("#")[0])
        n_inside += bed.was_torn
        inputs.append({"tornwrite": sc})
        lines.append(f"cas {bed.status0} {bed.ntasks} " + ";".join(bed.ops))
        impl.append("|".join(bed.outs))
        if bed.was_torn and len([x for x in ctx.samples if "tornwrite" in x]) < 1:
            ctx.sample({"suite": "torn-write", "tornwrite": sc, "statements": bed.stmts, "ops": bed.ops, "outs": bed.outs})
        seen = set()
        for what, sig in bed.hits:
            if sig not in seen:
                seen.add(sig)
                ctx.violation(what + f"; schedule: clients 0 and 1 read the same version, client 1's complete write ran before statement {sc['k']} of "
                              f"client 0's store_stage {bed.stmts}", sig, {"tornwrite": sc})
    ctx.extra["torn_write_schedules"] = len(lines)
    ctx.extra["torn_write_inside"] = n_inside
    ctx.correspond("torn-write", inputs, lines, impl)


# ------------------------------------------------------------------------------------------------
# multi-row transactions: a transaction stores S, then T; T loses its version check; the client RE-USES its in-memory S afterwards
# ------------------------------------------------------------------------------------------------

def run_multirow(pool: Pool, sc: dict, trace: list[str] | None = None) -> TornBed:
    """sc = {status, ntasks, ops}: ops of the Mode-A language plus read2 / mod2 / write2 / txn2 (TornBed.step2).  The model line is the op
    list WITHOUT the ops on the second row and WITHOUT a two-row transaction whose second row was stale (no effect, versions as before)."""
    bed = TornBed(sc["status"], sc["ntasks"], pool.base, pool.clients)
    bed.api, bed.bkind, bed.sig_prefix = "transaction(S,T)", f"tasks{sc['ntasks']}", "multi-row:lost-update"
    try:
        for op in sc["ops"]:
            nh = len(bed.hits)
            if op.split(":")[0] in ("read2", "mod2", "write2", "txn2"):
                what = bed.step2(op)
            else:
                bed.step(op)
                what = bed.outs[-1]
            bed.trace_ops.append(op)
            if trace is not None:
                trace.append(f"  {op:22s} -> {what}")
                for w, sig in bed.hits[nh:]:
                    trace.append(f"PROPERTY FAILS at step `{op}`: {w}  [{sig}]")
    finally:
        bed.close()
    return bed


def multirow_scenarios(thorough: bool) -> list[dict]:
    out = []
    peer = ["read:1", "mod:1:3:7:-:0"]      # the peer's read-modify-write of S: status + a context key
    for nt in (0, 1, 2):
        for stale in (True, False):
            for resave in (("t", "p") if thorough else ("t",)):
                for pw in ("t", "p"):
                    head = ["read:0", "read2:0"] + (["read2:1", "mod2:1:5", "write2:1"] if stale else []) + ["mod:0:-:8:-:0", "mod2:0:6", "txn2:0"]
                    rmw = peer + [f"write:1:{pw}:-"]
                    for pos in range(len(rmw) + 1):      # where client 0 re-saves its OLD in-memory S (no re-read) inside the peer's read-modify-write
                        for again in ((False, True) if stale else (False,)):
                            tail = rmw[:pos] + [f"write:0:{resave}:-"] + rmw[pos:]
                            if again:
                                tail.append(f"write:0:{resave}:-")      # and once more after the peer committed
                            out.append({"status": 1, "ntasks": nt, "ops": head + tail})
        # second "row" = a task row of S made stale by an outside writer: the stage row passes, the task row loses
        for k in range(nt):
            for resave in ("t", "p"):
                out.append({"status": 1, "ntasks": nt, "ops": ["read:0", "mod:0:-:8:-:0", f"bump:{k}", f"write:0:{resave}:-", "read:1", "mod:1:3:7:-:0",
                                                               "write:1:t:-", f"write:0:{resave}:-", f"retry:0:{resave}:-"]})
    return out


def _multirow_model(bed: TornBed) -> tuple[str, str]:
    return f"cas {bed.status0} {bed.ntasks} " + ";".join(bed.ops), "|".join(bed.outs)


def _multirow_suite(ctx, pool: Pool) -> None:
    inputs, lines, impl = [], [], []
    for sc in multirow_scenarios(ctx.thorough):
        bed = run_multirow(pool, sc)
        ctx.count(["multirow", sc], nontrivial=True)
        ctx.tag("multi-row:" + ("second-row-stale" if "write2:1" in sc["ops"] else "task-row-stale" if any(o.startswith("bump") for o in sc["ops"]) else "both-rows-fresh"),
                f"multi-row:tasks={sc['ntasks']}")
        for o in bed.outs:
            ctx.tag("multi-row:out:" + o.split("#")[0])
        line, got = _multirow_model(bed)
        inputs.append({"multirow": sc})
        lines.append(line)
        impl.append(got)
        if len([x for x in ctx.samples if "multirow" in x]) < 1 and "write2:1" in sc["ops"]:
            ctx.sample({"suite": "multi-row", "multirow": sc, "model_ops": bed.ops, "outs": bed.outs})
        seen = set()
        for what, sig in bed.hits:
            if sig not in seen:
                seen.add(sig)
                ctx.violation(what + f"; op sequence {sc['ops']} (read2 / mod2 / write2 / txn2 = the second row T; txn2 = ONE transaction storing S then T)",
                              sig, {"multirow": sc})
    ctx.extra["multi_row_schedules"] = len(lines)
    ctx.correspond("multi-row", inputs, lines, impl)


def _run_replays(ctx, pool: Pool) -> None:
    d = core.VERIF / "replays" / "C07"
    if not d.is_dir():
        return
    inputs, lines, impl = [], [], []
    for f in sorted(d.glob("*.json")):
        body = json.loads(f.read_text())
        r = body.get("replay", body)
        if "multirow" in r:
            tb = run_multirow(pool, r["multirow"])
            ctx.count(["multirow", r["multirow"]])
            ctx.tag("replay-file")
            line, got = _multirow_model(tb)
            inputs.append({"file": f.name})
            lines.append(line)
            impl.append(got)
            seen = set()
            for what, sig in tb.hits:
                if sig not in seen:
                    seen.add(sig)
                    ctx.violation(what, sig, {"multirow": r["multirow"]})
            continue
        if "tornwrite" in r:
            tb = run_torn_write(pool, r["tornwrite"])
            ctx.count(["tornwrite", r["tornwrite"]])
            ctx.tag("replay-file")
            inputs.append({"file": f.name})
            lines.append(f"cas {tb.status0} {tb.ntasks} " + ";".join(tb.ops))
            impl.append("|".join(tb.outs))
            seen = set()
            for what, sig in tb.hits:
                if sig not in seen:
                    seen.add(sig)
                    ctx.violation(what, sig, {"tornwrite": r["tornwrite"]})
            continue
        if "torn" in r:
            tb = run_torn(pool, r["torn"])
            ctx.count(["torn", r["torn"]])
            ctx.tag("replay-file")
            inputs.append({"file": f.name})
            lines.append(_torn_line(tb))
            impl.append("|".join(tb.outs))
            seen = set()
            for what, sig in tb.hits:
                if sig not in seen:
                    seen.add(sig)
                    ctx.violation(what, sig, {"torn": r["torn"]})
            if not tb.hits and body.get("expect") == "violation":
                ctx.notes.append(f"replay {f.name}: the recorded finding no longer reproduces (fixed?)")
            continue
        if "ops" not in r:
            continue
        bed = run_fixed(pool, r["status"], r["ntasks"], r["ops"])
        ctx.count([r["status"], r["ntasks"], r["ops"]])
        ctx.tag("replay-file")
        inputs.append({"file": f.name})
        lines.append(f"cas {r['status']} {r['ntasks']} " + ";".join(r["ops"]))
        impl.append("|".join(bed.outs))
        if bed.hits:
            _report(ctx, pool, bed, r["ops"], do_shrink=False)
        elif body.get("expect") == "violation":
            ctx.notes.append(f"replay {f.name}: the recorded finding no longer reproduces (fixed?)")
    if lines:
        ctx.correspond("replays", inputs, lines, impl)


def _quiet() -> None:
    import logging

    logging.getLogger("stabilize").setLevel(logging.CRITICAL)


def run(ctx) -> None:
    install()
    _quiet()
    pairs = engine_pairs.start(ctx)      # Mode B engine pairs run in worker processes while the store-level suites run here
    pool = Pool()
    try:
        _run_replays(ctx, pool)
        _torn_suite(ctx, pool)
        _torn_write_suite(ctx, pool)
        _multirow_suite(ctx, pool)
        _upsert_suite(ctx, pool, ctx.n(500, 5000))
        _suite(ctx, pool, ctx.n(3000, 16000), "cas-mode-a")
    except BaseException:
        pairs["pool"].terminate()
        raise
    finally:
        pool.close()
    engine_pairs.finish(ctx, pairs)


def search(ctx) -> None:
    install()
    _quiet()
    pool = Pool()
    try:
        known = {k["signature"] for k in core.load_known() if k.get("property") == "C07"}
        for _ in range(ctx.n(3000, 12000)):
            status, ntasks, ops = gen_ops(ctx.rng, True)
            bed = run_fixed(pool, status, ntasks, ops)
            ctx.count([status, ntasks, ops])
            if bed.hits:
                _report(ctx, pool, bed, ops)
                if any(s not in known for _, s in bed.hits):
                    return
    finally:
        pool.close()


def replay(ctx, body) -> int:
    r0 = body.get("replay", body)
    if isinstance(r0, dict) and "enginepair" in r0:
        return engine_pairs.replay(ctx, body)     # Mode B installs its own connection shim
    install()
    _quiet()
    pool = Pool()
    try:
        r = body.get("replay", body)
        if "multirow" in r:
            sc = r["multirow"]
            print(f"multi-row transaction: stage S with {sc['ntasks']} task row(s) and a second row T (another stage of the workflow); read2 / mod2 / write2 act on T, "
                  f"txn2:c = ONE transaction of client c storing S and then T")
            trace = []
            tb = run_multirow(pool, sc, trace)
            for ln in trace:
                print(ln)
            line, got = _multirow_model(tb)
            model = ctx.lean([line])
            if model is not None:
                print("model line (ops on T and a two-row transaction whose T was stale are no steps of the single-row model):", line)
                print("model agrees with the implementation:", model[0] == got)
                if model[0] != got:
                    print("  model:", model[0]); print("  impl :", got)
            return 1 if tb.hits else 0
        if "tornwrite" in r:
            sc = r["tornwrite"]
            print(f"torn write: clients 0 and 1 read version 0 of a stage with {sc['ntasks']} task row(s) and set different context keys; client 0 calls "
                  f"store_stage ({'transaction' if sc['path'] == 't' else 'auto-commit'}, expected_phase {'= its status' if sc['phase'] == '@' else 'none'}) "
                  f"and is parked before its statement {sc['k']} while client 1 does {sc['b']}")
            trace: list[str] = []
            tb = run_torn_write(pool, sc, trace)
            for ln in trace:
                print(ln)
            if tb.skipped:
                print("  statement", sc["k"], "is inside client 0's write transaction: not a legal injection point (client 1 would block), nothing was injected")
            model = ctx.lean([f"cas {tb.status0} {tb.ntasks} " + ";".join(tb.ops)])
            if model is not None:
                print("model agrees with the implementation on this schedule:", model[0] == "|".join(tb.outs))
                if model[0] != "|".join(tb.outs):
                    print("  model:", model[0]); print("  impl :", "|".join(tb.outs))
            return 1 if tb.hits else 0
        if "torn" in r:
            sc = r["torn"]
            print(f"torn read: client 0 calls {sc['api']} on a stage with {sc['ntasks']} task(s), initial status {sc['status']}; "
                  f"other clients' complete writes are placed before statement(s) {[k for k, _ in sc['mid']]} of that call")
            trace: list[str] = []
            tb = run_torn(pool, sc, trace)
            for ln in trace:
                print(ln)
            for variant, name in (("s", "Variant.sameStatement (the code as modelled)"), ("r", "Variant.rereadVersion (version re-read by a last statement)")):
                ops = list(tb.ops)
                if variant == "r":
                    ops.insert(ops.index("rend:0"), "rver:0")
                model = ctx.lean([f"cas split {variant} {tb.status0} {tb.ntasks} " + ";".join(ops)])
                if model is not None:
                    got = model[0].split("|")
                    if variant == "r":
                        del got[ops.index("rver:0")]
                    print(f"model {name} agrees with the implementation on this schedule:", got == tb.outs)
            return 1 if tb.hits else 0
        if "ops" not in r:
            return engine_pairs.replay(ctx, body)
        bed = Bed(r["status"], r["ntasks"], pool.base, pool.clients)
        try:
            for op in r["ops"]:
                nh = len(bed.hits)
                bed.step(op)
                o = bed.outs[-1].split("#")
                print(f"  {op:26s} -> {o[0]:18s} stage[{o[1]}] tasks[{o[2]}]")
                for what, sig in bed.hits[nh:]:
                    print(f"PROPERTY FAILS at step `{op}`: {what}  [{sig}]")
        finally:
            bed.close()
        model = ctx.lean([f"cas {bed.status0} {bed.ntasks} " + ";".join(bed.ops)])
        if model is not None:
            print("model agrees with the implementation on this trace:", model[0] == "|".join(bed.outs))
        return 1 if bed.hits else 0
    finally:
        pool.close()
