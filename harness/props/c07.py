"""C07 — concurrent writers never silently overwrite each other.

Mode A: 2-3 logical clients, each a dedicated thread with its own SQLite connection (connections are thread-local in
ConnectionManager), scheduled call-by-call by the harness, doing read / modify / write (auto-commit | transaction |
with expected_phase) / retry on ONE stage with tasks through the public store API.  After every op the durable stage row
and task rows (read through a separate connection) and the outcome (ok / ConcurrencyError) are compared with the Lean
model `Stab.CasRow`.  The engine-level pairs (signal vs task result, …) are separate suites (engine_pairs, if present).
"""
from __future__ import annotations

import json
import shutil
import sqlite3
import uuid
from pathlib import Path

from harness import core
from harness.dbshim import CTL, Worker, install

RULE = ("random interleavings (10-32 ops) of read / modify (append a log entry, optionally set the stage status, set a task's "
        "status, add a task) / write(auto-commit | transaction) with or without expected_phase / retry by 2-3 clients on one "
        "stage with 0-3 tasks, plus (rarely) an outside writer bumping a task row; a case is distinct by its canonical "
        "(initial status, #tasks, op list) and non-trivial when two clients hold a snapshot of the same version and both write")
ASSUMPTIONS = [
    "interleaving granularity is the store API call: SQLite admits one writer at a time, so statements of two store_stage "
    "calls cannot interleave between the first UPDATE and the commit (trusted: SQLite locking)",
    "retrieve_stage is treated as one atomic read (its two SELECTs are not interleaved with a writer)",
    "if a store_stage call that raised ConcurrencyError leaves a write transaction open on its connection (it did before the "
    "F33 repair) the harness commits it at once — what that connection's next commit would do — and the monitor "
    "`failed-write-changed-row` checks that the durable rows did not change",
]
TRUSTED_BASE = [
    "hand-written model lean/Stab/Model/CasRow.lean of store_stage (store and transaction) and upsert_task, tied to the code by "
    "the Mode-A differential and by the generated SQL shapes (lean/Stab/Gen/StoreSql.lean, theorems gen_*)",
    "SQLite: single writer, atomic commit/rollback, UNIQUE/PRIMARY KEY enforcement (IntegrityError)",
]


class Bed:
    def __init__(self, status: int, ntasks: int, base: Path, clients: list[Worker]):
        from stabilize.persistence.connection import ConnectionManager, SingletonMeta

        self.clients = clients
        self.path = str(base / f"c-{uuid.uuid4().hex[:8]}.db")
        self.cs = f"sqlite:///{self.path}"
        SingletonMeta.reset(ConnectionManager)
        CTL.arm_crash(None)
        self.status0 = status
        self.ntasks = ntasks
        self.ops: list[str] = []
        self.outs: list[str] = []
        self.hits: list[tuple[str, str]] = []
        self.tags: list[str] = []
        self.obj: dict[int, object] = {}
        self.pend: dict[int, list[tuple]] = {}
        self.tid: dict[str, int] = {}
        self.next_tid = ntasks
        self.committed: list[tuple] = []          # modifications of the writes that reported success, commit order
        self.based_on: list[tuple[int, int]] = []  # (client, version the successful write was based on)
        self.lost_reported = False
        self._build()
        self.admin = sqlite3.connect(self.path, timeout=30, isolation_level=None, check_same_thread=False)

    def _build(self) -> None:
        from stabilize import SqliteWorkflowStore, StageExecution, TaskExecution, Workflow
        from stabilize.models.status import WorkflowStatus

        self.STAT = list(WorkflowStatus)

        def mk():
            self.store = SqliteWorkflowStore(self.cs, create_tables=True)
            tasks = []
            for i in range(self.ntasks):
                t = TaskExecution.create(name=f"t{i}", implementing_class="x", stage_start=(i == 0), stage_end=(i == self.ntasks - 1))
                tasks.append(t)
            st = StageExecution.create(type="x", name="s", ref_id="s", context={"log": []})
            st.tasks = tasks
            st.status = self.STAT[self.status0]
            wf = Workflow.create(application="verif", name="c07", stages=[st])
            self.store.store(wf)
            self.stage_id = st.id
            return [t.id for t in tasks]

        ids = self.clients[0].call(mk)
        for i, t in enumerate(ids):
            self.tid[t] = i

    def close(self) -> None:
        from stabilize.persistence.connection import ConnectionManager, SingletonMeta

        st = self.store
        for w in self.clients:
            try:
                w.call(st.close)
            except BaseException:  # noqa: BLE001
                pass
        self.admin.close()
        SingletonMeta.reset(ConnectionManager)
        for suf in ("", "-wal", "-shm", "-journal"):
            try:
                Path(self.path + suf).unlink()
            except FileNotFoundError:
                pass

    # ---- observation --------------------------------------------------------------------
    def db(self) -> dict:
        v, s, ctx = self.admin.execute("SELECT version, status, context FROM stage_executions WHERE id = ?", (self.stage_id,)).fetchone()
        trs = self.admin.execute("SELECT id, version, status FROM task_executions WHERE stage_id = ? ORDER BY id ASC", (self.stage_id,)).fetchall()
        names = [x.name for x in self.STAT]
        return {"version": v, "status": names.index(s), "payload": json.loads(ctx).get("log", []),
                "tasks": [(self.tid.get(i, -1), ver, names.index(stt)) for i, ver, stt in trs]}

    def state_line(self) -> str:
        d = self.db()
        pl = ",".join(str(x) for x in d["payload"]) if d["payload"] else "-"
        ts = ",".join(f"{a}.{b}.{c}" for a, b, c in d["tasks"]) if d["tasks"] else "-"
        return f"{d['version']}.{d['status']}.{pl}#{ts}"

    # ---- ops ----------------------------------------------------------------------------------
    def _apply_mod(self, c: int, mod: tuple) -> None:
        """in-memory modification of client c's StageExecution"""
        from stabilize import TaskExecution

        st = self.obj[c]
        set_status, entry, task_st, add = mod
        if set_status is not None:
            st.status = self.STAT[set_status]
        st.context["log"] = list(st.context.get("log", [])) + [entry]
        if task_st is not None:
            k, v = task_st
            if k < len(st.tasks):
                st.tasks[k].status = self.STAT[v]
        if add:
            t = TaskExecution.create(name=f"n{self.next_tid}", implementing_class="x")
            t.status = self.STAT[1]
            self.tid[t.id] = self.next_tid
            self.next_tid += 1
            st.tasks.append(t)

    def _write(self, c: int, txn: bool, phase: int | None) -> str:
        from stabilize.errors import ConcurrencyError

        st = self.obj[c]
        store = self.store
        ph = self.STAT[phase].name if phase is not None else None
        based = st.version

        def f():
            if txn:
                with store.transaction() as t:
                    t.store_stage(st, expected_phase=ph)
            else:
                store.store_stage(st, expected_phase=ph)

        before = self.db()
        try:
            self.clients[c].call(f)
            out = "ok"
        except ConcurrencyError:
            out = "conflict"

            def fix():
                conn = store._get_connection()
                if conn.in_transaction:
                    conn.commit()
                    return True
                return False

            if self.clients[c].call(fix):
                self.tags.append("open-write-txn-after-ConcurrencyError")
            after = self.db()
            if after != before:
                out = "conflict-partial"
        if out == "ok":
            self.committed += self.pend[c]
            self.pend[c] = []
            if any(v == based for _, v in self.based_on):
                self.hit(f"two writes based on stage version {based} both succeeded", "two-winners-one-version")
            self.based_on.append((c, based))
        elif out == "conflict-partial":
            if any(o.startswith("bump") for o in self.ops):
                self.hit("with an outside writer of a task row: auto-commit store_stage raised ConcurrencyError from upsert_task after its stage "
                         "UPDATE succeeded and did not roll back; the connection's next commit made the stage change durable although the "
                         "caller was told the write failed", "failed-write-changed-row:outside-task-writer")
            else:
                self.hit("a store_stage call that raised ConcurrencyError changed the durable row although no outside writer touched the task rows",
                         "half-applied-write-without-outside-writer")
        return out

    def hit(self, what: str, sig: str) -> None:
        self.hits.append((what, sig))

    def check_fold(self, after: str) -> None:
        """lost-update detector: the durable payload/status must be the fold of the successful modifications, in commit order"""
        if self.lost_reported:
            return
        d = self.db()
        want_payload = [m[1] for m in self.committed]
        want_status = self.status0
        for m in self.committed:
            if m[0] is not None:
                want_status = m[0]
        if d["payload"] != want_payload or d["status"] != want_status:
            if any(s.startswith("failed-write-changed-row") or s.startswith("half-applied") for _, s in self.hits):
                return  # consequence of the reported cause
            missing = [e for e in want_payload if e not in d["payload"]]
            extra = [e for e in d["payload"] if e not in want_payload]
            kind = "committed-change-missing" if missing else ("uncommitted-change-present" if extra else "status-or-order")
            self.lost_reported = True
            self.hit(f"after `{after}` the stage row holds payload {d['payload']} / status {d['status']} but the successful writes, in commit "
                     f"order, give {want_payload} / {want_status}", f"lost-update:{kind}")

    def step(self, op: str) -> None:
        toks = op.split(":")
        k, c = toks[0], int(toks[1])
        store = self.store
        out = "ok"
        if k == "read":
            self.obj[c] = self.clients[c].call(lambda: store.retrieve_stage(self.stage_id))
            self.pend[c] = []
        elif k == "mod":
            if c not in self.obj:
                out = "noobj"
            else:
                mod = (None if toks[2] == "-" else int(toks[2]), int(toks[3]),
                       None if toks[4] == "-" else tuple(int(x) for x in toks[4].split(".")), toks[5] == "1")
                self._apply_mod(c, mod)
                self.pend[c].append(mod)
        elif k in ("write", "retry"):
            if c not in self.obj:
                out = "noobj"
            else:
                txn = toks[2] == "t"
                phase = None if toks[3] == "-" else int(toks[3])
                if k == "retry":
                    mods = list(self.pend[c])
                    self.obj[c] = self.clients[c].call(lambda: store.retrieve_stage(self.stage_id))
                    self.pend[c] = []
                    for m in mods:
                        self._apply_mod(c, m)
                        self.pend[c].append(m)
                out = self._write(c, txn, phase)
        elif k == "bump":
            ids = [i for i, o in self.tid.items() if o == c]
            if ids:
                self.admin.execute("UPDATE task_executions SET version = version + 1 WHERE id = ?", (ids[0],))
        else:
            raise core.Infra(f"unknown op {op}")
        self.ops.append(op)
        self.outs.append(out + "#" + self.state_line())
        self.check_fold(op)


# ------------------------------------------------------------------------------------------------

class Pool:
    def __init__(self) -> None:
        self.clients = [Worker(f"c{i}") for i in range(3)]
        self.base = core.scratch_dir()

    def close(self) -> None:
        for w in self.clients:
            w.stop()
        shutil.rmtree(self.base, ignore_errors=True)


def gen_ops(rng, thorough: bool) -> tuple[int, int, list[str]]:
    status = rng.choice([0, 1, 1, 1, 3])
    ntasks = rng.choice([0, 1, 2, 3])
    nc = rng.choice([2, 3])
    n = rng.randint(10, 32 if thorough else 26)
    ops = [f"read:{c}" for c in range(nc) if rng.random() < 0.8]
    entry = 1
    bump_ok = rng.random() < 0.12
    live_tasks = ntasks
    for _ in range(n):
        c = rng.randrange(nc)
        x = rng.random()
        if x < 0.16:
            ops.append(f"read:{c}")
        elif x < 0.50:
            st = rng.choice(["-", "-", "1", "3", "4", "2"])
            ts = "-"
            if live_tasks and rng.random() < 0.4:
                ts = f"{rng.randrange(live_tasks)}.{rng.choice([1, 4, 6])}"
            add = "1" if rng.random() < 0.12 else "0"
            ops.append(f"mod:{c}:{st}:{entry}:{ts}:{add}")
            entry += 1
        elif x < 0.80:
            ph = "-" if rng.random() < 0.6 else str(rng.choice([status, 1, 3, 4]))
            ops.append(f"write:{c}:{rng.choice(['p', 't', 't'])}:{ph}")
        elif x < 0.96 or not bump_ok or not live_tasks:
            ph = "-" if rng.random() < 0.8 else str(rng.choice([1, 3, 4]))
            ops.append(f"retry:{c}:{rng.choice(['p', 't'])}:{ph}")
        else:
            ops.append(f"bump:{rng.randrange(live_tasks)}")
    return status, ntasks, ops


def run_fixed(pool: Pool, status: int, ntasks: int, ops: list[str]) -> Bed:
    bed = Bed(status, ntasks, pool.base, pool.clients)
    try:
        for op in ops:
            bed.step(op)
    finally:
        bed.close()
    return bed


def shrink(pool: Pool, status: int, ntasks: int, ops: list[str], sig: str, budget: int = 100) -> list[str]:
    def fails(o):
        try:
            return any(s == sig for _, s in run_fixed(pool, status, ntasks, o).hits)
        except Exception:
            return False

    cur, n, runs = list(ops), 2, 0
    while len(cur) >= 2 and runs < budget:
        chunk = max(1, len(cur) // n)
        reduced = False
        for i in range(0, len(cur), chunk):
            cand = cur[:i] + cur[i + chunk:]
            runs += 1
            if cand and fails(cand):
                cur, n, reduced = cand, max(n - 1, 2), True
                break
            if runs >= budget:
                break
        if not reduced:
            if chunk == 1:
                break
            n = min(n * 2, len(cur))
    return cur


def _nontrivial(bed: Bed) -> bool:
    return any(o.startswith("conflict") for o in (x.split("#")[0] for x in bed.outs))


def _report(ctx, pool: Pool, bed: Bed, ops: list[str], do_shrink: bool = True) -> None:
    seen = set()
    for what, sig in bed.hits:
        if sig in seen:
            continue
        seen.add(sig)
        o = ops
        if do_shrink and not any(h["signature"] == sig for h in ctx.monitor_hits):
            o = shrink(pool, bed.status0, bed.ntasks, ops, sig)
            w2 = [w for w, s in run_fixed(pool, bed.status0, bed.ntasks, o).hits if s == sig]
            what = w2[0] if w2 else what
        ctx.violation(what, sig, {"status": bed.status0, "ntasks": bed.ntasks, "ops": o})


def _suite(ctx, pool: Pool, n: int, name: str) -> None:
    inputs, lines, impl = [], [], []
    for _ in range(n):
        status, ntasks, ops = gen_ops(ctx.rng, ctx.thorough)
        bed = run_fixed(pool, status, ntasks, ops)
        ctx.count([status, ntasks, ops], nontrivial=_nontrivial(bed))
        for o, r in zip(bed.ops, bed.outs):
            ctx.tag("op:" + o.split(":")[0] + ("" if o.split(":")[0] not in ("write", "retry") else "-" + o.split(":")[2] + ("-phase" if o.split(":")[3] != "-" else "")))
            ctx.tag("out:" + r.split("#")[0])
        for t in bed.tags:
            ctx.tag(t)
        inputs.append({"status": status, "ntasks": ntasks, "ops": ops})
        lines.append(f"cas {status} {ntasks} " + ";".join(ops))
        impl.append("|".join(bed.outs))
        if len(ctx.samples) < 3:
            ctx.sample({"suite": name, "status": status, "ntasks": ntasks, "ops": ops[:12], "last": bed.outs[-1]})
        if bed.hits:
            _report(ctx, pool, bed, ops)
    ctx.correspond(name, inputs, lines, impl)


def _upsert_suite(ctx, pool: Pool, n: int) -> None:
    """helpers.upsert_task as a function: (task table, task id, in-memory version, status) -> table' / ConcurrencyError"""
    from stabilize import TaskExecution
    from stabilize.errors import ConcurrencyError
    from stabilize.persistence.sqlite.helpers import upsert_task

    inputs, lines, impl = [], [], []
    bed = Bed(1, 3, pool.base, pool.clients)
    try:
        store = bed.store
        for _ in range(n):
            # bring the three rows to random versions through the outside writer, then one upsert with a chosen version
            vers = []
            ops = []
            for t in range(3):
                k = ctx.rng.randrange(3)
                for _ in range(k):
                    ops.append(f"bump:{t}")
            target = ctx.rng.randrange(4)   # 3 = a task that has no row yet
            d0 = bed.db()
            for o in ops:
                bed.step(o)
            d = bed.db()
            cur = {a: b for a, b, _ in d["tasks"]}
            mem_ver = ctx.rng.choice([cur.get(target, 0), cur.get(target, 0), ctx.rng.randrange(0, 8)])
            stt = ctx.rng.choice([1, 4, 6])
            if target in cur:
                tid = [i for i, o in bed.tid.items() if o == target][0]
                t = TaskExecution.create(name="u", implementing_class="x")
                t.id = tid
            else:
                t = TaskExecution.create(name="u", implementing_class="x")
                bed.tid[t.id] = 1000
            t.version = mem_ver
            t.status = bed.STAT[stt]

            def f():
                conn = store._get_connection()
                try:
                    upsert_task(conn, t, bed.stage_id)
                    conn.commit()
                    return f"ok:{t.version}"
                except ConcurrencyError:
                    conn.rollback()
                    return "conflict"

            out = bed.clients[0].call(f)
            d2 = bed.db()
            rows_before = ",".join(f"{a}.{b}.{c}" for a, b, c in d["tasks"])
            rows_after = ",".join(f"{a}.{b}.{c}" for a, b, c in d2["tasks"])
            tnum = target if target in cur else 1000
            inputs.append({"rows": rows_before, "task": [tnum, mem_ver, stt]})
            lines.append(f"cas upsert {rows_before} {tnum}.{mem_ver}.{stt}")
            impl.append(f"{out}#{rows_after}")
            ctx.count(["upsert", rows_before, tnum, mem_ver, stt], nontrivial=True)
            ctx.tag("upsert:" + out.split(":")[0])
            if target not in cur:
                # remove the inserted row again so the table keeps three rows
                bed.admin.execute("DELETE FROM task_executions WHERE id = ?", (t.id,))
                del bed.tid[t.id]
            # monitor: an upsert with a stale version must not change the row
            if target in cur and mem_ver != cur[target] and d2["tasks"] != d["tasks"]:
                ctx.violation(f"upsert_task with in-memory version {mem_ver} changed a row at version {cur[target]}",
                              "task-upsert-overwrote-newer-version", {"rows": rows_before, "task": [tnum, mem_ver, stt]})
            if target in cur and mem_ver == cur[target]:
                got = {a: b for a, b, _ in d2["tasks"]}
                if got.get(target) != cur[target] + 1:
                    ctx.violation("upsert_task with the matching version did not bump the row version", "task-version-not-bumped",
                                  {"rows": rows_before, "task": [tnum, mem_ver, stt]})
    finally:
        bed.close()
    ctx.correspond("upsert-task", inputs, lines, impl)


def _run_replays(ctx, pool: Pool) -> None:
    d = core.VERIF / "replays" / "C07"
    if not d.is_dir():
        return
    inputs, lines, impl = [], [], []
    for f in sorted(d.glob("*.json")):
        body = json.loads(f.read_text())
        r = body.get("replay", body)
        if "ops" not in r:
            continue
        bed = run_fixed(pool, r["status"], r["ntasks"], r["ops"])
        ctx.count([r["status"], r["ntasks"], r["ops"]])
        ctx.tag("replay-file")
        inputs.append({"file": f.name})
        lines.append(f"cas {r['status']} {r['ntasks']} " + ";".join(r["ops"]))
        impl.append("|".join(bed.outs))
        if bed.hits:
            _report(ctx, pool, bed, r["ops"], do_shrink=False)
        elif body.get("expect") == "violation":
            ctx.notes.append(f"replay {f.name}: the recorded finding no longer reproduces (fixed?)")
    if lines:
        ctx.correspond("replays", inputs, lines, impl)


def _quiet() -> None:
    import logging

    logging.getLogger("stabilize").setLevel(logging.CRITICAL)


def run(ctx) -> None:
    install()
    _quiet()
    pool = Pool()
    try:
        _run_replays(ctx, pool)
        _upsert_suite(ctx, pool, ctx.n(500, 5000))
        _suite(ctx, pool, ctx.n(3000, 25000), "cas-mode-a")
    finally:
        pool.close()
    try:
        from harness import engine_pairs
    except ImportError:
        return
    engine_pairs.run_for(ctx, "C07")


def search(ctx) -> None:
    install()
    _quiet()
    pool = Pool()
    try:
        known = {k["signature"] for k in core.load_known() if k.get("property") == "C07"}
        for _ in range(ctx.n(3000, 12000)):
            status, ntasks, ops = gen_ops(ctx.rng, True)
            bed = run_fixed(pool, status, ntasks, ops)
            ctx.count([status, ntasks, ops])
            if bed.hits:
                _report(ctx, pool, bed, ops)
                if any(s not in known for _, s in bed.hits):
                    return
    finally:
        pool.close()


def replay(ctx, body) -> int:
    install()
    _quiet()
    pool = Pool()
    try:
        r = body.get("replay", body)
        if "ops" not in r:
            from harness import engine_pairs

            return engine_pairs.replay(ctx, body)
        bed = Bed(r["status"], r["ntasks"], pool.base, pool.clients)
        try:
            for op in r["ops"]:
                nh = len(bed.hits)
                bed.step(op)
                o = bed.outs[-1].split("#")
                print(f"  {op:26s} -> {o[0]:18s} stage[{o[1]}] tasks[{o[2]}]")
                for what, sig in bed.hits[nh:]:
                    print(f"PROPERTY FAILS at step `{op}`: {what}  [{sig}]")
        finally:
            bed.close()
        model = ctx.lean([f"cas {bed.status0} {bed.ntasks} " + ";".join(bed.ops)])
        if model is not None:
            print("model agrees with the implementation on this trace:", model[0] == "|".join(bed.outs))
        return 1 if bed.hits else 0
    finally:
        pool.close()
