"""Mode B — deterministic statement-level interleaving driver for the REAL engine on one SQLite file.

What it is
----------
Every *worker* is a thread with its own thread-local SQLite connection (that is how the engine's
``ConnectionManager`` hands out connections, and how ``QueueProcessor.start()``'s pool threads work).  A worker
runs one *operation* (normally: handle one chosen queue row through the real ``QueueProcessor._handle_message``
and ``queue.ack``, exactly the body of ``process_and_ack``).  All connections of the engine are created through
a shim installed at ``stabilize.persistence.connection.sqlite3`` whose ``connect`` passes ``factory=`` a
``sqlite3.Connection`` subclass; its ``execute`` and ``commit`` report every DB call (SQL statement or commit) of
the current worker to the scheduler *before* the call is performed.  A worker can be *armed*: at its k-th DB call
the scheduler runs another worker's whole operation in that worker's own thread, joins it, and only then lets
the first worker perform the call.  The injected worker can itself be armed (preemption depth 2, or deeper).
Nothing in the repo is patched; no sleeps, no OS scheduling: a schedule is a value and can be replayed.

Which interleavings this enumerates (and which not)
---------------------------------------------------
An injection point of A is *legal* only when A holds no SQLite lock, i.e. A is not ``in_transaction`` (Python's
sqlite3 opens the implicit transaction right before the first INSERT/UPDATE/DELETE, so the point *before* the
first DML of a transaction is legal — that is the read-then-CAS window — and every point after it up to and
including the COMMIT is not).  At an illegal point B's first write would simply block on A's lock until A
commits (SQLite is single-writer), so running B there would be the same as running it after A's commit; the
driver records such points as ``skipped-intxn`` and does not run them.  Hence the enumerated set is exactly the
set of interleavings that SQLite's locking permits **at transaction granularity, plus all read / CAS windows**:
"B runs atomically inside a read-window of A", nested to depth 2 (C inside a read-window of B inside a
read-window of A).  B's own multi-transaction operation *can* be split (arm B with C), but with arming alone A cannot resume
inside B, so this is NOT every statement-level interleaving of three free-running workers; it is the
preemption-bounded subset (bound = nesting depth).  Reads of B inside a write transaction of A are not explored
(the engine's default journal mode is DELETE, where they would see the pre-transaction state anyway).
If B nevertheless hits ``database is locked`` (a lingering read cursor of A), the schedule is reported as
``blocked`` and is never counted as a violation; the busy timeout is lowered so that this costs < 0.5 s.

Alternation (round 3, additive): an injected operation B may *yield back to its parent*: ``B.yields = {j: Yield(until=m)}``.
When B reaches its call j (legal: B holds no lock) it hands the baton back to A, which performs its calls k .. until it
reaches its first legal call with index >= m (or finishes: ``until=None``); then B resumes and runs to completion (or to its
next yield), and A continues.  With it the driver produces A1 B1 A2 B2 [A3] — A resumes *inside* B — which no nesting can
express.  Still exactly one thread runs at any time (threading.Event baton), every hand-over happens at a lock-free point of
the thread that gives the baton away, and a lock timeout marks the schedule ``blocked`` as before.  A parent that finishes
(or dies) while a child still waits resumes the child (its remaining part runs after the parent).  Every recorded ``Call``
carries ``g``, its position in the global order in which the DB calls of the whole schedule were actually performed.

A detail worth knowing: the non-transactional `SqliteWorkflowStore.store_stage` raises ConcurrencyError after a
0-row UPDATE without rolling back, so that worker keeps its implicit write transaction (and SQLite's RESERVED lock)
until its next commit — all those points are `in_transaction` and therefore skipped, as they must be.

Typical use (see harness/props/c04.py, c11.py)
----------------------------------------------
    env = fresh_env(core.scratch_dir()); build_fanin(env, 2, "DISCRIMINATOR"); env.start()
    env.drain(hold=lambda code: code.startswith("CS(u"))          # bring the engine to the interesting state
    snap = snapshot(env)
    a, b = env.find("CS(u1)")[0], env.find("CS(u2)")[0]            # queue row ids by canonical code
    for c in enumerate_points(env, snap, lambda e: e.deliver_op("A", a)):
        if c.legal:
            out = run_schedule(env, snap, lambda e: e.deliver_op("A", a, {c.idx: e.deliver_op("B", b)}))
            reason, steps = env.drain()                            # then look at env.audit(), env.qledger(), LEDGER, env.state_line()
    # depth 2: e.deliver_op("A", a, {k: e.deliver_op("B", b, {j: e.deliver_op("C", c)})}); any callable: e.fn_op("B", "sweep", fn)
    # an index >= the number of calls means "right after the operation" (sequential baseline)
    # several injections into ONE worker: e.deliver_op("A", a, {k1: opG, k2: opB}) — A resumes between them (harness/props/c11.py, family
    # bump-retry); Op.rollbacks lists the call indices at which a write transaction of the worker was rolled back (parallel to Op.txns)
    # alternation A1 B1 A2 B2: b = e.deliver_op("B", rb); b.yields = {j: Yield(until=m)}; e.deliver_op("A", ra, {k: b})
    # (harness/props/c04.py, family alternation); Call.g = global order of all calls, Op.yielded = [(own idx, parent idx | None)]

Pieces
------
* ``install_shim()`` / ``Sched``: the proxy connection and the scheduler (arming, call log, canonical trace).
* ``Env``: store + queue + processor on one file, scripted task with a ledger kept outside the engine,
  status-audit triggers and a queue-insert ledger (SQL triggers), the reset list of tests/conftest.py.
* ``snapshot`` / ``restore``: byte copies of the db file (+ -journal/-wal/-shm) so each schedule starts from the
  identical durable state.
* ``enumerate_points(env, snap, mkop)``: run an operation once un-armed on a copy and return its DB calls with
  (kind, sql tag, in_transaction) — the legal injection points are those with ``legal`` True.
* ``run_schedule``: restore, run A armed with B@k (B armed with C@j), return the trace.
* workflow builders: fan-in (2-3 upstream branches, every join type), siblings sharing a mutex key or a
  deferred-choice group.
* ``deliver_op``: deliver a chosen queue row (message_id = str(row id), attempts as ``poll_one`` sets them).
* ``drain``: FIFO drain with delays treated as elapsed (deliver_at ignored) and a step bound.
"""
from __future__ import annotations

import dataclasses
import json
import os
import re
import sqlite3
import threading
import traceback
from dataclasses import dataclass, field
from pathlib import Path
from typing import Any, Callable

# engine configuration used by all Mode B runs (read from the environment by the engine's own config loaders)
os.environ.setdefault("STABILIZE_MAX_STAGE_WAIT_RETRIES", "2")
os.environ.setdefault("STABILIZE_HANDLER_RETRY_DELAY_S", "0.001")
os.environ.setdefault("STABILIZE_HANDLER_MIN_DELAY_MS", "1")      # retry_on_concurrency_error backoff: no real sleeps
os.environ.setdefault("STABILIZE_HANDLER_MAX_DELAY_MS", "2")
os.environ.setdefault("STABILIZE_SQLITE_BUSY_TIMEOUT_MS", "400")  # a mis-classified injection point fails fast

_REAL_SQLITE3 = sqlite3


# --------------------------------------------------------------------------------------
# scheduler + proxy connection
# --------------------------------------------------------------------------------------

_TABLE_RE = re.compile(r"\b(?:FROM|INTO|UPDATE|TABLE(?:\s+IF\s+NOT\s+EXISTS)?)\s+([A-Za-z_][A-Za-z0-9_]*)", re.I)


def sql_tag(sql: str) -> str:
    """Canonical short tag of a statement: VERB.table (first table mentioned)."""
    s = " ".join(sql.split())
    verb = s.split(" ", 1)[0].upper() if s else "?"
    if verb == "INSERT" and s.upper().startswith("INSERT OR IGNORE"):
        verb = "INSERT-OR-IGNORE"
    if verb == "UPDATE":
        m = re.match(r"UPDATE\s+([A-Za-z_][A-Za-z0-9_]*)", s, re.I)
    else:
        m = _TABLE_RE.search(s)
    return f"{verb}.{m.group(1) if m else '-'}"


@dataclass
class Call:
    idx: int
    kind: str          # "exec" | "commit"
    tag: str           # sql_tag or "COMMIT"
    intxn: bool        # connection.in_transaction right before the call
    sql: str = ""
    params: Any = None
    rowcount: int | None = None   # of INSERT/UPDATE/DELETE statements (filled after the call)
    g: int = -1        # global sequence number over ALL workers of the schedule: the order in which the calls were really performed
    #                    (assigned when on_call returns, i.e. after whatever was injected / resumed right before this call has run)

    @property
    def legal(self) -> bool:
        """B may be injected right before this call (A holds no lock); no-op commits are equivalent to the next point."""
        return not self.intxn and self.kind == "exec"

    def text(self) -> str:
        return f"{self.idx}:{self.tag}{'*' if self.intxn else ''}"


@dataclass
class Yield:
    """Marker in `Op.yields`: at that (legal) call of an INJECTED operation the baton goes back to the parent, which continues until it
    reaches its first legal call with index >= `until` (None: until the parent has finished); then the operation resumes."""
    until: int | None = None


@dataclass
class Op:
    """One operation of one worker."""
    name: str                                   # worker name in traces: "A", "B", "C"
    label: str                                  # canonical description, e.g. "CS(u1)" / "SS(j)#5"
    fn: Callable[[], Any]
    arm: dict[int, "Op"] = field(default_factory=dict)   # call index -> operation injected right before that call
    # filled by the run
    calls: list[Call] = field(default_factory=list)
    result: Any = None
    error: str | None = None
    skipped_intxn: list[int] = field(default_factory=list)
    injected: list[int] = field(default_factory=list)
    txns: list[tuple[str, list[str]]] = field(default_factory=list)   # ("commit"|"rollback", [DML tags]) per write transaction
    rollbacks: list[int] = field(default_factory=list)   # len(calls) when a write transaction was rolled back: the rollback happened
    #                                                      after call rollbacks[i]-1 and before call rollbacks[i] (parallel to the "rollback" entries of txns)
    yields: dict[int, Yield] = field(default_factory=dict)   # own call index -> hand the baton back to the parent right before that call
    # filled by the run
    yielded: list[tuple[int, int | None]] = field(default_factory=list)   # (own call index, parent's call index at which it was resumed | None = after the parent's end)
    skipped_yield: list[int] = field(default_factory=list)   # yield points that turned out to be inside a transaction (or had no parent): not taken

    def reset(self) -> None:
        self.calls, self.result, self.error = [], None, None
        self.skipped_intxn, self.injected, self.txns = [], [], []
        self.rollbacks = []
        self.yielded, self.skipped_yield = [], []
        for o in self.arm.values():
            o.reset()


class Sched:
    """Global scheduler: which thread is which worker; call log; arming; baton passing between a parent and its yielding child."""

    WAIT_S = 120

    def __init__(self) -> None:
        self.tl = threading.local()
        self.trace: list[str] = []
        self.lock = threading.Lock()
        self.active = False
        self.blocked = False
        self.gseq = 0

    def current(self) -> Op | None:
        return getattr(self.tl, "op", None)

    # called by the proxy connection BEFORE the real call
    def on_call(self, conn: sqlite3.Connection, kind: str, sql: str, params: Any = None) -> "Call | None":
        op = self.current()
        if op is None or not self.active:
            return None
        if kind == "exec":
            head = sql.lstrip()[:6].upper()
            if head == "PRAGMA":
                return None
        intxn = bool(conn.in_transaction)
        c = Call(len(op.calls), kind, "COMMIT" if kind == "commit" else sql_tag(sql), intxn, sql if kind == "exec" else "", params)
        op.calls.append(c)
        # write-transaction bookkeeping (for outcome classification)
        cur = getattr(self.tl, "dml", None)
        if kind == "exec" and c.tag.split(".")[0] in ("INSERT", "INSERT-OR-IGNORE", "UPDATE", "DELETE"):
            if cur is None:
                cur = []
                self.tl.dml = cur
            cur.append(c.tag)
        elif kind == "commit" and cur is not None:
            op.txns.append(("commit", cur))
            self.tl.dml = None
        # children that yielded back to this worker and wait for it to reach this call index
        susp = getattr(op, "_susp", None)
        if susp and c.legal:
            for ch in [x for x in susp if x._until is not None and c.idx >= x._until]:
                self._resume(op, ch, c.text(), c.idx)
        inj = op.arm.get(c.idx)
        if inj is not None:
            if not c.legal:
                op.skipped_intxn.append(c.idx)
                self.trace.append(f"{op.name}@{c.text()} skipped-intxn {inj.name}")
            else:
                op.injected.append(c.idx)
                self.trace.append(f"{op.name}@{c.text()} inject {inj.name}={inj.label}")
                self.run_op(inj)
                self._child_back(op, inj)
        # this worker's own yield: hand the baton back to the parent right before this call
        y = op.yields.get(c.idx) if op.yields else None
        if y is not None:
            parent = getattr(op, "_parent", None)
            if parent is None or not c.legal or getattr(parent, "_fn_done", False):
                op.skipped_yield.append(c.idx)
                why = "no-parent" if parent is None else ("skipped-intxn" if not c.legal else "parent-finished")
                self.trace.append(f"{op.name}@{c.text()} {why} yield")
            else:
                self.trace.append(f"{op.name}@{c.text()} yield to {parent.name} until {parent.name}@{'end' if y.until is None else y.until}")
                op._until = y.until
                op._at = c.idx
                op._state = "yield"
                op._resume_ev.clear()
                op._wake_ev.set()                  # the parent (waiting in _await) takes the baton
                if not op._resume_ev.wait(self.WAIT_S):
                    raise RuntimeError(f"modeb: {op.name} was never resumed after its yield at call {c.idx}")
                op._state = "run"
        with self.lock:
            c.g = self.gseq
            self.gseq += 1
        return c

    def on_rollback(self, conn: sqlite3.Connection) -> None:
        op = self.current()
        if op is None or not self.active:
            return
        cur = getattr(self.tl, "dml", None)
        if cur is not None:
            op.txns.append(("rollback", cur))
            op.rollbacks.append(len(op.calls))
            self.tl.dml = None

    # ---- baton passing ----------------------------------------------------------------------
    def _await(self, op: Op) -> None:
        """Block the calling (parent) thread until `op` has finished or has yielded."""
        if not op._wake_ev.wait(self.WAIT_S):
            op.error = "timeout"
            op._state = "end"
            self.blocked = True
            return
        if op._state == "end":
            op._thread.join(self.WAIT_S)

    def _child_back(self, parent: Op, ch: Op) -> None:
        """The child gave the baton back: it ended, or it yielded (then it is parked on the parent)."""
        if ch._state == "yield":
            parent._susp.append(ch)
        else:
            self.trace.append(f"{ch.name} end {ch.error or 'ok'}")

    def _resume(self, parent: Op, ch: Op, where: str, pidx: int | None) -> None:
        parent._susp.remove(ch)
        ch.yielded.append((ch._at, pidx))
        self.trace.append(f"{parent.name}@{where} resume {ch.name}")
        ch._wake_ev.clear()
        ch._resume_ev.set()
        self._await(ch)
        self._child_back(parent, ch)

    def _flush(self, op: Op) -> None:
        """`op` has finished (or died): children that still wait for it run their remaining part now."""
        op._fn_done = True
        while op._susp:
            self._resume(op, op._susp[0], "end", None)

    def run_op(self, op: Op) -> None:
        """Run `op` in its own thread (own thread-local connection) until it has finished or (injected operations only) yielded."""
        op._parent = self.current()
        op._susp = []
        op._fn_done = False
        op._state = "run"
        op._until = None
        op._at = -1
        op._wake_ev = threading.Event()
        op._resume_ev = threading.Event()

        def body() -> None:
            self.tl.op = op
            self.tl.dml = None
            try:
                try:
                    op.result = op.fn()
                finally:
                    self._flush(op)
                # an operation armed at (or beyond) its number of calls: the injected one runs right after it (sequential baseline)
                for k in sorted(op.arm):
                    if k >= len(op.calls) and k not in op.injected and k not in op.skipped_intxn:
                        inj = op.arm[k]
                        op.injected.append(k)
                        self.trace.append(f"{op.name}@end inject {inj.name}={inj.label}")
                        self.run_op(inj)
                        self._child_back(op, inj)
                        self._flush(op)
            except sqlite3.OperationalError as e:   # lock timeout: the injection point was not a free window
                op.error = "blocked:" + str(e)[:60]
                self.blocked = True
            except BaseException as e:  # noqa: BLE001
                op.error = f"{type(e).__name__}: {str(e)[:200]}"
                op.tb = traceback.format_exc()
            finally:
                self.tl.op = None
                op._state = "end"
                op._wake_ev.set()
        t = threading.Thread(target=body, name=f"modeb-{op.name}", daemon=True)
        op._thread = t
        t.start()
        self._await(op)

    def run(self, op: Op) -> list[str]:
        """Run a (possibly armed) top-level operation; returns the canonical trace."""
        self.trace = []
        self.blocked = False
        self.active = True
        self.gseq = 0
        try:
            self.trace.append(f"{op.name}={op.label}")
            self.run_op(op)
            self.trace.append(f"{op.name} end {op.error or 'ok'}")
        finally:
            self.active = False
        return self.trace


SCHED = Sched()


class ProxyConnection(sqlite3.Connection):
    def execute(self, sql, *a):  # type: ignore[override]
        c = SCHED.on_call(self, "exec", sql, a[0] if a else None)
        cur = super().execute(sql, *a)
        if c is not None and c.tag.split(".")[0] in ("INSERT", "INSERT-OR-IGNORE", "UPDATE", "DELETE"):
            c.rowcount = cur.rowcount
        return cur

    def commit(self):  # type: ignore[override]
        SCHED.on_call(self, "commit", "")
        return super().commit()

    def rollback(self):  # type: ignore[override]
        SCHED.on_rollback(self)
        return super().rollback()


class _Sqlite3Shim:
    """Stands in for the `sqlite3` module inside stabilize.persistence.connection."""

    def __getattr__(self, name: str) -> Any:
        return getattr(_REAL_SQLITE3, name)

    def connect(self, *a: Any, **kw: Any) -> sqlite3.Connection:
        kw.setdefault("factory", ProxyConnection)
        return _REAL_SQLITE3.connect(*a, **kw)


_installed = False


def install_shim() -> None:
    global _installed
    import stabilize.persistence.connection as pc

    if not isinstance(pc.sqlite3, _Sqlite3Shim):
        pc.sqlite3 = _Sqlite3Shim()
    if not _installed:
        from stabilize.persistence.sqlite_config import reset_sqlite_config
        from stabilize.resilience.config import reset_handler_config

        reset_handler_config()
        reset_sqlite_config()
        _installed = True


def uninstall_shim() -> None:
    import stabilize.persistence.connection as pc

    pc.sqlite3 = _REAL_SQLITE3


# --------------------------------------------------------------------------------------
# engine environment
# --------------------------------------------------------------------------------------

LEDGER: list[tuple[str, str]] = []      # (stage ref, task name): kept outside the engine


def reset_globals() -> None:
    """The reset list of /repo/tests/conftest.py (+ dedup filter)."""
    from stabilize import RunTaskHandler
    from stabilize.events import reset_event_bus, reset_event_migrator, reset_event_recorder
    from stabilize.persistence.connection import ConnectionManager, SingletonMeta
    from stabilize.queue.dedup import reset_deduplicator
    from stabilize.resilience.cancellation import reset_cancellation_state

    SingletonMeta.reset(ConnectionManager)
    RunTaskHandler._executing_tasks.clear()
    reset_cancellation_state()
    reset_event_bus()
    reset_event_recorder()
    reset_event_migrator()
    reset_deduplicator()


def _make_task():
    from stabilize.tasks.interface import Task
    from stabilize.tasks.result import TaskResult

    class LedgerTask(Task):
        """Scripted task: records its execution outside the engine; outcome scripted by context['_script']:
        S success (default) | T terminal | F failed-continue | U suspend on the first execution | J:<ref>:<n> jump to <ref> the first n times."""

        def execute(self, stage):  # noqa: ANN001
            LEDGER.append((stage.ref_id, "t"))
            n = sum(1 for x in LEDGER if x[0] == stage.ref_id)
            oc = stage.context.get("_script", "S")
            if oc == "T":
                return TaskResult.terminal("scripted terminal")
            if oc == "F":
                return TaskResult.failed_continue("scripted failure")
            if oc == "U" and n == 1:
                return TaskResult.suspend()
            if oc.startswith("J:"):         # J:<target ref>:<how many times>
                _, target, times = oc.split(":")
                if n <= int(times):
                    return TaskResult.jump_to(target)
            return TaskResult.success(outputs={f"o_{stage.ref_id}": 1})

    return LedgerTask()


AUDIT_SQL = """
CREATE TABLE IF NOT EXISTS _mb_audit(seq INTEGER PRIMARY KEY AUTOINCREMENT, kind TEXT, id TEXT, old TEXT, new TEXT);
CREATE TRIGGER IF NOT EXISTS _mb_au_s AFTER UPDATE OF status ON stage_executions WHEN OLD.status <> NEW.status
  BEGIN INSERT INTO _mb_audit(kind,id,old,new) VALUES('S', NEW.id, OLD.status, NEW.status); END;
CREATE TRIGGER IF NOT EXISTS _mb_au_t AFTER UPDATE OF status ON task_executions WHEN OLD.status <> NEW.status
  BEGIN INSERT INTO _mb_audit(kind,id,old,new) VALUES('T', NEW.id, OLD.status, NEW.status); END;
CREATE TRIGGER IF NOT EXISTS _mb_au_w AFTER UPDATE OF status ON pipeline_executions WHEN OLD.status <> NEW.status
  BEGIN INSERT INTO _mb_audit(kind,id,old,new) VALUES('W', NEW.id, OLD.status, NEW.status); END;
CREATE TABLE IF NOT EXISTS _mb_qledger(seq INTEGER PRIMARY KEY AUTOINCREMENT, qid INTEGER, message_type TEXT, stage_id TEXT, task_id TEXT, retry INTEGER);
CREATE TRIGGER IF NOT EXISTS _mb_q_ins AFTER INSERT ON queue_messages
  BEGIN INSERT INTO _mb_qledger(qid, message_type, stage_id, task_id, retry)
        VALUES(NEW.id, NEW.message_type, json_extract(NEW.payload, '$.stage_id'), json_extract(NEW.payload, '$.task_id'),
               COALESCE(json_extract(NEW.payload, '$.retry_count'), 0)); END;
CREATE TABLE IF NOT EXISTS _mb_claimlog(seq INTEGER PRIMARY KEY AUTOINCREMENT, op TEXT, claim_key TEXT, stage_id TEXT);
CREATE TRIGGER IF NOT EXISTS _mb_cl_ins AFTER INSERT ON stage_claims
  BEGIN INSERT INTO _mb_claimlog(op, claim_key, stage_id) VALUES('ins', NEW.claim_key, NEW.stage_id); END;
CREATE TRIGGER IF NOT EXISTS _mb_cl_upd AFTER UPDATE ON stage_claims
  BEGIN INSERT INTO _mb_claimlog(op, claim_key, stage_id) VALUES('steal', NEW.claim_key, NEW.stage_id); END;
CREATE TRIGGER IF NOT EXISTS _mb_cl_del AFTER DELETE ON stage_claims
  BEGIN INSERT INTO _mb_claimlog(op, claim_key, stage_id) VALUES('del', OLD.claim_key, OLD.stage_id); END;
"""

MSG_CODE = {
    "StartWorkflow": "SW", "StartStage": "SS", "StartTask": "ST", "RunTask": "RT", "CompleteTask": "CT",
    "CompleteStage": "CS", "SkipStage": "SK", "CancelStage": "XS", "CompleteWorkflow": "CW", "CancelWorkflow": "XW",
    "JumpToStage": "JS", "SignalStage": "SG",
}

FINAL_WF = {"SUCCEEDED", "TERMINAL", "CANCELED", "STOPPED", "FAILED_CONTINUE", "SKIPPED"}


class Env:
    """Real store + queue + processor on one SQLite file; `refs` maps stage ids <-> ref names of the built workflow."""

    def __init__(self, path: Path):
        self.path = Path(path)
        self.url = f"sqlite:///{self.path}"
        self.refs: dict[str, str] = {}      # stage id -> ref
        self.ids: dict[str, str] = {}       # ref -> stage id
        self.wf_id = ""
        self.wf_type = "PIPELINE"
        self.ro: sqlite3.Connection | None = None
        self.store = self.queue = self.processor = None

    # ---- life cycle -------------------------------------------------------------------
    def open(self, create: bool = False) -> "Env":
        from datetime import timedelta

        from stabilize import QueueProcessor, SqliteQueue, SqliteWorkflowStore, TaskRegistry
        from stabilize.resilience.config import HandlerConfig

        install_shim()
        self.close()
        # same BloomDeduplicator class, sized down: its fill_ratio() is O(bits) per message and would dominate the run time
        from stabilize.queue.dedup import get_deduplicator

        get_deduplicator(expected_items=2000)
        self.store = SqliteWorkflowStore(self.url, create_tables=create)
        self.queue = SqliteQueue(self.url, lock_duration=timedelta(hours=1))
        if create:
            self.queue._create_table()
        reg = TaskRegistry()
        reg.register("ledger", _make_task())
        hc = HandlerConfig.from_env()
        hc = dataclasses.replace(hc, task_backoff_min_delay_ms=1, task_backoff_max_delay_ms=2)
        self.processor = QueueProcessor(self.queue, store=self.store, task_registry=reg, handler_config=hc)
        self.ro = _REAL_SQLITE3.connect(str(self.path), isolation_level=None, check_same_thread=False, timeout=5)
        self.ro.row_factory = _REAL_SQLITE3.Row
        if create:
            self.ro.executescript(AUDIT_SQL)
        return self

    def close(self) -> None:
        if self.ro is not None:
            try:
                self.ro.close()
            except Exception:
                pass
            self.ro = None
        self.store = self.queue = self.processor = None
        reset_globals()

    # ---- workflow construction --------------------------------------------------------
    def create_workflow(self, stages: list[Any]) -> None:
        from stabilize.models.workflow import Workflow

        wf = Workflow.create(application="verif", name="modeb", stages=stages)
        self.store.store(wf)
        self.wf_id = wf.id
        self.wf_type = wf.type.value
        self.refs = {s.id: s.ref_id for s in stages}
        self.ids = {s.ref_id: s.id for s in stages}

    def start(self) -> None:
        from stabilize.queue.messages import StartWorkflow

        with self.store.transaction(self.queue) as txn:
            txn.push_message(StartWorkflow(execution_type=self.wf_type, execution_id=self.wf_id))

    # ---- views ------------------------------------------------------------------------
    def q(self, sql: str, *a: Any) -> list[sqlite3.Row]:
        return self.ro.execute(sql, a).fetchall()

    def ref(self, stage_id: str | None) -> str:
        return self.refs.get(stage_id or "", "?")

    def msg_code(self, mtype: str, payload: dict) -> str:
        c = MSG_CODE.get(mtype, mtype)
        if "stage_id" in payload:
            c += f"({self.ref(payload['stage_id'])})"
        if c.startswith("CT") and payload.get("status"):
            c += payload["status"][:4]
        if payload.get("retry_count"):
            c += f"r{payload['retry_count']}"       # a waiting (delayed re-queue) message
        return c

    def pending(self) -> list[tuple[int, str]]:
        return [(r["id"], self.msg_code(r["message_type"], json.loads(r["payload"])))
                for r in self.q("SELECT id, message_type, payload FROM queue_messages ORDER BY id")]

    def find(self, code: str) -> list[int]:
        return [i for i, c in self.pending() if c == code]

    def stage_row(self, ref: str) -> dict:
        r = self.q("SELECT status, version, context FROM stage_executions WHERE id=?", self.ids[ref])[0]
        ctx = json.loads(r["context"] or "{}")
        nt = self.q("SELECT COUNT(*) c FROM task_executions WHERE stage_id=?", self.ids[ref])[0]["c"]
        return {"status": r["status"], "version": r["version"], "fired": bool(ctx.get("_join_fired")), "ntasks": nt,
                "branches": len(ctx.get("_completed_branches", []) or []), "buffered": len(ctx.get("_buffered_signals", []) or [])}

    def wf_status(self) -> str:
        return self.q("SELECT status FROM pipeline_executions WHERE id=?", self.wf_id)[0]["status"]

    def state_line(self) -> str:
        parts = [f"W={self.wf_status()}"]
        for ref in sorted(self.ids):
            r = self.stage_row(ref)
            ts = ".".join(t["status"][:4] for t in self.q("SELECT status FROM task_executions WHERE stage_id=? ORDER BY id", self.ids[ref])) or "-"
            parts.append(f"{ref}={r['status']},v{r['version']},jf{int(r['fired'])},cb{r['branches']},bs{r['buffered']},{ts}")
        parts.append("Q=" + (",".join(c for _, c in self.pending()) or "-"))
        cl = ",".join(f"{r['claim_key']}>{self.ref(r['stage_id'])}" for r in self.q("SELECT claim_key, stage_id FROM stage_claims ORDER BY claim_key"))
        parts.append("C=" + (cl or "-"))
        return ";".join(parts)

    def audit(self) -> list[tuple[str, str, str, str]]:
        """(kind, ref-or-id, old, new) in commit order; rolled-back changes never appear."""
        out = []
        for r in self.q("SELECT kind, id, old, new FROM _mb_audit ORDER BY seq"):
            ent = self.ref(r["id"]) if r["kind"] == "S" else ("W" if r["kind"] == "W" else r["id"])
            out.append((r["kind"], ent, r["old"], r["new"]))
        return out

    def qledger(self) -> list[tuple[str, str, str | None, int]]:
        """every queue insert in commit order: (code, stage ref, task id, retry_count)"""
        return [(MSG_CODE.get(r["message_type"], r["message_type"]), self.ref(r["stage_id"]), r["task_id"], r["retry"] or 0)
                for r in self.q("SELECT message_type, stage_id, task_id, retry FROM _mb_qledger ORDER BY seq")]

    def claimlog(self) -> list[tuple[str, str, str]]:
        return [(r["op"], r["claim_key"], self.ref(r["stage_id"])) for r in self.q("SELECT op, claim_key, stage_id FROM _mb_claimlog ORDER BY seq")]

    # ---- message delivery -------------------------------------------------------------
    def claim_row(self, row_id: int):
        """What poll_one's claim does to the chosen row (lock, attempts+1, version+1); returns the Message it would return."""
        from stabilize.queue.sqlite.serialization import deserialize_message

        rows = self.q("SELECT * FROM queue_messages WHERE id=?", row_id)
        if not rows:
            return None
        row = rows[0]
        self.ro.execute("UPDATE queue_messages SET locked_until = datetime('now','+1 hour'), attempts = attempts + 1, version = version + 1 WHERE id=?", (row_id,))
        m = deserialize_message(row["message_type"], row["payload"])
        m.message_id = str(row_id)
        m.attempts = row["attempts"] + 1
        return m

    def handle_and_ack(self, m: Any) -> str:
        """Body of QueueProcessor.process_and_ack / process_one for one already-claimed message."""
        from datetime import timedelta

        try:
            self.processor._handle_message(m)
            self.queue.ack(m)
            return "ok"
        except sqlite3.OperationalError:
            raise
        except Exception as e:  # noqa: BLE001
            m.set_error_context(e)
            self.queue.reschedule(m, timedelta(0))
            return "raised:" + type(e).__name__

    def deliver(self, row_id: int) -> str:
        m = self.claim_row(row_id)
        if m is None:
            return "no-row"
        return self.handle_and_ack(m)

    def deliver_op(self, name: str, row_id: int, arm: dict[int, Op] | None = None) -> Op:
        """Operation: claim the row as poll_one does (un-instrumented), then handle + ack it in the worker's thread."""
        code = dict(self.pending()).get(row_id, "?")

        def fn() -> str:
            m = self.claim_row(row_id)
            if m is None:
                return "no-row"
            return self.handle_and_ack(m)

        return Op(name, f"{code}#{row_id}", fn, arm or {})

    def fn_op(self, name: str, label: str, fn: Callable[[], Any], arm: dict[int, Op] | None = None) -> Op:
        return Op(name, label, fn, arm or {})

    def push(self, message: Any) -> None:
        self.queue.push(message)

    # ---- running to quiescence --------------------------------------------------------
    def drain(self, max_steps: int = 120, hold: Callable[[str], bool] | None = None, order: Callable[[list[tuple[int, str]]], int] | None = None) -> tuple[str, int]:
        """Deliver pending rows FIFO by id until the queue is empty.  Time passes only when nothing else is deliverable:
        delayed re-queues (wait/retry messages, code suffix rN) are delivered only when no undelayed message is pending;
        locks are treated as lapsed.  `hold(code)` keeps matching messages undelivered.
        Returns (reason, steps): "empty" | "held" | "bound" | "poisoned".
        """
        steps = 0
        while steps < max_steps:
            rows = [(i, c) for i, c in self.pending()]
            cand = [(i, c) for i, c in rows if not (hold and hold(c))]
            if not cand:
                return ("empty" if not rows else "held"), steps
            cand.sort(key=lambda ic: (bool(re.search(r"r\d+$", ic[1])), ic[0]))
            rid = order(cand) if order else cand[0][0]
            att = self.q("SELECT attempts, max_attempts FROM queue_messages WHERE id=?", rid)[0]
            if att["attempts"] >= att["max_attempts"]:
                return "poisoned", steps
            self.deliver(rid)
            steps += 1
        return "bound", steps


# --------------------------------------------------------------------------------------
# snapshots
# --------------------------------------------------------------------------------------

SUFFIXES = ("", "-journal", "-wal", "-shm")


def snapshot(env: Env) -> dict[str, bytes | None]:
    """Close every connection of this thread, then copy the database file(s)."""
    env.close()
    snap: dict[str, bytes | None] = {}
    for suf in SUFFIXES:
        p = Path(str(env.path) + suf)
        snap[suf] = p.read_bytes() if p.exists() else None
    return snap


def restore(env: Env, snap: dict[str, bytes | None]) -> Env:
    env.close()
    for suf in SUFFIXES:
        p = Path(str(env.path) + suf)
        data = snap.get(suf)
        if data is None:
            if p.exists():
                p.unlink()
        else:
            p.write_bytes(data)
    LEDGER.clear()
    return env.open(create=False)


# --------------------------------------------------------------------------------------
# enumeration
# --------------------------------------------------------------------------------------

def enumerate_points(env: Env, snap: dict, mkop: Callable[[Env], Op]) -> list[Call]:
    """Run the operation once, un-armed, from the snapshot; return all its DB calls (legal points: c.legal)."""
    restore(env, snap)
    op = mkop(env)
    op.arm = {}
    SCHED.run(op)
    if op.error:
        raise RuntimeError(f"enumeration run of {op.label} failed: {op.error}\n{getattr(op, 'tb', '')}")
    return list(op.calls)


@dataclass
class Outcome:
    trace: list[str]
    ops: list[Op]
    blocked: bool
    skipped: bool        # the armed point turned out to be inside a transaction in this run
    post_line: str = ""


def run_schedule(env: Env, snap: dict, mkops: Callable[[Env], Op]) -> Outcome:
    """Restore the snapshot, build the (armed) top-level operation against the fresh Env, run it."""
    restore(env, snap)
    top = mkops(env)
    trace = SCHED.run(top)
    ops = []

    def collect(o: Op) -> None:
        ops.append(o)
        for k in sorted(o.arm):
            collect(o.arm[k])

    collect(top)
    skipped = any(o.skipped_intxn for o in ops) or any(not o.injected and o.arm for o in ops if o.calls)
    errors = [o for o in ops if o.error and not o.error.startswith("blocked")]
    if errors:
        e = errors[0]
        raise RuntimeError(f"worker {e.name}={e.label} raised {e.error}\n{getattr(e, 'tb', '')}")
    return Outcome(trace, ops, SCHED.blocked, skipped, env.state_line())


def txn_summary(op: Op, table: str = "stage_executions") -> str:
    """`c<commits>r<rollbacks>` over the write transactions of `op` that update `table`."""
    c = sum(1 for k, d in op.txns if k == "commit" and any(t == f"UPDATE.{table}" for t in d))
    r = sum(1 for k, d in op.txns if k == "rollback" and any(t == f"UPDATE.{table}" for t in d))
    return f"c{c}r{r}"


# --------------------------------------------------------------------------------------
# workflow builders
# --------------------------------------------------------------------------------------

def _task():
    from stabilize.models.task import TaskExecution

    return TaskExecution.create(name="t", implementing_class="ledger", stage_start=True, stage_end=True)


def register_gen_builder() -> None:
    """Stage type `gen`: no predefined task rows; `build_tasks` creates the single ledger task at planning time
    (so that between the claim commit and the plan commit the stage looks like a zombie: RUNNING without tasks)."""
    from stabilize.stages.builder import StageDefinitionBuilder, get_default_factory

    class GenStageBuilder(StageDefinitionBuilder):
        @property
        def type(self) -> str:
            return "gen"

        def build_tasks(self, stage):  # noqa: ANN001
            return [_task()]

    if not get_default_factory().has("gen"):
        get_default_factory().register(GenStageBuilder())


def stage(ref: str, reqs: set[str] | None = None, tasks: bool = True, **kw: Any):
    from stabilize.models.stage import StageExecution

    ctx = kw.pop("context", {})
    if not tasks:
        register_gen_builder()
    return StageExecution(ref_id=ref, type="noop" if tasks else "gen", name=ref, context=dict(ctx), tasks=[_task()] if tasks else [],
                          requisite_stage_ref_ids=set(reqs or ()), **kw)


def build_fanin(env: Env, n_up: int, join: str, threshold: int = 0, scripts: dict[str, str] | None = None, predefined: bool = True) -> None:
    """u1..un (initial) -> j (join type) -> d.  scripts: ref -> 'S'|'T'|'F' task outcome.
    predefined=False: j has no task rows until it is planned (stage type `gen`)."""
    from stabilize.models.stage import JoinType

    scripts = scripts or {}
    ups = [f"u{i + 1}" for i in range(n_up)]
    stages = [stage(u, context={"_script": scripts.get(u, "S")}) for u in ups]
    stages.append(stage("j", set(ups), tasks=predefined, join_type=JoinType[join], join_threshold=threshold))
    stages.append(stage("d", {"j"}))
    env.create_workflow(stages)


def build_siblings(env: Env, n: int, mutex_key: str | None = None, choice_group: str | None = None, tail: bool = False) -> None:
    """s1..sn initial siblings sharing a mutex key and/or a deferred-choice group; optional AND-join tail stage `e`."""
    stages = [stage(f"s{i + 1}", mutex_key=mutex_key, deferred_choice_group=choice_group) for i in range(n)]
    if tail:
        stages.append(stage("e", {f"s{i + 1}" for i in range(n)}))
    env.create_workflow(stages)


def fresh_env(workdir: Path, name: str = "mb") -> Env:
    p = Path(workdir) / f"{name}.db"
    for suf in SUFFIXES:
        q = Path(str(p) + suf)
        if q.exists():
            q.unlink()
    LEDGER.clear()
    return Env(p).open(create=True)
