"""Message-at-a-time driver for the REAL engine (SQLite store + queue + QueueProcessor) with canonical state lines.

The same (spec, op list) is fed to the Lean `engine` model; the per-op state lines must be equal.
Nothing in /repo is modified: scripted tasks, SQL triggers and a connection factory are installed from outside.
"""
from __future__ import annotations

import json
import os
import shutil
import sqlite3
from dataclasses import dataclass, field
from pathlib import Path
from typing import Any, Callable

os.environ.setdefault("STABILIZE_MAX_STAGE_WAIT_RETRIES", "2")
os.environ.setdefault("STABILIZE_HANDLER_RETRY_DELAY_S", "864000")   # "delayed" messages are recognisable by deliver_at

WAIT_MAX = int(os.environ["STABILIZE_MAX_STAGE_WAIT_RETRIES"])

JOIN_NAMES = ["AND", "OR", "MULTI_MERGE", "DISCRIMINATOR", "N_OF_M"]


# --------------------------------------------------------------------------------------
# workflow specification shared with the Lean model
# --------------------------------------------------------------------------------------

@dataclass
class StageSpec:
    reqs: list[int] = field(default_factory=list)
    join: str = "AND"
    threshold: int = 0
    tasks: list[list[str]] = field(default_factory=lambda: [["S"]])   # per task: outcome per execution (last repeats)
    cont: bool = False            # continuePipelineOnFailure
    failp: bool = True            # failPipeline
    enabled: bool | None = None   # stageEnabled
    maxj: int | None = None       # stage-level _max_jumps
    split: dict | None = None     # OR-split: {downstream stage index: bool value of its split condition}; None = AND-split
    # pre-declared synthetic children (implementation-only family, harness/synth_suites.py; NOT part of the model's spec line):
    # [{"owner": "B" | "A", "tasks": [[outcome, ...]]}, ...]  B = STAGE_BEFORE, A = STAGE_AFTER; optional "req": k = this child has the
    # k-th child of the same list as its requisite (a CHAIN of before- / after-stages, as tests/test_synthetic_stage_edge_cases.py
    # declares it: requisite_stage_ref_ids={sibling ref}); children without "req" are the initial ones (is_initial())
    synth: list | None = None


@dataclass
class Spec:
    stages: list[StageSpec]
    wf_maxj: int | None = None

    def line(self) -> str:
        """`<wfmaxj>#<stage>#<stage>...`, stage = reqs/join/threshold/cont/failp/enabled/maxj/task+task, task = o.o.o"""
        def opt(x):
            return "-" if x is None else str(int(x))
        parts = [opt(self.wf_maxj)]
        for s in self.stages:
            reqs = ",".join(map(str, s.reqs)) or "-"
            tasks = "+".join(".".join(t) for t in s.tasks) or "-"
            fields = [reqs, s.join, str(s.threshold), str(int(s.cont)), str(int(s.failp)), opt(s.enabled), opt(s.maxj), tasks]
            if s.split:
                fields.append(".".join(f"{int(d)}:{int(bool(b))}" for d, b in sorted((int(d), b) for d, b in s.split.items())))
            parts.append("/".join(fields))
        return "#".join(parts)

    def to_json(self) -> dict:
        return {"wf_maxj": self.wf_maxj,
                "stages": [{k: v for k, v in vars(s).items() if not (k == "synth" and not v)} for s in self.stages]}

    def children(self) -> list[tuple[int, str, list[list[str]]]]:
        """synthetic children in storage order: (parent index, owner 'B'/'A', task scripts); the child number c of this list
        is stage index len(stages) + c in state lines, audit rows, message codes and the ledger"""
        out = []
        for i, s in enumerate(self.stages):
            for ch in (s.synth or []):
                out.append((i, ch["owner"], [list(t) for t in ch["tasks"]]))
        return out

    def child_reqs(self) -> list[int | None]:
        """per child (storage order): the stage index of the sibling child it requires, or None"""
        out: list[int | None] = []
        base = len(self.stages)
        for s in self.stages:
            kids = s.synth or []
            for ch in kids:
                k = ch.get("req")
                out.append(None if k is None else base + int(k))
            base += len(kids)
        return out

    def scripts(self, s: int) -> list[list[str]]:
        """task scripts of stage index s (top-level stage or synthetic child)"""
        if s < len(self.stages):
            return self.stages[s].tasks
        return self.children()[s - len(self.stages)][2]

    @staticmethod
    def from_json(d: dict) -> "Spec":
        return Spec([StageSpec(**s) for s in d["stages"]], d.get("wf_maxj"))


class World:
    """What the engine does not control; lives outside it and survives 'crashes'."""

    def __init__(self, spec: Spec):
        self.spec = spec
        self.exec_count: dict[tuple[int, int], int] = {}
        self.ledger: list[tuple[int, int, int, tuple]] = []
        self.hook: Callable[[int, int, int], None] | None = None

    def outcome(self, s: int, t: int, n: int) -> str:
        script = self.spec.scripts(s)[t]
        return script[min(n - 1, len(script) - 1)]


def make_task(world: World, s: int, t: int):
    from stabilize.errors import PermanentError, TransientError
    from stabilize.tasks.interface import Task
    from stabilize.tasks.result import TaskResult

    class ScriptedTask(Task):
        def execute(self, stage):  # noqa: ANN001
            n = world.exec_count.get((s, t), 0) + 1
            world.exec_count[(s, t)] = n
            seen = tuple(sorted((int(k[1:]), v) for k, v in stage.context.items() if k[:1] == "v" and k[1:].isdigit()))
            world.ledger.append((s, t, n, seen))
            if world.hook is not None:
                world.hook(s, t, n)
            oc = world.outcome(s, t, n)
            out = {f"v{s}": n}
            if oc == "S":
                return TaskResult.success(outputs=out)
            if oc == "T":
                return TaskResult.terminal("scripted terminal")
            if oc == "F":
                return TaskResult.failed_continue("scripted failure")
            if oc == "P":
                return TaskResult.stopped()
            if oc == "C":
                return TaskResult.canceled()
            if oc == "K":
                return TaskResult.skipped()
            if oc == "D":
                return TaskResult.redirect()
            if oc == "R":
                return TaskResult.running()
            if oc == "U":
                return TaskResult.suspend()
            if oc == "E":
                raise TransientError("scripted transient")
            if oc == "X":
                raise PermanentError("scripted permanent")
            if oc[0] == "J":
                return TaskResult.jump_to(f"s{int(oc[1:])}", outputs=out)
            raise AssertionError(f"unknown outcome {oc}")

    return ScriptedTask()


MSG_CODE = {
    "StartWorkflow": "SW", "StartStage": "SS", "StartTask": "ST", "RunTask": "RT", "CompleteTask": "CT",
    "CompleteStage": "CS", "SkipStage": "SK", "CancelStage": "XS", "CompleteWorkflow": "CW", "CancelWorkflow": "XW",
    "JumpToStage": "JS", "SignalStage": "SG", "ContinueParentStage": "CP",
    "PauseTask": "PT", "ResumeStage": "RS",      # pause / resume dimension (implementation-only, harness/synth_suites.py)
    "RestartStage": "RR",                        # operator restart dimension (implementation-only, harness/synth_suites.py)
}


class Kill(BaseException):
    """The worker process is killed: not an Exception, so none of the engine's error paths run."""


class _KillState:
    armed: int | None = None     # kill when this many commits have completed
    count = 0                    # durable commits since the last arm/reset
    dead = False
    hook_at: int | None = None   # run hook_fn once, right after this many commits of the current delivery have completed
    hook_fn = None
    fail_sql: str | None = None  # the next statement containing this text fails once with "database is locked" (busy timeout)


def install_kill_shim() -> None:
    """Make every engine connection a Connection subclass that can die at the k-th durable commit."""
    import stabilize.persistence.connection as pc

    if getattr(pc.sqlite3, "_verif_shim", False):
        return
    real = pc.sqlite3

    class KillConn(real.Connection):
        def execute(self, sql, *a):  # noqa: ANN001, ANN201
            if _KillState.fail_sql is not None and _KillState.fail_sql in sql:
                _KillState.fail_sql = None
                raise real.OperationalError("database is locked")
            return super().execute(sql, *a)

        def commit(self):  # noqa: ANN201
            if self.in_transaction:
                if _KillState.dead or (_KillState.armed is not None and _KillState.count >= _KillState.armed):
                    _KillState.dead = True
                    raise Kill()
                _KillState.count += 1
                if _KillState.hook_fn is not None and _KillState.count == _KillState.hook_at:
                    r = super().commit()
                    fn, _KillState.hook_fn = _KillState.hook_fn, None
                    fn()
                    return r
            return super().commit()

    class Shim:
        _verif_shim = True

        def connect(self, *a, **kw):  # noqa: ANN201
            kw.setdefault("factory", KillConn)
            return real.connect(*a, **kw)

        def __getattr__(self, name):  # noqa: ANN001, ANN204
            return getattr(real, name)

    pc.sqlite3 = Shim()


def reset_globals() -> None:
    from stabilize import RunTaskHandler
    from stabilize.events import reset_event_bus, reset_event_migrator, reset_event_recorder
    from stabilize.persistence.connection import ConnectionManager, SingletonMeta
    from stabilize.queue.dedup import reset_deduplicator
    from stabilize.resilience.cancellation import reset_cancellation_state

    SingletonMeta.reset(ConnectionManager)
    RunTaskHandler._executing_tasks.clear()
    reset_cancellation_state()
    reset_event_bus()
    reset_event_recorder()
    reset_event_migrator()
    reset_deduplicator()
    # the default process-wide bloom filter (100 000 items) costs ~130 ms per message in fill_ratio
    from stabilize.queue.dedup import get_deduplicator

    get_deduplicator(expected_items=5000)


class _NoCircuit:
    """circuit_factory whose circuits never open (get_circuit returns the identity decorator)"""

    def get_circuit(self, workflow_execution_id: str, task_type: str):  # noqa: ANN201
        return lambda f: f

    def clear_workflow_circuits(self, workflow_execution_id: str) -> None:
        return None


class Engine:
    def __init__(self, spec: Spec, workdir: Path, name: str = "e"):
        self.spec = spec
        self.world = World(spec)
        self.dir = Path(workdir)
        self.path = self.dir / f"{name}.db"
        for suffix in ("", "-wal", "-shm"):
            p = Path(str(self.path) + suffix)
            if p.exists():
                p.unlink()
        self.url = f"sqlite:///{self.path}"
        self.stage_ids: list[str] = []
        self.task_ids: dict[str, tuple[int, int]] = {}
        self.wf_id = ""
        self._open(create=True)
        self._create_workflow()

    # ---- assembling ------------------------------------------------------------------
    def _open(self, create: bool = False) -> None:
        from datetime import timedelta

        from stabilize import QueueProcessor, SqliteQueue, SqliteWorkflowStore, TaskRegistry
        from stabilize.resilience.config import HandlerConfig

        reset_globals()
        # handlers other than RunTask read the process-wide config: force ours, whatever was loaded before
        os.environ["STABILIZE_MAX_STAGE_WAIT_RETRIES"] = str(WAIT_MAX)
        os.environ["STABILIZE_HANDLER_RETRY_DELAY_S"] = "864000"
        from stabilize.resilience.config import reset_handler_config

        reset_handler_config()
        install_kill_shim()
        _KillState.armed = None
        _KillState.dead = False
        _KillState.count = 0
        self.store = SqliteWorkflowStore(self.url, create_tables=True)
        self.queue = SqliteQueue(self.url, lock_duration=timedelta(hours=1))
        self.queue._create_table()
        self.registry = TaskRegistry()
        for s, st in enumerate(self.spec.stages):
            for t in range(len(st.tasks)):
                self.registry.register(f"T_{s}_{t}", make_task(self.world, s, t))
        for c, (_par, _own, scripts) in enumerate(self.spec.children()):
            for t in range(len(scripts)):
                self.registry.register(f"T_{len(self.spec.stages) + c}_{t}", make_task(self.world, len(self.spec.stages) + c, t))
        hc = HandlerConfig(task_backoff_min_delay_ms=864000000, task_backoff_max_delay_ms=864000001,
                           max_stage_wait_retries=WAIT_MAX, handler_retry_delay_seconds=864000)
        # the per-workflow circuit breaker is volatile in-memory state outside the model: pass-through
        self.processor = QueueProcessor(self.queue, store=self.store, task_registry=self.registry, handler_config=hc,
                                        circuit_factory=_NoCircuit())
        self.ro = sqlite3.connect(str(self.path), isolation_level=None, check_same_thread=False)
        self.ro.row_factory = sqlite3.Row
        if create:
            self.ro.executescript(
                """
                CREATE TABLE IF NOT EXISTS _audit(seq INTEGER PRIMARY KEY AUTOINCREMENT, kind TEXT, id TEXT, old TEXT, new TEXT);
                CREATE TRIGGER IF NOT EXISTS _au_s AFTER UPDATE OF status ON stage_executions WHEN OLD.status <> NEW.status
                  BEGIN INSERT INTO _audit(kind,id,old,new) VALUES('S', NEW.id, OLD.status, NEW.status); END;
                CREATE TRIGGER IF NOT EXISTS _au_t AFTER UPDATE OF status ON task_executions WHEN OLD.status <> NEW.status
                  BEGIN INSERT INTO _audit(kind,id,old,new) VALUES('T', NEW.id, OLD.status, NEW.status); END;
                CREATE TRIGGER IF NOT EXISTS _au_w AFTER UPDATE OF status ON pipeline_executions WHEN OLD.status <> NEW.status
                  BEGIN INSERT INTO _audit(kind,id,old,new) VALUES('W', NEW.id, OLD.status, NEW.status); END;
                """
            )

    def _create_workflow(self) -> None:
        from stabilize import Orchestrator
        from stabilize.models.stage import JoinType, StageExecution
        from stabilize.models.task import TaskExecution
        from stabilize.models.workflow import Workflow

        stages = []
        for i, sp in enumerate(self.spec.stages):
            ctx: dict[str, Any] = {}
            if sp.cont:
                ctx["continuePipelineOnFailure"] = True
            if not sp.failp:
                ctx["failPipeline"] = False
            if sp.enabled is not None:
                ctx["stageEnabled"] = sp.enabled
            if sp.maxj is not None:
                ctx["_max_jumps"] = sp.maxj
            tasks = [TaskExecution.create(name=f"t{t}", implementing_class=f"T_{i}_{t}", stage_start=(t == 0),
                                          stage_end=(t == len(sp.tasks) - 1)) for t in range(len(sp.tasks))]
            extra = {}
            if sp.split:
                from stabilize.models.stage import SplitType

                extra = {"split_type": SplitType.OR,
                         "split_conditions": {f"s{int(d)}": ("True" if b else "False") for d, b in sp.split.items()}}
            st = StageExecution(ref_id=f"s{i}", type="scripted", name=f"s{i}", context=ctx, tasks=tasks,
                                requisite_stage_ref_ids={f"s{r}" for r in sp.reqs},
                                join_type=JoinType[sp.join], join_threshold=sp.threshold, **extra)
            stages.append(st)
        # pre-declared synthetic children, built the way the repo's tests build them (tests/test_synthetic_stage_edge_cases.py):
        # a StageExecution with synthetic_stage_owner + parent_stage_id, no requisites, stored with the workflow
        n_top = len(stages)
        child_reqs = self.spec.child_reqs()
        for c, (par, own, scripts) in enumerate(self.spec.children()):
            from stabilize.models.stage import SyntheticStageOwner

            i = n_top + c
            tasks = [TaskExecution.create(name=f"t{t}", implementing_class=f"T_{i}_{t}", stage_start=(t == 0),
                                          stage_end=(t == len(scripts) - 1)) for t in range(len(scripts))]
            ch = StageExecution(ref_id=f"s{i}", type="scripted", name=f"s{i}", context={}, tasks=tasks,
                                requisite_stage_ref_ids=({f"s{child_reqs[c]}"} if child_reqs[c] is not None else set()),
                                synthetic_stage_owner=(SyntheticStageOwner.STAGE_BEFORE if own == "B" else SyntheticStageOwner.STAGE_AFTER))
            ch.parent_stage_id = stages[par].id
            stages.append(ch)
        wf = Workflow.create(application="verif", name="wf", stages=stages)
        if self.spec.wf_maxj is not None:
            wf.context["_max_jumps"] = self.spec.wf_maxj
        self.store.store(wf)
        self.wf_id = wf.id
        self.stage_ids = [s.id for s in stages]
        for i, s in enumerate(stages):
            for t, task in enumerate(s.tasks):
                self.task_ids[task.id] = (i, t)
        self.orch = Orchestrator(self.queue, self.store)
        self._wf_obj = wf

    def start(self) -> None:
        """Orchestrator.start: pushes StartWorkflow (the workflow row is already stored)."""
        from stabilize.queue.messages import StartWorkflow

        with self.store.transaction(self.queue) as txn:
            txn.push_message(StartWorkflow(execution_type=self._wf_obj.type.value, execution_id=self.wf_id))

    def close(self) -> None:
        try:
            self.ro.close()
        except Exception:
            pass
        reset_globals()

    def restart(self) -> None:
        """Process restart: every Python object of the engine is dropped and rebuilt from the file."""
        self.close()
        self._open(create=False)

    # ---- canonical views -------------------------------------------------------------
    def sidx(self, stage_id: str) -> int:
        return self.stage_ids.index(stage_id)

    def msg_code(self, mtype: str, payload: dict) -> str:
        c = MSG_CODE.get(mtype, mtype)
        if c in ("SW", "XW"):
            return c
        if c == "CW":
            return f"CW.{payload.get('retry_count') or 0}"
        s = self.sidx(payload["stage_id"]) if payload.get("stage_id") in self.stage_ids else "?"
        if c == "SS":
            return f"SS.{s}.{payload.get('retry_count') or 0}"
        if c in ("CS", "SK", "XS"):
            return f"{c}.{s}"
        if c in ("ST", "RT", "PT"):
            return f"{c}.{s}.{self.task_ids.get(payload.get('task_id'), ('?', '?'))[1]}"
        if c == "CT":
            return f"CT.{s}.{self.task_ids.get(payload.get('task_id'), ('?', '?'))[1]}.{payload.get('status')}"
        if c == "JS":
            return f"JS.{s}.{payload.get('target_stage_ref_id', '?')[1:]}"
        if c == "SG":
            return f"SG.{s}.{int(bool(payload.get('persistent')))}"
        if c == "CP":
            return f"CP.{s}.{'B' if 'BEFORE' in str(payload.get('phase')) else 'A'}.{payload.get('retry_count') or 0}"
        return f"{c}.{s}"

    def pending(self) -> list[tuple[int, str, int]]:
        rows = self.ro.execute("SELECT id, message_type, payload, attempts FROM queue_messages ORDER BY id").fetchall()
        return [(r["id"], self.msg_code(r["message_type"], json.loads(r["payload"])), r["attempts"]) for r in rows]

    def delayed_ids(self) -> set[int]:
        """rows pushed with a delay (wait re-polls, polling / transient RunTask): deliver_at is days ahead"""
        rows = self.ro.execute("SELECT id FROM queue_messages WHERE datetime(deliver_at) > datetime('now', '+1 day')").fetchall()
        return {r[0] for r in rows}

    def state_line(self) -> str:
        w = self.ro.execute("SELECT status, is_canceled FROM pipeline_executions WHERE id=?", (self.wf_id,)).fetchone()
        parts = [f"W={w['status']},{int(bool(w['is_canceled']))}"]
        for i, sid in enumerate(self.stage_ids):
            r = self.ro.execute("SELECT status, version, start_time, context, outputs FROM stage_executions WHERE id=?", (sid,)).fetchone()
            ctx = json.loads(r["context"] or "{}")
            outs = json.loads(r["outputs"] or "{}")
            ts = self.ro.execute("SELECT status, start_time FROM task_executions WHERE stage_id=? ORDER BY id", (sid,)).fetchall()
            tstr = ".".join(f"{t['status']}{'' if t['start_time'] is None else '*'}" for t in ts) or "-"
            data = ",".join(f"{k}:{v}" for k, v in sorted((int(k[1:]), v) for k, v in ctx.items() if k[:1] == "v" and k[1:].isdigit())) or "-"
            out = ",".join(f"{k}:{v}" for k, v in sorted((int(k[1:]), v) for k, v in outs.items() if k[:1] == "v" and k[1:].isdigit())) or "-"
            cb = ",".join(str(int(x[1:])) for x in ctx.get("_completed_branches", [])) or "-"
            jc = ctx.get("_jump_count")
            bs = len(ctx.get("_buffered_signals", []) or [])
            flags = f"jf{int(bool(ctx.get('_join_fired')))}jb{int(bool(ctx.get('_jump_bypass')))}ex{int('exception' in ctx)}"
            parts.append(f"S{i}={r['status']},v{r['version']},st{int(r['start_time'] is not None)},{tstr},{flags},cb{cb},jc{'-' if jc is None else jc},bs{bs},d{data},o{out}")
        q = ",".join(f"{i}:{c}/{a}" for i, c, a in self.pending()) or "-"
        parts.append(f"Q={q}")
        pr = self.ro.execute("SELECT message_id FROM processed_messages").fetchall()
        parts.append("P=" + (",".join(str(x) for x in sorted(int(r[0]) for r in pr if str(r[0]).isdigit())) or "-"))
        return ";".join(parts)

    def audit(self) -> list[tuple[str, str, str, str]]:
        out = []
        for r in self.ro.execute("SELECT kind, id, old, new FROM _audit ORDER BY seq").fetchall():
            if r["kind"] == "S":
                ent = f"S{self.sidx(r['id'])}" if r["id"] in self.stage_ids else "S?"
            elif r["kind"] == "T":
                st = self.task_ids.get(r["id"])
                ent = f"T{st[0]}.{st[1]}" if st else "T?"
            else:
                ent = "W"
            out.append((ent, r["old"], r["new"]))
        return out

    def audit_line(self) -> str:
        return ",".join(f"{e}:{o}>{n}" for e, o, n in self.audit()) or "-"

    def ledger_line(self) -> str:
        return ",".join(f"{s}.{t}.{n}[{'+'.join(f'{k}:{v}' for k, v in seen)}]" for s, t, n, seen in self.world.ledger) or "-"

    # ---- operations ------------------------------------------------------------------
    def _load(self, row_id: int):
        from stabilize.queue.sqlite.serialization import deserialize_message

        row = self.ro.execute("SELECT * FROM queue_messages WHERE id=?", (row_id,)).fetchone()
        if row is None:
            return None
        # what poll_one's claim does to the row (a lock left by a dead worker has lapsed by now)
        from datetime import UTC, datetime, timedelta

        self.ro.execute("UPDATE queue_messages SET attempts = attempts + 1, version = version + 1, locked_until = ? WHERE id=?",
                        ((datetime.now(UTC) + timedelta(hours=1)).isoformat(), row_id))
        m = deserialize_message(row["message_type"], row["payload"])
        m.message_id = str(row_id)
        m.attempts = row["attempts"] + 1
        return m

    def deliver(self, row_id: int, ack: bool = True) -> str:
        """Deliver one chosen message through the real QueueProcessor._handle_message (+ ack)."""
        m = self._load(row_id)
        if m is None:
            return "no-row"
        try:
            if ack:
                self.processor._handle_message(m)
                self.queue.ack(m)
            else:
                # the worker dies after the handler's own commits, before the processor's mark + ack
                if self.store.is_message_processed(m.message_id):
                    return "dup"
                self.processor._handlers[type(m)].handle(m)
            return "ok"
        except Exception as e:  # what process_one does
            from datetime import timedelta

            m.set_error_context(e)
            self.queue.reschedule(m, timedelta(0))
            return "raised:" + type(e).__name__

    def crash(self, row_id: int, k: int) -> tuple[str, int]:
        """Deliver `row_id`, kill the worker when k durable commits of this delivery have completed, restart.

        Returns ("killed", k) or ("completed", total commits) when the delivery has fewer than k+1 commits."""
        m = self._load(row_id)
        if m is None:
            return "no-row", 0
        _KillState.count = 0
        _KillState.dead = False
        _KillState.armed = k
        exec_before = dict(self.world.exec_count)
        outcome = "completed"
        try:
            self.processor._handle_message(m)
            self.queue.ack(m)
        except Kill:
            outcome = "killed"
        except Exception as e:
            from datetime import timedelta

            try:
                m.set_error_context(e)
                self.queue.reschedule(m, timedelta(0))
                outcome = "raised:" + type(e).__name__
            except Kill:
                outcome = "killed"
        n = _KillState.count
        _KillState.armed = None
        if outcome == "killed" and n == 0 and type(m).__name__ == "RunTask":
            # the task ran but its result never became durable: a task is a function of its inputs, so the
            # re-execution must behave the same -> the script index counts RECORDED executions only
            for key, before in exec_before.items():
                self.world.exec_count[key] = before
            for key in [k for k in self.world.exec_count if k not in exec_before]:
                del self.world.exec_count[key]
        self.restart()
        return outcome, n

    def sweep_as_other_worker(self) -> None:
        """A recovery sweep by ANOTHER worker: own store / queue objects on their own connection (the connection manager is
        per thread), exactly what a second process sees - the committed rows only."""
        import threading

        err: list[BaseException] = []

        def body() -> None:
            try:
                from datetime import timedelta

                from stabilize import SqliteQueue, SqliteWorkflowStore
                from stabilize.recovery import WorkflowRecovery

                store = SqliteWorkflowStore(self.url, create_tables=False)
                queue = SqliteQueue(self.url, lock_duration=timedelta(hours=1))
                WorkflowRecovery(store=store, queue=queue).recover_pending_workflows()
            except BaseException as e:  # noqa: BLE001
                err.append(e)

        th = threading.Thread(target=body)
        th.start()
        th.join()
        if err:
            raise RuntimeError(f"interposed sweep failed: {err[0]!r}")

    def interpose(self, row_id: int, k: int) -> tuple[str, int]:
        """Deliver `row_id` (with ack) while another worker's recovery sweep runs right after the k-th durable commit of
        this delivery (k = 0: after the poll's claim, before the handler's first commit).  No crash is involved.
        Returns (outcome, commits of the delivery); the sweep did not run when the delivery has fewer than k commits."""
        m = self._load(row_id)
        if m is None:
            return "no-row", 0
        _KillState.count = 0
        _KillState.hook_fn = None
        ran = []
        if k == 0:
            self.sweep_as_other_worker()
            ran.append(1)
        else:
            _KillState.hook_at = k
            _KillState.hook_fn = lambda: (ran.append(1), self.sweep_as_other_worker())
        try:
            self.processor._handle_message(m)
            self.queue.ack(m)
            outcome = "ok"
        except Exception as e:
            from datetime import timedelta

            m.set_error_context(e)
            self.queue.reschedule(m, timedelta(0))
            outcome = "raised:" + type(e).__name__
        finally:
            _KillState.hook_fn = None
        return (outcome if ran else outcome + ":no-sweep"), _KillState.count

    def count_commits(self, fn) -> int:  # noqa: ANN001
        _KillState.count = 0
        fn()
        return _KillState.count

    def cancel(self) -> None:
        self.orch.cancel(self._wf_obj, "verif", "injected")

    def signal(self, s: int, persistent: bool) -> None:
        from stabilize.queue.messages import SignalStage

        self.queue.push(SignalStage(execution_type=self._wf_obj.type.value, execution_id=self.wf_id, stage_id=self.stage_ids[s],
                                    signal_name="go", signal_data={"x": 1}, persistent=persistent))

    def sweep(self) -> None:
        self.processor.run_recovery()

    # ---- operator pause / resume (public API, as tests/test_workflow_control.py and the monitor UI use it) ----------
    def pause(self) -> None:
        """store.pause(): the workflow row goes PAUSED; RunTask deliveries then park their task and stage (PauseTask)"""
        self.store.pause(self.wf_id, paused_by="verif")

    def unpause(self) -> None:
        """Orchestrator.unpause(): one ResumeStage per stage that is PAUSED right now (the first one handled lifts the workflow-level pause)"""
        from stabilize import Orchestrator

        Orchestrator(self.queue, self.store).unpause(self._wf_obj)      # (a fresh one: store / queue objects are rebuilt by restart())

    def resume(self) -> None:
        """store.resume(): PAUSED -> RUNNING on the workflow row, if it is (still) PAUSED; closes the pause record"""
        self.store.resume(self.wf_id)

    def restart_stage(self, s: int) -> None:
        """Orchestrator.restart(): pushes RestartStage for stage index s (the handler resets a COMPLETED stage and its tasks to
        NOT_STARTED, re-opens a finished workflow and pushes StartStage; refuses inside a canceled workflow)"""
        from stabilize import Orchestrator

        Orchestrator(self.queue, self.store).restart(self._wf_obj, self.stage_ids[s])

    def locked_ids(self) -> set[int]:
        """rows claimed by a worker that never acknowledged them (the dead worker's lock has not lapsed yet)"""
        return {r[0] for r in self.ro.execute("SELECT id FROM queue_messages WHERE locked_until IS NOT NULL").fetchall()}

    def expire_locks(self) -> None:
        self.ro.execute("UPDATE queue_messages SET locked_until = NULL")
